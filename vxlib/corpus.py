"""Document corpus for the API-level (bounded) differential checks: own documents + the repository's parser test fixtures."""
import os
import re

PARSER = 'autosar-data/src/parser.rs'

HDR = ('<?xml version="1.0" encoding="utf-8"?>\n<AUTOSAR xsi:schemaLocation="http://autosar.org/schema/r4.0 AUTOSAR_%s.xsd" '
       'xmlns="http://autosar.org/schema/r4.0" xmlns:xsi="http://www.w3.org/2001/XMLSchema-instance">')


def doc(x, ver='00050'):
    return (HDR % ver) + '<AR-PACKAGES><AR-PACKAGE><SHORT-NAME>Pkg</SHORT-NAME><ELEMENTS>' + x + '</ELEMENTS></AR-PACKAGE></AR-PACKAGES></AUTOSAR>'


SYS = '<SYSTEM><SHORT-NAME>Sys</SHORT-NAME>%s</SYSTEM>'
OWN_VALID = [doc(''), doc(SYS % ''), doc(SYS % '<DESC><L-2 L="EN">a &amp; b &#65; &#x42;</L-2></DESC>'),
             doc(SYS % '<CATEGORY>CAT</CATEGORY>'), doc(SYS % '', ver='4-0-1')]
OWN_DEFECT = [
    doc('<NOT-AN-ELEMENT/>'),                                   # unknown element
    doc('<ELEMENTS/>'),                                         # known element, unknown in this context
    doc(SYS % '<SHORT-NAME>Again</SHORT-NAME>'),                # repeated single-occurrence element
    doc('<SYSTEM></SYSTEM>'),                                   # missing SHORT-NAME
    doc('<SYSTEM BLA="1"><SHORT-NAME>Sys</SHORT-NAME></SYSTEM>'),  # unknown attribute
    doc(SYS % ('<CATEGORY>' + 'C' * 300 + '</CATEGORY>')).replace('<SHORT-NAME>Sys', '<SHORT-NAME>' + 'S' * 200),  # too long
    doc('<SYSTEM><SHORT-NAME>1abc</SHORT-NAME></SYSTEM>'),      # pattern violation
    doc(SYS % '<DESC><L-2 L="EN">a &foo; b</L-2></DESC>'),      # malformed entity
    doc(SYS % '<DESC><L-2 L="XX">a</L-2></DESC>'),              # unknown enum value
    doc(SYS % '') + '<MORE/>',                                  # data after the root element
    doc(SYS % '').replace('AUTOSAR_00050.xsd', 'AUTOSAR_4-3-1.xsd'),   # wrong version label
    doc(SYS % 'stray text'),                                    # character content where forbidden
    doc(SYS % '<DESC><L-2>a</L-2></DESC>'),                     # missing required attribute
]


def fixtures(repo_dir):
    """Documents of the repository's own parser tests (working tree): (is_defect, bytes)."""
    t = open(os.path.join(repo_dir, PARSER), encoding='utf-8').read()
    i = t.find('#[cfg(test)]')
    test = t[i:] if i >= 0 else ''
    out = []
    for m in re.finditer(r'const (\w+): &str = r#"(.*?)"#;', test, re.S):
        name, body = m.group(1), m.group(2)
        defect = re.search(r'test_helper\(\s*%s\.as_bytes\(\)' % name, test) is not None
        out.append((defect, body.encode('utf-8')))
    return out


