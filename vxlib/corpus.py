"""Document corpus for the API-level (bounded) differential checks: own documents + the repository's parser test fixtures."""
import os
import re

PARSER = 'autosar-data/src/parser.rs'

HDR = ('<?xml version="1.0" encoding="utf-8"?>\n<AUTOSAR xsi:schemaLocation="http://autosar.org/schema/r4.0 AUTOSAR_%s.xsd" '
       'xmlns="http://autosar.org/schema/r4.0" xmlns:xsi="http://www.w3.org/2001/XMLSchema-instance">')


def doc(x, ver='00050'):
    return (HDR % ver) + '<AR-PACKAGES><AR-PACKAGE><SHORT-NAME>Pkg</SHORT-NAME><ELEMENTS>' + x + '</ELEMENTS></AR-PACKAGE></AR-PACKAGES></AUTOSAR>'


SYS = '<SYSTEM><SHORT-NAME>Sys</SHORT-NAME>%s</SYSTEM>'
OWN_VALID = [doc(''), doc(SYS % ''), doc(SYS % '<DESC><L-2 L="EN">a &amp; b &#65; &#x42;</L-2></DESC>'),
             doc(SYS % '<CATEGORY>CAT</CATEGORY>'), doc(SYS % '', ver='4-0-1')]
OWN_DEFECT = [
    doc('<NOT-AN-ELEMENT/>'),                                   # unknown element
    doc('<ELEMENTS/>'),                                         # known element, unknown in this context
    doc(SYS % '<SHORT-NAME>Again</SHORT-NAME>'),                # repeated single-occurrence element
    doc('<SYSTEM></SYSTEM>'),                                   # missing SHORT-NAME
    doc('<SYSTEM BLA="1"><SHORT-NAME>Sys</SHORT-NAME></SYSTEM>'),  # unknown attribute
    doc(SYS % ('<CATEGORY>' + 'C' * 300 + '</CATEGORY>')).replace('<SHORT-NAME>Sys', '<SHORT-NAME>' + 'S' * 200),  # too long
    doc('<SYSTEM><SHORT-NAME>1abc</SHORT-NAME></SYSTEM>'),      # pattern violation
    doc(SYS % '<DESC><L-2 L="EN">a &foo; b</L-2></DESC>'),      # malformed entity
] + [doc(SYS % ('<DESC><L-2 L="EN">a ' + e + ' b</L-2></DESC>')) for e in ['&#;', '&#x;', '&#1114112;', '&#xD800;', '&', '&amp', '&#65', '&#x110000;', '&#-1;', '&;']] + [
    doc(SYS % '<DESC><L-2 L="XX">a</L-2></DESC>'),              # unknown enum value
    doc(SYS % '') + '<MORE/>',                                  # data after the root element
    doc(SYS % '').replace('AUTOSAR_00050.xsd', 'AUTOSAR_4-3-1.xsd'),   # wrong version label
    doc(SYS % 'stray text'),                                    # character content where forbidden
    doc(SYS % '<DESC><L-2>a</L-2></DESC>'),                     # missing required attribute
    doc(SYS % '<CATEGORY>c</CATEGORY><SHORT-NAME>Again</SHORT-NAME>'),   # repeated single-occurrence element, not adjacent to the first occurrence
    doc(SYS % '<LONG-NAME><L-4 L="EN">a</L-4></LONG-NAME><DESC><L-2 L="EN">d</L-2></DESC><LONG-NAME><L-4 L="EN">b</L-4></LONG-NAME>'),  # idem, other context
    doc('<SYSTEM><SHORT-NAME>\x0bSys</SHORT-NAME></SYSTEM>'),    # pattern violation by a control character at the edge of the value (not XML whitespace)
    doc('<SYSTEM><SHORT-NAME>Sys\x1f</SHORT-NAME></SYSTEM>'),
    doc(SYS % '<DESC><L-2 L="\x01EN">a</L-2></DESC>'),           # unknown enum value, idem
    doc(SYS % '<DESC><L-2 L="EN\x0b">a</L-2></DESC>'),
] + [
    # unknown attributes whose names look like the known namespace / xml attributes, on several element kinds and in both quoting styles
    doc('<SYSTEM %s><SHORT-NAME>Sys</SHORT-NAME></SYSTEM>' % a) for a in ('xmlns:ext="x"', "xmlns:ext='x'", 'xsi:foo="x"', 'xml:lang="en"', 'xmlns:="x"', 'UUIDX="1"', 'S="a" xmlns:q="x"')
] + [
    doc(SYS % '<CATEGORY xmlns:ext="x">c</CATEGORY>'), doc(SYS % '<DESC><L-2 L="EN" xmlns:ext="x">a</L-2></DESC>'),
    doc(SYS % '').replace('<AR-PACKAGE>', '<AR-PACKAGE xmlns:ext="x">'),
    doc(SYS % '').replace(' xmlns:xsi=', ' xmlns:ext="x" xmlns:xsi='),
]


def header_variants():
    """Valid documents whose schema location names the xsd file oddly: multi-byte characters at every offset, case variants, very
    short and very long names (C02: no panic, error lines in range; the string layer of parse_file_header is not under contract)."""
    out = []
    base = doc(SYS % '')
    names = ['autosar_00050.xsd', 'AUTOSAR_00050.xsd', 'Autosar_00050.xsd', 'autosar', 'AUTOSAR', 'autosa', 'a', '']
    for nm in names:
        for ch in ('\u00e9', '\u20ac', '\U0001F600', '\x7f', ' '):
            for k in range(0, min(len(nm), 12) + 1):
                out.append(base.replace('AUTOSAR_00050.xsd', nm[:k] + ch + nm[k:]))
    out += [base.replace('AUTOSAR_00050.xsd', x) for x in ('', ' ', 'x' * 300, 'AUTOSAR_4-3-1.xsd', 'autosar_4-4-0.xsd', 'AUTOSAR_00050.xsd extra words here')]
    out += [base.replace('http://autosar.org/schema/r4.0 AUTOSAR', pre + ' AUTOSAR') for pre in ('', '\u00e9', 'http://autosar.org/schema/r4.0\u00e9', 'http://autosar.org/schema/r4.0 ')]
    return out


def fixtures(repo_dir):
    """Documents of the repository's own parser tests (working tree): (is_defect, bytes)."""
    t = open(os.path.join(repo_dir, PARSER), encoding='utf-8').read()
    i = t.find('#[cfg(test)]')
    test = t[i:] if i >= 0 else ''
    out = []
    for m in re.finditer(r'const (\w+): &str = r#"(.*?)"#;', test, re.S):
        name, body = m.group(1), m.group(2)
        defect = re.search(r'test_helper\(\s*%s\.as_bytes\(\)' % name, test) is not None
        out.append((defect, body.encode('utf-8')))
    return out




# documents with repeated / reorderable siblings at several nesting levels (for the API-level sort check, C14)
SDG = '<SDG GID="%s"><SD GID="v">%s</SD></SDG>'
ARG = '<ARGUMENT-DATA-PROTOTYPE><SHORT-NAME>%s</SHORT-NAME><ADMIN-DATA><SDGS>%s</SDGS></ADMIN-DATA><DIRECTION>IN</DIRECTION></ARGUMENT-DATA-PROTOTYPE>'
SORT_DOCS = [
    doc('<SYSTEM><SHORT-NAME>S</SHORT-NAME><ADMIN-DATA><SDGS><SDG GID="T"><SD GID="v">2</SD><SD GID="v">1</SD></SDG><SDG GID="T"><SD GID="v">1</SD><SD GID="v">3</SD></SDG><SDG GID="T"><SD GID="w">0</SD><SD GID="v">9</SD><SD GID="a">5</SD></SDG></SDGS></ADMIN-DATA></SYSTEM>'),
    doc(''.join('<SYSTEM><SHORT-NAME>%s</SHORT-NAME></SYSTEM>' % n for n in ('a18446744073709551616', 'a10', 'a2', 'a18446744073709551615', 'a007', 'a7'))),
    doc(SYS % '' + '<SYSTEM><SHORT-NAME>Abc</SHORT-NAME></SYSTEM><SYSTEM><SHORT-NAME>Sys10</SHORT-NAME></SYSTEM><SYSTEM><SHORT-NAME>Sys2</SHORT-NAME></SYSTEM>'),
    doc('<CLIENT-SERVER-INTERFACE><SHORT-NAME>If</SHORT-NAME><OPERATIONS><CLIENT-SERVER-OPERATION><SHORT-NAME>Op</SHORT-NAME><ARGUMENTS>'
        + ARG % ('zz', SDG % ('B', '2') + SDG % ('A', '1')) + ARG % ('aa', SDG % ('D', '2') + SDG % ('C', '1') + SDG % ('E', '0'))
        + '</ARGUMENTS></CLIENT-SERVER-OPERATION><CLIENT-SERVER-OPERATION><SHORT-NAME>Aop</SHORT-NAME></CLIENT-SERVER-OPERATION></OPERATIONS></CLIENT-SERVER-INTERFACE>'),
    doc('<ECUC-MODULE-CONFIGURATION-VALUES><SHORT-NAME>Cfg</SHORT-NAME><CONTAINERS><ECUC-CONTAINER-VALUE><SHORT-NAME>C2</SHORT-NAME><PARAMETER-VALUES>'
        '<ECUC-NUMERICAL-PARAM-VALUE><DEFINITION-REF DEST="ECUC-INTEGER-PARAM-DEF">/D/p</DEFINITION-REF><VALUE>9</VALUE></ECUC-NUMERICAL-PARAM-VALUE>'
        '<ECUC-NUMERICAL-PARAM-VALUE><DEFINITION-REF DEST="ECUC-INTEGER-PARAM-DEF">/D/p</DEFINITION-REF><VALUE>10</VALUE></ECUC-NUMERICAL-PARAM-VALUE>'
        '<ECUC-TEXTUAL-PARAM-VALUE><DEFINITION-REF DEST="ECUC-STRING-PARAM-DEF">/D/q</DEFINITION-REF><VALUE>2.5</VALUE></ECUC-TEXTUAL-PARAM-VALUE>'
        '<ECUC-NUMERICAL-PARAM-VALUE><DEFINITION-REF DEST="ECUC-INTEGER-PARAM-DEF">/D/a</DEFINITION-REF><VALUE>1</VALUE></ECUC-NUMERICAL-PARAM-VALUE>'
        '</PARAMETER-VALUES></ECUC-CONTAINER-VALUE><ECUC-CONTAINER-VALUE><SHORT-NAME>C1</SHORT-NAME></ECUC-CONTAINER-VALUE></CONTAINERS></ECUC-MODULE-CONFIGURATION-VALUES>'),
]


# documents with comments in various places (C01: comments are kept, attached to the following element)
COMMENT_DOCS = [
    doc('<!--c0--><SYSTEM><!--c1--><SHORT-NAME>Sys</SHORT-NAME><!--c2--><CATEGORY>x</CATEGORY></SYSTEM>'),
    (HDR % '00050') + '<AR-PACKAGES><AR-PACKAGE><SHORT-NAME>Pkg</SHORT-NAME><!--empty follows--><ELEMENTS/></AR-PACKAGE></AR-PACKAGES></AUTOSAR>',
    doc(SYS % '<DESC><!--c--><L-2 L="EN"/></DESC>'),
    doc(SYS % '<DESC><L-2 L="EN">a <!--inside mixed--><BR/> b</L-2></DESC>'),
    doc(SYS % '<ADMIN-DATA><!--x--><SDGS><!--y--><SDG GID="g"><!--z--><SD GID="v">1</SD></SDG></SDGS></ADMIN-DATA>'),
    '<?xml version="1.0" encoding="utf-8" standalone="no"?>\n<!--before root-->\n' + doc('').split('\n', 1)[1],
]
