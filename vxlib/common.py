"""Shared plumbing: scratch copies of /repo, exit codes, evidence, known findings."""
import json
import os
import shutil
import subprocess
import sys
import tempfile
import time

VERIF = os.path.dirname(os.path.dirname(os.path.abspath(__file__)))
REPO = os.environ.get('VX_REPO', '/repo')
SCRATCH_ROOT = os.environ.get('VX_SCRATCH_ROOT', '/var/tmp')
GUARD = 'danielt_autosar_data_verif'

EXIT_OK, EXIT_VIOLATION, EXIT_UNDECIDED = 0, 1, 2


class Undecided(Exception):
    """Tool failure, lost anchor, unsupported construct, timeout: never an alarm."""

    def __init__(self, unit, reason):
        super().__init__("%s: %s" % (unit, reason))
        self.unit = unit
        self.reason = reason


def log(*a):
    print(*a, file=sys.stderr, flush=True)


class Scratch:
    """A throw-away copy of the cargo workspace in /repo's *working tree*."""

    def __init__(self, tag='vx'):
        self.tag = tag
        self.dir = None

    def __enter__(self):
        self.dir = tempfile.mkdtemp(prefix='%s-' % self.tag, dir=SCRATCH_ROOT)
        for f in ('Cargo.toml', 'Cargo.lock'):
            shutil.copy2(os.path.join(REPO, f), os.path.join(self.dir, f))
        for d in ('autosar-data', 'autosar-data-specification'):
            shutil.copytree(os.path.join(REPO, d), os.path.join(self.dir, d),
                            ignore=shutil.ignore_patterns('target'))
        os.makedirs(os.path.join(self.dir, '.cargo'), exist_ok=True)
        with open(os.path.join(self.dir, '.cargo', 'config.toml'), 'w') as f:
            f.write('[net]\noffline = true\n')
        return self

    def path(self, *p):
        return os.path.join(self.dir, *p)

    def __exit__(self, *exc):
        if self.dir and not os.environ.get('VX_KEEP_SCRATCH'):
            shutil.rmtree(self.dir, ignore_errors=True)
        return False


def repo_rev():
    try:
        rev = subprocess.run(['git', '-C', REPO, 'rev-parse', '--short', 'HEAD'], capture_output=True, text=True).stdout.strip()
        dirty = subprocess.run(['git', '-C', REPO, 'status', '--porcelain', '--untracked-files=no'], capture_output=True, text=True).stdout.strip()
        return rev + ('+dirty' if dirty else '')
    except Exception:
        return 'unknown'


def run(cmd, cwd=None, env=None, timeout=None, stdin=None):
    t0 = time.time()
    e = dict(os.environ)
    e.setdefault('CARGO_NET_OFFLINE', 'true')
    if env:
        e.update(env)
    try:
        p = subprocess.run(cmd, cwd=cwd, env=e, capture_output=True, text=True, timeout=timeout, input=stdin, errors='replace')
        return p.returncode, p.stdout, p.stderr, time.time() - t0
    except subprocess.TimeoutExpired as ex:
        out = ex.stdout.decode('utf-8', 'replace') if isinstance(ex.stdout, bytes) else (ex.stdout or '')
        err = ex.stderr.decode('utf-8', 'replace') if isinstance(ex.stderr, bytes) else (ex.stderr or '')
        return -9, out, err, time.time() - t0


# ----------------------------------------------------------------------------------------
# known findings

def load_known():
    p = os.path.join(VERIF, 'known_findings.json')
    if not os.path.exists(p):
        return []
    return json.load(open(p))['findings']


class Obligation:
    """One proof obligation (or bounded stand-in) and what became of it."""

    def __init__(self, prop, name, backend, kind, status, seconds=0.0, detail='', bound=None, witness=None, unit=None, fn=None):
        self.prop = prop
        self.name = name            # stable identifier
        self.backend = backend      # verus | kani | native-eval | scan
        self.kind = kind            # complete | bounded | crosscheck
        self.status = status        # discharged | failed | undecided
        self.seconds = seconds
        self.detail = detail
        self.bound = bound
        self.witness = witness      # dict or None
        self.unit = unit
        self.fn = fn

    def to_json(self):
        d = dict(name=self.name, backend=self.backend, kind=self.kind, status=self.status, seconds=round(self.seconds, 3))
        if self.bound is not None:
            d['bound'] = self.bound
        if self.detail:
            d['detail'] = self.detail[:2000]
        if self.witness is not None:
            d['witness'] = self.witness
        return d


def write_replay(prop, obligation, payload):
    d = os.path.join(os.environ.get('VX_REPLAY_DIR') or os.path.join(VERIF, 'replays'), prop)
    os.makedirs(d, exist_ok=True)
    safe = ''.join(c if c.isalnum() or c in '-_.' else '_' for c in obligation)[:150]
    p = os.path.join(d, safe + '.json')
    with open(p, 'w') as f:
        json.dump(payload, f, indent=1, sort_keys=True)
    return p


def result_line(out):
    """The verdict line of a native check: the last line, or -- when a FAIL line is followed by more text (a panic message with
    line breaks) -- the FAIL line joined with what follows."""
    lines = out.strip().splitlines() or ['']
    kf = [k for k, l in enumerate(lines) if l.startswith('FAIL')]
    if kf and not lines[-1].startswith(('OK', 'SURVEY', 'FAIL')):
        return ' '.join(lines[kf[-1]:])
    return lines[-1]
