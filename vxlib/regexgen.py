"""C19 generator: reads the published regexes (specification.rs) and the validators (regex.rs)
from the working tree, compiles the reference DFAs, computes the simulation maps for the
table-driven validators and emits (a) Rust constants + Kani harnesses (b) W-method test sets."""
import json
import os
import re

from . import regexspec as rs
from .rustsrc import Source, Lost

SPEC = 'autosar-data-specification/src/specification.rs'
REGEX = 'autosar-data-specification/src/regex.rs'


def parse_pattern(pat):
    """`24..=32`, `6`, `1 | 2` -> list of (lo, hi)"""
    out = []
    for alt in pat.split('|'):
        alt = alt.strip()
        m = re.fullmatch(r'(\d+)\.\.=(\d+)', alt)
        if m:
            out.append((int(m.group(1)), int(m.group(2))))
        elif re.fullmatch(r'\d+', alt):
            out.append((int(alt), int(alt)))
        else:
            raise Lost('unsupported accept pattern %r' % pat)
    return out


def load(root):
    """-> {n: info}.  info: regex, dfa, kind, and for tables: N, table, ranges, start."""
    spec = open(os.path.join(root, SPEC), encoding='utf-8').read()
    found = re.findall(r'check_fn:\s*validate_regex_(\d+),\s*regex:\s*r"([^"]*)"', spec)
    by_n = {}
    for n, rx in found:
        by_n.setdefault(int(n), set()).add(rx)
    total_patterns = len(re.findall(r'CharacterDataSpec::Pattern\s*\{', spec))
    if total_patterns != len(found):
        raise Lost('specification.rs: %d Pattern specs but %d recognised check_fn/regex pairs' % (total_patterns, len(found)))
    src = Source(os.path.join(root, REGEX))
    infos = {}
    counts = {}
    for n, rx in found:
        counts[(int(n), rx)] = counts.get((int(n), rx), 0) + 1
    for n in sorted(by_n):
        # a validator may be referenced by several spec entries; group their regex texts by language
        texts = sorted(by_n[n], key=lambda r: (-counts[(n, r)], r))
        classes = []
        for rx in texts:
            d = rs.compile_regex(rx)
            for c in classes:
                if equivalent(c['dfa'], d) is None:
                    c['texts'].append(rx)
                    break
            else:
                classes.append(dict(regex=rx, dfa=d, texts=[rx]))
        rx = classes[0]['regex']
        info = dict(n=n, regex=rx, dfa=classes[0]['dfa'], alts=classes[1:])
        f = src.find_fn('validate_regex_%d' % n)
        body = src.text[f['open']:f['end'] + 1]
        info['line'] = f['line']
        if 'REGEX_%d_TABLE' % n in body:
            st = src.find_static('REGEX_%d_TABLE' % n)
            txt = src.text[st['start']:st['end']]
            m = re.match(r'\s*static REGEX_\d+_TABLE: \[\[u8; 256\]; (\d+)(?:usize)?\] = ', txt)
            if not m:
                raise Lost('REGEX_%d_TABLE declaration not understood' % n)
            N = int(m.group(1))
            nums = [int(x) for x in re.findall(r'\d+', txt[m.end():])]
            if len(nums) != N * 256:
                raise Lost('REGEX_%d_TABLE has %d cells, expected %d' % (n, len(nums), N * 256))
            pm = re.search(r'matches!\(state, ([^)]*)\)', body)
            sm = re.search(r'let mut state(?:\s*:\s*u8)?\s*=\s*(\d+)(?:u8)?;', body)
            if not pm or not sm:
                raise Lost('validate_regex_%d: accept pattern / initial state not found' % n)
            info.update(kind='table', N=N, table=[nums[i * 256:(i + 1) * 256] for i in range(N)], pattern=pm.group(1).strip(),
                        ranges=parse_pattern(pm.group(1)), start=int(sm.group(1)))
        else:
            info['kind'] = 'hand'
        infos[n] = info
    return infos


def table_accept(info):
    rg = info['ranges']
    return lambda q: any(lo <= q <= hi for lo, hi in rg)


def table_dfa(info):
    """The table automaton as a complete DFA (255 -> dead), minimised."""
    N = info['N']
    dead = N
    delta = []
    for q in range(N):
        delta.append([(t if t < N else dead) for t in info['table'][q]])
    delta.append([dead] * 256)
    acc = set(q for q in range(N) if table_accept(info)(q))
    return rs.minimize(rs.DFA(delta, info['start'], acc))


def snapshot_dfa(rows, start, ranges):
    """DFA of a recorded table snapshot (known_findings)."""
    info = dict(N=len(rows), table=rows, ranges=ranges, start=start)
    return table_dfa(info)


def new_witness(ref, impl, known):
    """Shortest s with impl(s) != ref(s) and known(s) == ref(s); None if there is none.
    (`known` = language recorded in a known finding; strings where known != ref are the known-bad set.)"""
    seen = {(ref.start, impl.start, known.start)}
    work = [(ref.start, impl.start, known.start, b'')]
    i = 0
    while i < len(work):
        a, b, c, w = work[i]
        i += 1
        ra, ia, ka = a in ref.accept, b in impl.accept, c in known.accept
        if ia != ra and ka == ra:
            return w
        for ch in range(256):
            k = (ref.delta[a][ch], impl.delta[b][ch], known.delta[c][ch])
            if k not in seen:
                seen.add(k)
                work.append((k[0], k[1], k[2], w + bytes([ch])))
    return None


def equivalent(a, b):
    seen = {(a.start, b.start)}
    work = [(a.start, b.start, b'')]
    i = 0
    while i < len(work):
        x, y, w = work[i]
        i += 1
        if (x in a.accept) != (y in b.accept):
            return w
        for ch in range(256):
            k = (a.delta[x][ch], b.delta[y][ch])
            if k not in seen:
                seen.add(k)
                work.append((k[0], k[1], w + bytes([ch])))
    return None


# ---------------------------------------------------------------- Rust emission
def _arr(nums, per=32):
    return ', '.join(str(x) for x in nums)


def rust_ref(n, dfa):
    """n: suffix (int or str)"""
    M = dfa.n
    if M > 250:
        raise Lost('reference DFA %d too large for u8 states' % n)
    out = ['pub const REF_N_%s: usize = %d;' % (n, M), 'pub const REF_DEAD_%s: u8 = %d;' % (n, dfa.dead),
           'pub static REF_DELTA_%s: [[u8; 256]; %d] = [' % (n, M)]
    for q in range(M):
        out.append('    [%s],' % _arr(dfa.delta[q]))
    out.append('];')
    out.append('pub static REF_ACC_%s: [bool; %d] = [%s];' % (n, M, ', '.join('true' if q in dfa.accept else 'false' for q in range(M))))
    out.append('''pub fn ref_accepts_%s(s: &[u8]) -> bool {
    let mut q: u8 = 0;
    let mut i = 0;
    while i < s.len() { q = REF_DELTA_%s[q as usize][s[i] as usize]; i += 1; }
    REF_ACC_%s[q as usize]
}''' % (n, n, n))
    return '\n'.join(out)


def rust_sim(n, info, sim, dfa):
    N = info['N']
    simarr = [sim.get(q, dfa.dead) for q in range(N)]
    reach = [q in sim for q in range(N)]
    return '\n'.join([
        'pub static SIM_%d: [u8; %d] = [%s];' % (n, N, _arr(simarr)),
        'pub static REACH_%d: [bool; %d] = [%s];' % (n, N, ', '.join('true' if r else 'false' for r in reach)),
        'pub fn acc_%d(state: u8) -> bool { matches!(state, %s) }' % (n, info['pattern']),
        'pub const START_%d: u8 = %d;' % (n, info['start']),
    ])


STEP_HARNESS = '''
/// step lemma for REGEX_%(n)d_TABLE (complete: all states x all bytes): the real table simulates the
/// reference DFA of the published regex through SIM_%(n)d; cells stay in range; accept sets correspond.
#[cfg_attr(kani, kani::proof)]
pub fn regex_step_%(n)d() {
    let q = any_u8();
    let c = any_u8();
    assume((q as usize) < REGEX_%(n)d_TABLE.len());
    assume(REACH_%(n)d[q as usize]);
    let t = REGEX_%(n)d_TABLE[q as usize][c as usize];
    assert!(t == 255 || (t as usize) < REGEX_%(n)d_TABLE.len(), "table cell out of range");
    let rq = SIM_%(n)d[q as usize];
    let rt = if t == 255 { REF_DEAD_%(r)s } else { SIM_%(n)d[t as usize] };
    assert!(t == 255 || REACH_%(n)d[t as usize], "successor of a reachable state is reachable");
    assert!(REF_DELTA_%(r)s[rq as usize][c as usize] == rt, "table transition disagrees with the regex automaton");
    assert!(acc_%(n)d(q) == REF_ACC_%(r)s[rq as usize], "accepting states disagree with the regex automaton");
    assert!(REF_DELTA_%(r)s[REF_DEAD_%(r)s as usize][c as usize] == REF_DEAD_%(r)s && !REF_ACC_%(r)s[REF_DEAD_%(r)s as usize], "reference dead state");
    assert!(SIM_%(n)d[START_%(n)d as usize] == 0 && REACH_%(n)d[START_%(n)d as usize], "initial states correspond");
    assert!(!acc_%(n)d(255), "the reject marker must not be accepting");
    cover!(t == 255, "rejecting cell");
    cover!(t != 255, "live cell");
}
'''

EQ_HARNESS = '''
#[cfg_attr(kani, kani::proof)]
#[cfg_attr(kani, kani::unwind(%(unw)d))]
pub fn regex_eq_%(n)d_len%(len)d() { let a: [u8; %(len)d] = any_bytes::<%(len)d>(); check_regex_%(n)d(&a); }
'''

CHECK_FN = '''
pub fn check_regex_%(n)d(input: &[u8]) {
    assert!(validate_regex_%(n)d(input) == ref_accepts_%(n)d(input), "validate_regex_%(n)d disagrees with its published regex");
}
'''


def generate(root, d, eq_lengths, overrides=None):
    """Write vxgen/regex_gen.rs (+ meta json).  eq_lengths: {n: [lengths]} for the equality harnesses.
    overrides: {n: DFA} -- reference for the *step lemma* of table n (language recorded in a known finding);
    check_regex_n / ref_accepts_n always use the published regex."""
    overrides = overrides or {}
    infos = load(root)
    parts = ['// GENERATED from specification.rs / regex.rs of the working tree -- reference DFAs of the published regexes']
    harn = []
    checks = []
    meta = {}
    for n, info in infos.items():
        dfa = info['dfa']
        parts.append(rust_ref(n, dfa))
        parts.append(CHECK_FN % dict(n=n))
        checks.append('regex_%d => check_regex_%d' % (n, n))
        for k, alt in enumerate(info.get('alts', [])):
            # the same validator is published with a second, different language by another spec entry
            sfx = '%d_alt%d' % (n, k)
            parts.append(rust_ref(sfx, alt['dfa']))
            parts.append('pub fn check_regex_%s(input: &[u8]) {\n    assert!(validate_regex_%d(input) == ref_accepts_%s(input), "validate_regex_%d disagrees with a regex it is published with");\n}' % (sfx, n, sfx, n))
            checks.append('regex_%s => check_regex_%s' % (sfx, sfx))
        m = dict(kind=info['kind'], regex=info['regex'], ref_states=dfa.n, line=info['line'])
        if info['kind'] == 'table':
            sdfa, r = dfa, str(n)
            if n in overrides:
                sdfa, r = overrides[n], '%d_K' % n
                parts.append(rust_ref(r, sdfa))
            w, sim = rs.product(sdfa, info['table'], table_accept(info), start=info['start'])
            m.update(N=info['N'], pattern=info['pattern'], witness=(w.hex() if w is not None else None), step_reference=('known-finding' if n in overrides else 'published'))
            if w is None:
                parts.append(rust_sim(n, info, sim, sdfa))
                parts.append(STEP_HARNESS % dict(n=n, r=r))
                harn.append('regex_step_%d' % n)
                m['sim'] = [sim.get(q) for q in range(info['N'])]
        for L in eq_lengths.get(n, []):
            parts.append(EQ_HARNESS % dict(n=n, len=L, unw=L + 3))
            harn.append('regex_eq_%d_len%d' % (n, L))
        meta[n] = m
    parts.append('vk_dispatch! {\n    harnesses: [%s];\n    checks: [%s];\n}\n' % (', '.join(harn), ', '.join(checks)))
    with open(os.path.join(d, 'regex_gen.rs'), 'w') as f:
        f.write('\n'.join(parts))
    with open(os.path.join(d, 'regex_meta.json'), 'w') as f:
        json.dump(meta, f)
    # lexical forms for the chardata harnesses of the main crate (C20): INTEGER = 13, NUMERICAL = 16, BOOLEAN = 6
    lex = []
    for tag, n, must in (('INT', 13, '0[bB]'), ('NUM', 16, 'INF'), ('BOOL', 6, 'true')):
        if n not in infos or must not in infos[n]['regex']:
            raise Lost('published pattern %d is no longer the %s lexical form' % (n, tag))
        lex.append('// %s: %s' % (tag, infos[n]['regex']))
        lex.append(rust_ref(tag, infos[n]['dfa']))
    with open(os.path.join(d, 'lexforms.rs'), 'w') as f:
        f.write('\n'.join(lex) + '\n')
    return infos, meta


# ---------------------------------------------------------------- W-method test sets
def wmethod(dfa, extra=1, cap=200000):
    """Transition cover x (alphabet^<=extra) x characterisation set, over the reduced alphabet.
    Complete for implementations with at most `extra` more states than the reference (an assumption)."""
    alpha = list(dfa.live_alphabet())
    # state cover (shortest access strings)
    access = {dfa.start: b''}
    order = [dfa.start]
    for q in order:
        for c in alpha:
            t = dfa.delta[q][c]
            if t not in access:
                access[t] = access[q] + bytes([c])
                order.append(t)
    # characterisation set: separating strings for all state pairs
    W = {b''}
    states = list(access)
    for i, a in enumerate(states):
        for b in states[i + 1:]:
            if not any((dfa.run(w, a) in dfa.accept) != (dfa.run(w, b) in dfa.accept) for w in W):
                W.add(rs._separate(dfa, a, b))
    mids = [b'']
    cur = [b'']
    for _ in range(extra + 1):
        cur = [m + bytes([c]) for m in cur for c in alpha]
        mids += cur
    tests = set()
    for q in states:
        for m in mids:
            for w in W:
                tests.add(access[q] + m + w)
                if len(tests) >= cap:
                    return sorted(tests, key=lambda s: (len(s), s))
    return sorted(tests, key=lambda s: (len(s), s))
