"""Run Kani harnesses that live in /verif/harness against a scratch copy of /repo.

The harness files are attached as *child modules* of the real source files by appending
one `mod` line to the scratch copy (never to /repo), so they see private items and the
verified text is the working tree's text.
"""
import os
import re
import json

from .common import Undecided, run, log, VERIF, GUARD

# real source file (relative to workspace) -> harness file in /verif/harness
ATTACH = {
    'autosar-data/src/parser.rs': 'parser_h.rs',
    'autosar-data/src/lexer.rs': 'lexer_h.rs',
    'autosar-data/src/chardata.rs': 'chardata_h.rs',
    'autosar-data/src/lib.rs': 'lib_h.rs',
    'autosar-data/src/element.rs': 'element_h.rs',
    'autosar-data-specification/src/regex.rs': 'regex_h.rs',
    'autosar-data-specification/src/lib.rs': 'speclib_h.rs',
    'autosar-data-specification/src/autosarversion.rs': 'version_h.rs',
    'autosar-data-specification/src/attributename.rs': 'attrname_h.rs',
    'autosar-data-specification/src/elementname.rs': 'elementname_h.rs',
    'autosar-data-specification/src/enumitem.rs': 'enumitem_h.rs',
}

PKG_OF = {'autosar-data': 'autosar-data', 'autosar-data-specification': 'autosar-data-specification'}


def attach(scratch, files=None, harness_dir=None):
    """Append the harness mod lines to the scratch copy.  Returns list of attached files."""
    harness_dir = harness_dir or os.path.join(VERIF, 'harness')
    done = []
    for rel, h in ATTACH.items():
        if files is not None and rel not in files:
            continue
        hp = os.path.join(harness_dir, h)
        if not os.path.exists(hp):
            continue
        p = scratch.path(rel)
        if not os.path.exists(p):
            raise Undecided('attach', 'source file %s missing' % rel)
        with open(p, 'a') as f:
            f.write('\n// @vx-attach-begin\n#[cfg(any(kani, %s))]\n#[path = "%s"]\npub mod verif_h;\n// @vx-attach-end\n' % (GUARD, hp))
        done.append(rel)
    return done


def gen_dir(scratch):
    """Files generated mechanically from the working tree and include!d by harness files."""
    d = scratch.path('vxgen')
    if not os.path.isdir(d):
        os.makedirs(d)
        from . import gen
        gen.generate(scratch, d)
    return d


class KaniResult:
    def __init__(self, harness):
        self.harness = harness
        self.status = 'missing'   # success | failed | timeout | error | missing
        self.failed_checks = []   # [(description, location)]
        self.covers = None        # (satisfied, total)
        self.seconds = 0.0
        self.raw = ''
        self.nchecks = 0


def _parse_block(res, block):
    res.raw = block
    m = re.search(r'\*\* (\d+) of (\d+) failed', block)
    if m:
        res.nchecks = int(m.group(2))
    m = re.search(r'\*\* (\d+) of (\d+) cover properties satisfied', block)
    if m:
        res.covers = (int(m.group(1)), int(m.group(2)))
    m = re.search(r'Verification Time: ([0-9.]+)s', block)
    if m:
        res.seconds = float(m.group(1))
    fc = re.findall(r'Failed Checks: (.*)\n\s*File: "([^"]*)", line (\d+), in (\S+)', block)
    res.failed_checks = [(d.strip(), '%s:%s in %s' % (f, l, fn)) for d, f, l, fn in fc]
    for d in re.findall(r'Failed Checks: (.*)\n(?!\s*File:)', block):
        res.failed_checks.append((d.strip(), ''))
    if 'VERIFICATION:- SUCCESSFUL' in block:
        res.status = 'success'
    elif 'VERIFICATION:- FAILED' in block:
        res.status = 'failed'
        if 'CBMC timed out' in block or 'timed out' in block.lower():
            res.status = 'timeout'
        if re.search(r'unsupported|not currently supported by Kani', ' '.join(d for d, _ in res.failed_checks), re.I):
            res.status = 'error'
        if res.failed_checks and all('unwinding assertion' in d for d, _ in res.failed_checks):
            res.status = 'error'   # harness bound too small: a tool problem, never an alarm
        if not res.failed_checks:
            res.status = 'error'   # FAILED without a failed property (solver crash / resource limit)
    elif 'TIMEOUT' in block or 'timed out' in block:
        res.status = 'timeout'
    else:
        res.status = 'error'


def parse_parallel_output(out, harnesses):
    """Parse `cargo kani -j N --output-format terse` output into {harness: KaniResult}."""
    results = {h: KaniResult(h) for h in harnesses}
    cur = {}      # thread -> harness short name
    # split into thread-tagged chunks
    chunks = re.split(r'^Thread (\d+): ?', out, flags=re.M)
    # chunks = [pre, tid, text, tid, text ...]
    i = 1
    while i + 1 < len(chunks):
        tid, text = chunks[i], chunks[i + 1]
        i += 2
        m = re.match(r'Checking harness (\S+?)\.\.\.', text)
        if m:
            cur[tid] = m.group(1).split('::')[-1]
            continue
        h = cur.get(tid)
        if h in results and ('VERIFICATION' in text or 'timed out' in text.lower()):
            _parse_block(results[h], text)
    # sequential output (no Thread tags)
    if len(chunks) == 1:
        for m in re.finditer(r'Checking harness (\S+?)\.\.\.(.*?)(?=Checking harness |\Z)', out, re.S):
            h = m.group(1).split('::')[-1]
            if h in results:
                _parse_block(results[h], m.group(2))
    # timeouts are reported in the summary
    for m in re.finditer(r'(?:timed out|Timeout)[^\n]*?(\w+)\s*$', out, re.M):
        pass
    return results


def run_harnesses(scratch, package, harnesses, jobs=14, timeout_s=300, extra=()):
    """One cargo-kani invocation for all `harnesses` of `package`."""
    cwd = scratch.path(package)
    cmd = ['cargo', 'kani', '-Z', 'stubbing', '-Z', 'unstable-options', '-Z', 'function-contracts',
           '--output-format', 'terse', '--harness-timeout', '%ds' % timeout_s]
    if jobs > 1:
        cmd += ['-j', str(jobs), '--output-into-files']
    cmd += list(extra)
    for h in harnesses:
        cmd += ['--exact', '--harness', h] if False else ['--harness', h]
    total_to = 180 + timeout_s * (1 + len(harnesses) // max(1, jobs)) + 600
    rc, out, err, secs = run(cmd, cwd=cwd, timeout=total_to, env={'VX_GEN_DIR': gen_dir(scratch)})
    text = out + '\n' + err
    if rc == -9:
        raise Undecided('kani:%s' % package, 'cargo kani exceeded %ds' % total_to)
    if 'error: could not compile' in text or 'internal compiler error' in text or re.search(r'^error(\[E\d+\])?:', err, re.M) and 'VERIFICATION' not in out:
        raise Undecided('kani:%s' % package, 'build failed: ' + _first_errors(text))
    results = parse_parallel_output(out, harnesses)
    # harnesses that were selected by substring match but not in our list are ignored;
    # a harness of ours that produced no block is a tool failure
    for h, r in results.items():
        if r.status == 'missing':
            if re.search(r'%s.*(timed out|timeout)' % re.escape(h), text, re.I):
                r.status = 'timeout'
    return results, secs, text


def _first_errors(text, n=3):
    errs = re.findall(r'^(error.*(?:\n\s+-->.*)?)', text, re.M)
    return ' | '.join(e.replace('\n', ' ') for e in errs[:n])[:1500]


def playback(scratch, package, harness, timeout_s=600):
    """Re-run one failing harness with concrete playback; return list of
    dict(check=..., kind=..., vals=[[bytes]..])."""
    cwd = scratch.path(package)
    cmd = ['cargo', 'kani', '-Z', 'stubbing', '-Z', 'unstable-options', '-Z', 'function-contracts', '-Z', 'concrete-playback',
           '--concrete-playback=print', '--output-format', 'terse', '--harness-timeout', '%ds' % timeout_s, '--harness', harness]
    rc, out, err, secs = run(cmd, cwd=cwd, timeout=timeout_s + 300, env={'VX_GEN_DIR': gen_dir(scratch)})
    tests = []
    for m in re.finditer(r'Concrete playback unit test for `([^`]*)`:\n```\n(.*?)```', out, re.S):
        if m.group(1).split('::')[-1] != harness:
            continue
        body = m.group(2)
        cm = re.search(r'/// Check for `(\w+)`: "(.*)"', body)
        kind, desc = (cm.group(1), cm.group(2)) if cm else ('?', '?')
        vals = []
        for vm in re.finditer(r'vec!\[([0-9,\s]*)\],', body):
            s = vm.group(1).strip()
            vals.append([int(x) for x in s.split(',') if x.strip()] if s else [])
        tests.append(dict(kind=kind, check=desc, vals=vals))
    return tests


# ----------------------------------------------------------------------------------------
# native replay build

NATIVE_MAIN = r'''
use std::panic;
use std::sync::Mutex;
static LAST: Mutex<Option<String>> = Mutex::new(None);

fn parse_vals(s: &str) -> Vec<Vec<u8>> {
    // "09,0a;ff" : values separated by ';', bytes in hex separated by ','
    if s.is_empty() { return vec![]; }
    s.split(';').map(|v| v.split(',').filter(|b| !b.is_empty()).map(|b| u8::from_str_radix(b, 16).unwrap()).collect()).collect()
}

fn main() {
    let args: Vec<String> = std::env::args().collect();
    panic::set_hook(Box::new(|info| {
        let msg = if let Some(s) = info.payload().downcast_ref::<&str>() { s.to_string() }
            else if let Some(s) = info.payload().downcast_ref::<String>() { s.clone() }
            else { "<non-string panic payload>".to_string() };
        let loc = info.location().map(|l| format!("{}:{}", l.file(), l.line())).unwrap_or_default();
        *LAST.lock().unwrap() = Some(format!("{} @ {}", msg, loc));
    }));
    match args[1].as_str() {
        "replay" => {
            // replay <module> <harness> <vals>
            let vals = parse_vals(args.get(4).map(|s| s.as_str()).unwrap_or(""));
            let module = args[2].clone(); let name = args[3].clone();
            let r = panic::catch_unwind(move || vx_entry::run(&module, &name, vals));
            match r {
                Ok(true) => println!("{{\"outcome\":\"ok\"}}"),
                Ok(false) => { println!("{{\"outcome\":\"unknown-harness\"}}"); std::process::exit(3) }
                Err(_) => {
                    let m = LAST.lock().unwrap().take().unwrap_or_default();
                    println!("{{\"outcome\":\"panic\",\"message\":{:?}}}", m);
                }
            }
        }
        other => { vx_entry::command(other, &args[2..]); }
    }
}
'''


def _strip_block(path, begin, end):
    t = open(path).read()
    while begin in t:
        a = t.index(begin)
        b = t.index(end, a) + len(end)
        t = t[:a] + t[b:]
    open(path, 'w').write(t)


def build_native(scratch, extra_main=None, features=()):
    """Build the native binary; when a harness file no longer compiles against the working tree (e.g. the signature of a
    function it calls was changed), detach that harness and build without it -- the checks that need it become UNDECIDED,
    the others (API-level checks in particular) still run.  Detached harnesses are recorded in scratch.detached."""
    scratch.detached = getattr(scratch, 'detached', [])
    for attempt in range(4):
        try:
            return _build_native(scratch, extra_main, features)
        except Undecided as e:
            bad = sorted(set(re.findall(r'/harness/(\w+_h\.rs)', e.reason)))
            rel = [r for r, h in ATTACH.items() if h in bad and r not in scratch.detached]
            if not rel:
                raise
            for r in rel:
                _strip_block(scratch.path(r), '// @vx-attach-begin', '// @vx-attach-end')
                scratch.detached.append(r)
            for crate in ('autosar-data', 'autosar-data-specification'):
                _strip_block(scratch.path(crate, 'src', 'lib.rs'), '// @vx-entry-begin', '// @vx-entry-end')
            ws = scratch.path('Cargo.toml')
            wt = open(ws).read().replace('\n    "vxnative",', '')
            wt = wt.split('\n[profile.release]')[0]
            open(ws, 'w').write(wt)
    raise Undecided('native', 'native replay build failed repeatedly')


def _build_native(scratch, extra_main=None, features=()):
    """Create a workspace member `vxnative` in the scratch copy and build it with the guard cfg.
    Returns path of the binary."""
    d = scratch.path('vxnative')
    os.makedirs(os.path.join(d, 'src'), exist_ok=True)
    with open(os.path.join(d, 'Cargo.toml'), 'w') as f:
        f.write('[package]\nname = "vxnative"\nversion = "0.0.0"\nedition = "2021"\n\n[dependencies]\n'
                'autosar-data = { path = "../autosar-data" }\nautosar-data-specification = { path = "../autosar-data-specification" }\n'
                )
    entry = open(os.path.join(VERIF, 'native', 'entry.rs')).read() + '\n' + open(os.path.join(VERIF, 'native', 'editconform.rs')).read() + '\n' + open(os.path.join(VERIF, 'native', 'dupes.rs')).read() + '\n' + open(os.path.join(VERIF, 'native', 'copycheck.rs')).read() + '\n' + open(os.path.join(VERIF, 'native', 'sortperm.rs')).read() + '\n' + open(os.path.join(VERIF, 'native', 'copycross.rs')).read() + '\n' + open(os.path.join(VERIF, 'native', 'whitespace.rs')).read() + '\n' + open(os.path.join(VERIF, 'native', 'rawtexts.rs')).read()
    with open(os.path.join(d, 'src', 'main.rs'), 'w') as f:
        f.write(NATIVE_MAIN + '\nmod vx_entry {\n' + entry + '\n}\n')
    ws = scratch.path('Cargo.toml')
    t = open(ws).read()
    t = t.replace('members = [', 'members = [\n    "vxnative",', 1)
    t += '\n[profile.release]\nopt-level = 2\ndebug-assertions = true\noverflow-checks = true\n'
    open(ws, 'w').write(t)
    # pub re-exports so the binary can reach the child modules
    for crate, mods in (('autosar-data', ['parser', 'lexer', 'chardata', 'element']),
                        ('autosar-data-specification', ['regex', 'autosarversion', 'attributename', 'elementname', 'enumitem'])):
        p = scratch.path(crate, 'src', 'lib.rs')
        lib = open(p).read()
        lines = ['\n// @vx-entry-begin\n#[cfg(%s)]\n#[doc(hidden)]\npub mod verif_entry {' % GUARD, '    extern crate std; use std::vec::Vec;',
                 '    pub fn run(module: &str, name: &str, vals: Vec<Vec<u8>>) -> Option<bool> {', '        match module {']
        have = []
        for mname in mods:
            src = scratch.path(crate, 'src', mname + '.rs')
            if os.path.exists(src) and 'pub mod verif_h;' in open(src).read():
                lines.append('            "%s" => Some(crate::%s::verif_h::run(name, vals)),' % (mname, mname))
                have.append(mname)
        if 'pub mod verif_h;' in lib:
            lines.append('            "lib" => Some(crate::verif_h::run(name, vals)),')
        lines += ['            _ => None,', '        }', '    }']
        lines += ['    pub fn check(module: &str, name: &str, input: &[u8]) -> Option<bool> {', '        match module {']
        for mname in have:
            lines.append('            "%s" => Some(crate::%s::verif_h::check_bytes(name, input)),' % (mname, mname))
        if 'pub mod verif_h;' in lib:
            lines.append('            "lib" => Some(crate::verif_h::check_bytes(name, input)),')
        lines += ['            _ => None,', '        }', '    }']
        lines += ['    pub fn ground(module: &str, which: &str) -> Option<std::string::String> {', '        match module {']
        for mname in have:
            hfile = ATTACH.get('%s/src/%s.rs' % (crate, mname))
            if hfile and re.search(r'pub fn ground\(|vk_ground_names!', open(os.path.join(VERIF, 'harness', hfile)).read()):
                lines.append('            "%s" => crate::%s::verif_h::ground(which),' % (mname, mname))
        hfile = ATTACH.get('%s/src/lib.rs' % crate)
        if 'pub mod verif_h;' in lib and hfile and re.search(r'pub fn ground\(|vk_ground_names!', open(os.path.join(VERIF, 'harness', hfile)).read()):
            lines.append('            "lib" => crate::verif_h::ground(which),')
        lines += ['            _ => None,', '        }', '    }', '}', '// @vx-entry-end']
        with open(p, 'a') as f:
            f.write('\n'.join(lines) + '\n')
    env = {'RUSTFLAGS': '--cfg %s -A unexpected_cfgs -A unused' % GUARD, 'CARGO_TARGET_DIR': scratch.path('target-native'), 'VX_GEN_DIR': gen_dir(scratch)}
    rc, out, err, secs = run(['cargo', 'build', '--release', '--offline', '-p', 'vxnative'], cwd=scratch.dir, env=env, timeout=1200)
    if rc != 0:
        raise Undecided('native', 'native replay build failed: ' + _first_errors(err))
    return scratch.path('target-native', 'release', 'vxnative'), secs


def vals_to_arg(vals):
    return ';'.join(','.join('%02x' % b for b in v) for v in vals)


def native_replay(binary, module, harness, vals, timeout=60):
    rc, out, err, secs = run([binary, 'replay', module, harness, vals_to_arg(vals)], timeout=timeout)
    try:
        return json.loads(out.strip().splitlines()[-1])
    except Exception:
        return dict(outcome='crash', rc=rc, stderr=err[-500:])
