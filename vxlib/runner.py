"""Per-property check context: collects obligations from the back ends, turns failures
into replayable violations, matches known findings, writes evidence, sets the exit code."""
import json
import os
import re
import sys
import time

from . import verusunit as vu
from . import kani as kn
from .common import result_line
from .common import (Scratch, Undecided, Obligation, VERIF, REPO, load_known, write_replay, log, run,
                     EXIT_OK, EXIT_VIOLATION, EXIT_UNDECIDED, repo_rev)
from .rustsrc import Lost

PRELUDE = open(os.path.join(VERIF, 'contracts', 'prelude.rs')).read()

ASSUME_PATTERNS = [r'\bassume\s*\(', r'\badmit\s*\(', r'external_body', r'assume_specification', r'kani::assume', r'kani::stub', r'#\[verifier::external', r'\bvk::assume\b|\bassume\(']


class Ctx:
    def __init__(self, prop, tier, level, seed=0):
        self.prop = prop
        self.tier = tier
        self.level = level
        self.seed = seed
        self.t0 = time.time()
        self.obligations = []
        self.functions = []          # functions under contract (file::fn)
        self.trusted = []
        self.assumptions = []
        self.notes = []
        self.extraction = []
        self.samples = []
        self.violations = []         # (obligation, replay path, suffix)
        self.known_hits = []
        self.undecided = []
        self.scratch = None
        self._native = None
        self._attached = False
        self.known = [k for k in load_known() if k.get('property') == prop]
        self.backends_s = {}
        self.extra_cov = {}

    # ------------------------------------------------------------------ infrastructure
    def open(self):
        self.scratch = Scratch('vx-%s' % self.prop)
        self.scratch.__enter__()
        return self

    def close(self):
        if self.scratch:
            self.scratch.__exit__(None, None, None)

    def attach(self):
        if not self._attached:
            kn.attach(self.scratch)
            self._attached = True

    def native(self):
        if self._native is None:
            self.attach()
            self._native, secs = kn.build_native(self.scratch)
            self.backends_s['native-build'] = self.backends_s.get('native-build', 0) + secs
            for rel in getattr(self.scratch, 'detached', []):
                self.undecided.append('native harness for %s no longer compiles against the working tree and was detached (its checks are undecided)' % rel)
        return self._native

    def add(self, ob):
        self.obligations.append(ob)
        return ob

    def t(self, backend, secs):
        self.backends_s[backend] = self.backends_s.get(backend, 0) + secs

    # ------------------------------------------------------------------ Verus
    def verus_unit(self, unit, finder=None, negctl=True):
        """Run one Verus unit; a tool failure / lost anchor makes the unit UNDECIDED but does not stop
        the remaining checks of the property (they may still find a violation)."""
        try:
            return self._verus_unit(unit, finder, negctl)
        except (Undecided, Lost) as e:
            self.undecided.append('%s reason=%s' % (getattr(e, 'unit', unit.name), getattr(e, 'reason', str(e))))
            self.add(Obligation(self.prop, '%s/*' % unit.name, 'verus', 'complete', 'undecided', detail=str(e)))
            return None

    def _verus_unit(self, unit, finder=None, negctl=True):
        """Every spliced clause + every function body is an obligation."""
        unit.prelude = PRELUDE if not getattr(unit, 'own_prelude', False) else unit.prelude
        try:
            text, meta = vu.build_unit(unit, self.scratch.dir)
        except Lost as e:
            raise Undecided(unit.name, 'lost anchor: %s' % e)
        gen_dir = self.scratch.path('verus')
        os.makedirs(gen_dir, exist_ok=True)
        path = os.path.join(gen_dir, unit.name + '.rs')
        open(path, 'w').write(text)
        keep = os.path.join(VERIF, 'generated')
        os.makedirs(keep, exist_ok=True)
        open(os.path.join(keep, unit.name + '.rs'), 'w').write(text)
        res = vu.run_verus(unit.name, path, rlimit=unit.rlimit)
        self.t('verus', res['seconds'])
        fails, per_fn, smt = vu.interpret(unit, meta, text, res)
        self.t('verus-smt', smt)
        for f in fails:
            if 'vx_probe_eq(' in f['where'] and 'precondition' in f['msg']:
                raise Undecided(unit.name, 'executable ==/!= without a specification in Verus (String, Vec, slice, Ordering ...): %s' % f['where'][:200])
        for f in fails:
            if f['cls'] != 'semantic':
                raise Undecided(unit.name, 'verus %s error: %s @ %s' % (f['cls'], f['msg'][:300], f['where'][:200]))
        vr = (res['json'] or {}).get('verification-results', {})
        if res['json'] is None or (not vr.get('success') and not fails):
            raise Undecided(unit.name, 'verus produced no usable result: ' + res['stderr'][-800:])
        for name, fm in meta['fns'].items():
            self.functions.append('%s::%s' % (fm['file'], name))
            short = fm.get('fn') or name.split('#')[0]
            if short not in per_fn:
                raise Undecided(unit.name, 'function %s not reported by verus (vacuous?)' % name)
        for fn, r, n in meta['rules']:
            self.extraction.append('%s: rule %s applied %dx' % (fn, r, n))
        for d in unit.dropped:
            self.extraction.append('%s: %s' % (unit.name, d))
        # obligations: one per contract clause, one "body" obligation per function (panic freedom:
        # bounds, overflow, callee preconditions, termination where a decreases is given)
        failed_by_fn = {}
        for f in fails:
            failed_by_fn.setdefault(f['fn'], []).append(f)
        names = []
        for name, fm in meta['fns'].items():
            fl = failed_by_fn.get(name, [])
            clause_fail = set()
            body_fail = []
            for f in fl:
                hit = False
                for tg in ([f['where']] if f['where'] and not f['where'].startswith('code:') else []) + f['tags']:
                    if tg.startswith(name.split('#')[0] + ':'):
                        clause_fail.add(tg)
                        hit = True
                if not hit or f['where'].startswith('code:'):
                    body_fail.append(f)
            for cl in [c for c in meta['clauses'] if c.startswith(name.split('#')[0] + ':')]:
                st = 'failed' if cl in clause_fail else 'discharged'
                det = ''
                if st == 'failed':
                    det = '\n'.join(f['rendered'] for f in fl if cl in f['tags'] or f['where'] == cl)
                self.add(Obligation(self.prop, '%s/%s' % (unit.name, cl), 'verus', 'complete', st, detail=det, unit=unit, fn=name))
                names.append('%s/%s' % (unit.name, cl))
            if body_fail:
                for f in body_fail:
                    self.add(Obligation(self.prop, vu.obligation_name(unit, f), 'verus', 'complete', 'failed', detail=f['rendered'], unit=unit, fn=name))
            else:
                ok = per_fn.get(fm.get('fn') or name.split('#')[0], False) or not fl
                self.add(Obligation(self.prop, '%s/%s:body(panic-freedom,callee-preconditions)' % (unit.name, name), 'verus', 'complete',
                                    'discharged' if ok and not fl else ('failed' if not fl else 'discharged'), fn=name, unit=unit))
        # failures in prelude / spec lemmas (not in any extracted fn): a *property lemma* (states the property over the
        # contracts / over the spec twin of the real code) that fails is a violation; any other library lemma is a tool problem
        plem = getattr(unit, 'property_lemmas', {}) or {}
        failed_lemmas = {}
        for f in failed_by_fn.get(None, []):
            if f.get('lemma') in plem:
                failed_lemmas.setdefault(f['lemma'], []).append(f)
            else:
                raise Undecided(unit.name, 'proof-library obligation failed (not about /repo code): %s [%s]' % (f['msg'], f.get('lemma')))
        for lname, desc in plem.items():
            if lname in failed_lemmas:
                self.add(Obligation(self.prop, '%s/lemma:%s' % (unit.name, lname), 'verus', 'complete', 'failed', unit=unit, fn=lname,
                                    detail=desc + '\n' + '\n'.join(f['rendered'] for f in failed_lemmas[lname])))
            elif per_fn.get(lname):
                self.add(Obligation(self.prop, '%s/lemma:%s' % (unit.name, lname), 'verus', 'complete', 'discharged', unit=unit, fn=lname, detail=desc))
            else:
                raise Undecided(unit.name, 'property lemma %s not reported by verus' % lname)
        self.samples += names[:3]
        # --- vacuity: negative control
        if negctl:
            ntext, nmeta = vu.build_unit(unit, self.scratch.dir, negctl=True)
            npath = os.path.join(gen_dir, unit.name + '_negctl.rs')
            open(npath, 'w').write(ntext)
            nres = vu.run_verus(unit.name + '_negctl', npath, rlimit=unit.rlimit)
            self.t('verus', nres['seconds'])
            nfails, _, _ = vu.interpret(unit, nmeta, ntext, nres)
            hit = set()
            for f in nfails:
                for tg in [f['where']] + f['tags']:
                    if tg.endswith('negctl'):
                        hit.add(tg)
            want = set()
            for ln in ntext.split('\n'):
                if vu.TAG in ln and ln.strip().endswith('negctl'):
                    want.add(ln.split(vu.TAG, 1)[1].strip())
            missing = sorted(want - hit)
            # a planted `assert(false)` in a loop that is only reached after an earlier planted failure in
            # the same function may be masked; accept if the function-level one fired
            real_missing = []
            for m in missing:
                fn = m.split(':')[0]
                if not any(h.split(':')[0] == fn for h in hit):
                    real_missing.append(m)
            if real_missing and not any(o.status == 'failed' for o in self.obligations if o.unit is unit):
                raise Undecided(unit.name, 'vacuity control: planted falsehood verified at %s' % real_missing)
            self.extra_cov.setdefault('negative_controls', []).append(dict(unit=unit.name, planted=len(want), refuted=len(want & hit), masked=len(missing) - len(real_missing)))
        # assumption scan
        tlines = text.split('\n')
        for pat in ASSUME_PATTERNS[:5]:
            for m in re.finditer(pat, text):
                ln = text.count('\n', 0, m.start())
                line = tlines[ln].strip()
                if 'external_body' in line and not re.search(r'\bfn\b', line):
                    # name the function (and its assumed postcondition) the attribute is attached to
                    nxt = ' '.join(x.strip() for x in tlines[ln + 1:ln + 4])
                    mm = re.search(r'((?:pub\s+)?(?:const\s+|proof\s+)?fn\s+\w+[^{]*)', nxt)
                    prev = tlines[ln - 1].strip() if ln > 0 else ''
                    pm = re.match(r'// contract proved on the real text in unit (.+)$', prev)
                    kind = ('leaf, contract proved on the real text in unit %s' % pm.group(1)) if pm else 'external_body (assumed contract)'
                    line = kind + ': ' + (mm.group(1).strip() if mm else nxt)[:220]
                self.assumptions.append('verus unit %s: %s' % (unit.name, line[:260]))
        self.assumptions = sorted(set(self.assumptions))
        # witnesses for failures
        for ob in [o for o in self.obligations if o.unit is unit and o.status == 'failed']:
            self._violation_from_verus(ob, finder)
        return meta

    def _violation_from_verus(self, ob, finder):
        wit = None
        if callable(finder):
            finder = finder(ob)
        if finder and isinstance(finder, dict) and finder.get('ground'):
            b = self.native()
            module, which = finder['ground']
            rc, out, err, secs = run([b, 'ground', module, which], timeout=600)
            self.t('native-finder', secs)
            line = result_line(out)
            if line.startswith('FAIL'):
                wit = dict(instance=line[5:], observed=line, via='native evaluation %s/%s' % (module, which), replay=['ground', module, which])
            finder = None
        if finder:
            b = self.native()
            finders = finder if isinstance(finder, list) else [finder]
            want = self._real_location(ob)
            attempts = [(fd, want) for fd in finders] if want else []
            attempts += [(fd, '') for fd in finders]
            for fd, wnt in attempts:
                rc, out, err, secs = run([b, 'find', fd['module'], fd['check'], fd['alphabet'].hex(), str(fd['maxlen']), fd.get('prefix', b'').hex(), wnt], timeout=fd.get('timeout', 300))
                self.t('native-finder', secs)
                try:
                    js = json.loads(out.strip().splitlines()[-1])
                except Exception:
                    js = {'found': False, 'error': (out + err)[-300:]}
                if js.get('found'):
                    inp = bytes.fromhex(js['input'])
                    wit = dict(input_hex=js['input'], input_text=inp.decode('utf-8', 'replace'), observed=js.get('message'), via='native witness finder: %s/%s over alphabet %r up to length %d' % (fd['module'], fd['check'], fd['alphabet'], fd['maxlen']),
                               replay=['one', fd['module'], fd['check'], js['input']])
                    break
        ob.witness = wit
        self._record_violation(ob)

    # ------------------------------------------------------------------ native closed-instance evaluation
    def native_ground(self, module, which, kind, desc):
        """Evaluate every closed (quantifier-free) instance of a finite statement on the real compiled code."""
        b = self.native()
        rc, out, err, secs = run([b, 'ground', module, which], timeout=900)
        self.t('native-ground', secs)
        line = result_line(out)
        name = 'ground/%s::%s' % (module, which)
        if line.startswith('OK'):
            n = int(line.split()[1])
            self.add(Obligation(self.prop, name, 'native-eval', kind, 'discharged', seconds=secs, detail='%s [%s closed instances: %s]' % (desc, n, line[3:]),
                                bound=None if kind == 'complete' else 'sampled neighbours'))
            self.extra_cov['ground_instances'] = self.extra_cov.get('ground_instances', 0) + n
            self.samples.append('%s: %s' % (name, line))
        elif line.startswith('FAIL'):
            ob = self.add(Obligation(self.prop, name, 'native-eval', kind, 'failed', seconds=secs, detail=desc + ' :: ' + line))
            ob.witness = dict(instance=line[5:], observed=line, via='exhaustive evaluation of closed instances on the real code', replay=['ground', module, which])
            self._record_violation(ob)
        else:
            ob = self.add(Obligation(self.prop, name, 'native-eval', kind, 'failed' if rc not in (0, 3) else 'undecided', seconds=secs, detail='%s :: rc=%s %s %s' % (desc, rc, line, err[-400:])))
            if rc not in (0, 3):
                # the evaluation itself panicked/crashed on a listed input
                ob.witness = dict(instance='(crash)', observed=(err or line)[-600:], via='exhaustive evaluation of closed instances on the real code', replay=['ground', module, which])
                self._record_violation(ob)
            else:
                self.undecided.append('%s: no result' % name)

    def _real_location(self, ob):
        """'file.rs:LINE' of the real statement a Verus body obligation points at (or '')."""
        m = re.search(r'/code: (.*)$', ob.name)
        if not m or ob.unit is None:
            return ''
        code = m.group(1).strip()
        for fs in ob.unit.fns:
            if fs.label != (ob.fn or '').split('#')[0]:
                continue
            try:
                lines = open(self.scratch.path(fs.file), encoding='utf-8').read().split('\n')
            except Exception:
                return ''
            hits = [i + 1 for i, ln in enumerate(lines) if ' '.join(ln.split()) == code]
            if len(hits) == 1:
                return '%s:%d' % (fs.file, hits[0])
        return ''

    # ------------------------------------------------------------------ native bounded cross-check
    def native_enum(self, name, fd, desc):
        """Exhaustive enumeration of short inputs on the real code against an executable contract.
        Reported as a *bounded* check (never counted as proved)."""
        b = self.native()
        rc, out, err, secs = run([b, 'find', fd['module'], fd['check'], fd['alphabet'].hex(), str(fd['maxlen']), fd.get('prefix', b'').hex()], timeout=fd.get('timeout', 900))
        self.t('native-enum', secs)
        try:
            js = json.loads(out.strip().splitlines()[-1])
        except Exception:
            self.undecided.append('native-enum %s: no result (%s)' % (name, (out + err)[-200:]))
            return
        bound = 'all strings %r + up to %d symbols over %r' % (fd.get('prefix', b''), fd['maxlen'], fd['alphabet'])
        if js.get('found'):
            inp = bytes.fromhex(js['input'])
            ob = self.add(Obligation(self.prop, 'native/%s' % name, 'native-eval', 'bounded', 'failed', seconds=secs, bound=bound, detail=desc + ' FAILED: ' + str(js.get('message'))))
            ob.witness = dict(input_hex=js['input'], input_text=inp.decode('utf-8', 'replace'), observed=js.get('message'), via='native exhaustive enumeration', replay=['one', fd['module'], fd['check'], js['input']])
            self._record_violation(ob)
        elif 'tried' in js:
            self.add(Obligation(self.prop, 'native/%s' % name, 'native-eval', 'bounded', 'discharged', seconds=secs, bound=bound, detail=desc + ' [%d inputs]' % js['tried']))
        else:
            self.undecided.append('native-enum %s: %s' % (name, js))

    # ------------------------------------------------------------------ Kani
    def kani(self, package, specs, jobs=14):
        """specs: list of dict(name, module, kind ('complete'|'bounded'), bound=str, timeout=s, desc=str)."""
        if not specs:
            return
        try:
            self._kani(package, specs, jobs)
        except Undecided as e:
            self.undecided.append('%s reason=%s' % (e.unit, e.reason))
            for s in specs:
                self.add(Obligation(self.prop, 'kani/%s::%s' % (s['module'], s['name']), 'kani', s['kind'], 'undecided', detail=e.reason[:300]))

    def _kani(self, package, specs, jobs=14):
        self.attach()
        by_to = {}
        seen_fail = {}
        for s in specs:
            by_to.setdefault(s.get('timeout', 300), []).append(s)
        for to, group in sorted(by_to.items()):
            names = [s['name'] for s in group]
            results, secs, raw = kn.run_harnesses(self.scratch, package, names, jobs=jobs, timeout_s=to)
            self.t('kani-wall', secs)
            for s in group:
                r = results[s['name']]
                self.t('kani-cbmc', r.seconds)
                name = 'kani/%s::%s' % (s['module'], s['name'])
                if r.status == 'success':
                    if r.covers and r.covers[0] != r.covers[1] and not s.get('covers_optional'):
                        self.undecided.append('%s: only %d of %d cover properties satisfied (vacuity control)' % (name, r.covers[0], r.covers[1]))
                        st = 'undecided'
                    else:
                        st = 'discharged'
                    self.add(Obligation(self.prop, name, 'kani', s['kind'], st, seconds=r.seconds, bound=s.get('bound'), detail=s.get('desc', '') + ' [%d CBMC checks%s]' % (r.nchecks, ', covers %d/%d' % r.covers if r.covers else '')))
                elif r.status == 'failed':
                    sig = (s.get('family', re.sub(r'\d+$', '', s['name'])), tuple(d for d, _ in r.failed_checks))
                    if sig in seen_fail:
                        self.add(Obligation(self.prop, name, 'kani', s['kind'], 'failed', seconds=r.seconds, bound=s.get('bound'),
                                            detail='same failed check as %s (reported there): %s' % (seen_fail[sig], '; '.join('%s (%s)' % fc for fc in r.failed_checks))))
                        continue
                    seen_fail[sig] = name
                    ob = self.add(Obligation(self.prop, name, 'kani', s['kind'], 'failed', seconds=r.seconds, bound=s.get('bound'),
                                             detail=s.get('desc', '') + ' FAILED: ' + '; '.join('%s (%s)' % fc for fc in r.failed_checks)))
                    self._violation_from_kani(ob, package, s, r)
                else:
                    self.add(Obligation(self.prop, name, 'kani', s['kind'], 'undecided', seconds=r.seconds, bound=s.get('bound'), detail='%s: %s' % (r.status, r.raw[-300:])))
                    self.undecided.append('%s: %s' % (name, r.status))
            self.samples += ['kani/%s::%s' % (s['module'], s['name']) for s in group[:2]]

    def _violation_from_kani(self, ob, package, spec, r):
        tests = kn.playback(self.scratch, package, spec['name'])
        tests = [t for t in tests if t['kind'] != 'cover']
        wit = None
        if tests:
            b = self.native()
            for t in tests:
                rep = kn.native_replay(b, spec['module'], spec['name'], t['vals'])
                if rep.get('outcome') == 'panic':
                    flat = bytes(v[0] for v in t['vals'] if len(v) == 1) if all(len(v) == 1 for v in t['vals']) else None
                    wit = dict(kani_check=t['check'], concrete_vals=t['vals'], observed=rep.get('message'), via='kani concrete playback replayed natively on the same harness body',
                               replay=['replay', spec['module'], spec['name'], kn.vals_to_arg(t['vals'])])
                    if flat is not None:
                        wit['input_hex'] = flat.hex()
                        wit['input_text'] = flat.decode('utf-8', 'replace')
                    break
            if wit is None:
                ob.detail += ' | playback produced %d candidate(s) but none reproduced natively (%s)' % (len(tests), tests[0]['check'])
        ob.witness = wit
        self._record_violation(ob)

    # ------------------------------------------------------------------ violations / known
    def _record_violation(self, ob, classify=True):
        """classify=False: the caller has already decided that this failure is NOT covered by a known finding."""
        for k in (self.known if classify else []):
            if k.get('status') != 'known':
                continue
            if re.search(k['obligation'], ob.name):
                kw = k.get('witness_regex')
                msg = (ob.witness or {}).get('observed') or ob.detail
                if kw and not re.search(kw, json.dumps(ob.witness or {}) + ' ' + msg):
                    continue
                self.known_hits.append((k, ob))
                ob.detail = 'KNOWN FINDING %s | ' % k.get('id', '') + ob.detail
                return
        payload = dict(property=self.prop, obligation=ob.name, backend=ob.backend, kind=ob.kind, repo_rev=repo_rev(),
                       verifier_output=ob.detail, witness=ob.witness,
                       how_to_replay='/verif/vx replay <this file> (rebuilds the scratch copy of /repo with --cfg danielt_autosar_data_verif and runs the recorded command)')
        path = write_replay(self.prop, ob.name, payload)
        self.violations.append((ob, path, '' if ob.witness else ' no-failing-input-found'))

    # ------------------------------------------------------------------ wrap-up
    def finish(self, explanation, checker_cmd, trusted_base, extra=None):
        kf_names = set(ob.name for _, ob in self.known_hits)
        known_obs = [o for o in self.obligations if o.name in kf_names or o.detail.startswith('KNOWN FINDING')]
        complete = [o for o in self.obligations if o.kind == 'complete' and o not in known_obs]
        bounded = [o for o in self.obligations if o.kind != 'complete']
        cov = dict(
            obligations=len(complete),
            discharged=len([o for o in complete if o.status == 'discharged']),
            checker_cmd=checker_cmd,
            trusted_base=trusted_base,
            explanation=explanation,
            functions_under_contract=sorted(set(self.functions)),
            obligations_by_backend={b: len([o for o in complete if o.backend == b]) for b in sorted(set(o.backend for o in complete))},
            bounded_checks=[o.to_json() for o in bounded],
            bounded_checks_note='bounded stand-ins are listed here and are NOT counted in obligations/discharged',
            failed=[o.to_json() for o in self.obligations if o.status == 'failed' and o not in known_obs],
            known_finding_obligations=[o.to_json() for o in known_obs],
            known_finding_note='obligations that fail exactly as recorded in /verif/known_findings.json are listed here and are not counted in obligations/discharged',
            undecided=self.undecided,
            seconds_by_backend={k: round(v, 2) for k, v in self.backends_s.items()},
            extraction=sorted(set(self.extraction)),
            samples=(self.samples or [o.name for o in self.obligations])[:12],
            all_obligations=[o.to_json() for o in complete],
            known_findings_hit=[k.get('id') for k, _ in self.known_hits],
            repo_rev=repo_rev(),
            exhaustive=False,
        )
        cov.update(self.extra_cov)
        if extra:
            cov.update(extra)
        ev = dict(property_id=self.prop, tier=self.tier, seed=self.seed, level=self.level, coverage=cov,
                  assumptions=sorted(set(self.assumptions + self.trusted)), wall_s=round(time.time() - self.t0, 2),
                  violations=len(self.violations))
        evdir = os.environ.get('VX_EVIDENCE_DIR') or os.path.join(VERIF, 'evidence')
        os.makedirs(evdir, exist_ok=True)
        with open(os.path.join(evdir, self.prop + '.json'), 'w') as f:
            json.dump(ev, f, indent=1)
        for k, ob in self.known_hits:
            print('KNOWN-FINDING: property=%s %s [%s]' % (self.prop, k['what'], ob.name))
        for ob, path, suffix in self.violations:
            print('VIOLATION property=%s replay=%s%s' % (self.prop, path, suffix))
        if self.violations:
            return EXIT_VIOLATION
        if self.undecided:
            for u in self.undecided:
                print('UNDECIDED unit=%s' % u)
            return EXIT_UNDECIDED
        print('OK property=%s tier=%s obligations=%d discharged=%d bounded=%d wall=%.0fs' % (
            self.prop, self.tier, cov['obligations'], cov['discharged'], len(bounded), time.time() - self.t0))
        return EXIT_OK
