"""Minimal Rust source scanner: locate items by name and match braces.

Only lexical structure is understood (comments, string/char literals, lifetimes,
raw strings); that is enough to cut a function, an impl block or a static out of a
file *verbatim*.  Nothing here rewrites code.
"""
import re


class Lost(Exception):
    """An anchor (function, loop, static ...) could not be located."""


def _skip_string(src, i):
    # src[i] == '"'
    i += 1
    n = len(src)
    while i < n:
        c = src[i]
        if c == '\\':
            i += 2
            continue
        if c == '"':
            return i + 1
        i += 1
    raise Lost("unterminated string literal")


def _skip_raw_string(src, i):
    # src[i] == 'r', followed by #*"
    j = i + 1
    hashes = 0
    while src[j] == '#':
        hashes += 1
        j += 1
    if src[j] != '"':
        return None
    end = src.find('"' + '#' * hashes, j + 1)
    if end < 0:
        raise Lost("unterminated raw string")
    return end + 1 + hashes


def code_mask(src):
    """Return a list `m` with m[i] True iff src[i] is code (not comment / literal text).
    Delimiters of literals count as non-code too, except that braces inside them are
    what we want to ignore anyway."""
    n = len(src)
    m = [True] * n
    i = 0
    while i < n:
        c = src[i]
        if c == '/' and i + 1 < n and src[i + 1] == '/':
            j = src.find('\n', i)
            if j < 0:
                j = n
            for k in range(i, j):
                m[k] = False
            i = j
        elif c == '/' and i + 1 < n and src[i + 1] == '*':
            depth = 1
            j = i + 2
            while j < n and depth:
                if src.startswith('/*', j):
                    depth += 1
                    j += 2
                elif src.startswith('*/', j):
                    depth -= 1
                    j += 2
                else:
                    j += 1
            for k in range(i, j):
                m[k] = False
            i = j
        elif c == '"':
            j = _skip_string(src, i)
            for k in range(i, j):
                m[k] = False
            i = j
        elif c == 'r' and i + 1 < n and src[i + 1] in '#"' and (i == 0 or not (src[i - 1].isalnum() or src[i - 1] == '_')):
            j = _skip_raw_string(src, i)
            if j is None:
                i += 1
            else:
                for k in range(i, j):
                    m[k] = False
                i = j
        elif c == 'b' and i + 1 < n and src[i + 1] == 'r' and i + 2 < n and src[i + 2] in '#"' and (i == 0 or not (src[i - 1].isalnum() or src[i - 1] == '_')):
            j = _skip_raw_string(src, i + 1)
            if j is None:
                i += 1
            else:
                for k in range(i, j):
                    m[k] = False
                i = j
        elif c == "'":
            # char literal or lifetime
            if i + 1 < n and src[i + 1] == '\\':
                j = src.find("'", i + 2)
                # handle '\'' : the quote right after the backslash is escaped
                if j == i + 2:
                    j = src.find("'", i + 3)
                if j < 0:
                    raise Lost("unterminated char literal")
                for k in range(i, j + 1):
                    m[k] = False
                i = j + 1
            elif i + 2 < n and src[i + 2] == "'":
                for k in range(i, i + 3):
                    m[k] = False
                i += 3
            else:
                # a lifetime ('a) -- a non-ASCII char literal is one code point in a
                # Python str and was handled by the branch above
                i += 1
        else:
            i += 1
    return m


def match_brace(src, mask, open_pos):
    """src[open_pos] is an opening bracket in code; return index of its partner."""
    o = src[open_pos]
    c = {'{': '}', '(': ')', '[': ']'}[o]
    depth = 0
    i = open_pos
    n = len(src)
    while i < n:
        if mask[i]:
            if src[i] == o:
                depth += 1
            elif src[i] == c:
                depth -= 1
                if depth == 0:
                    return i
        i += 1
    raise Lost("unbalanced %s at %d" % (o, open_pos))


class Source:
    def __init__(self, path, text=None):
        self.path = path
        self.text = text if text is not None else open(path, encoding='utf-8').read()
        self.mask = code_mask(self.text)

    def line_of(self, pos):
        return self.text.count('\n', 0, pos) + 1

    def _find_code(self, regex, start=0, end=None):
        end = len(self.text) if end is None else end
        for mm in re.finditer(regex, self.text[start:end], re.M):
            if self.mask[start + mm.start()]:
                yield start + mm.start(), start + mm.end(), mm

    def find_block(self, header_regex, start=0, end=None):
        """Find `header_regex ... {` and return (hdr_start, open_brace, close_brace)."""
        for s, e, _ in self._find_code(header_regex, start, end):
            i = e
            while i < len(self.text) and not (self.mask[i] and self.text[i] in '{;'):
                i += 1
            if i >= len(self.text) or self.text[i] == ';':
                continue
            return s, i, match_brace(self.text, self.mask, i)
        raise Lost("no block matching %r in %s" % (header_regex, self.path))

    def find_fn(self, name, within=None, nth=0):
        """Locate `fn name`; `within` = (start, end) restricts the search (e.g. an impl
        block).  Returns dict(start, sig_end (index of '{'), end (index of '}'))
        where start includes leading attributes/visibility on the same item."""
        s0, e0 = within if within else (0, len(self.text))
        hits = [h for h in self._find_code(r'\bfn\s+%s\s*[<(]' % re.escape(name), s0, e0)]
        if len(hits) <= nth:
            raise Lost("fn %s not found in %s" % (name, self.path))
        s, e, _ = hits[nth]
        # extend start backwards over `pub(crate) `, `const `, `unsafe ` on same line
        ls = self.text.rfind('\n', 0, s) + 1
        prefix = self.text[ls:s]
        if re.fullmatch(r'\s*((pub(\([a-z:]+\))?|const|unsafe|async)\s+)*', prefix):
            s = ls + (len(prefix) - len(prefix.lstrip()))
        i = e - 1
        # skip generics / params: find the body's '{' at depth 0
        depth = 0
        while i < len(self.text):
            if self.mask[i]:
                ch = self.text[i]
                if ch in '([':
                    depth += 1
                elif ch in ')]':
                    depth -= 1
                elif ch == '{' and depth == 0:
                    break
                elif ch == ';' and depth == 0:
                    raise Lost("fn %s has no body" % name)
            i += 1
        close = match_brace(self.text, self.mask, i)
        return dict(name=name, start=s, open=i, end=close, line=self.line_of(s))

    def find_static(self, name):
        for s, e, _ in self._find_code(r'^\s*(pub(\([a-z]+\))?\s+)?(static|const)\s+%s\s*:' % re.escape(name)):
            i = e
            depth = 0
            while i < len(self.text):
                if self.mask[i]:
                    ch = self.text[i]
                    if ch in '([{':
                        depth += 1
                    elif ch in ')]}':
                        depth -= 1
                    elif ch == ';' and depth == 0:
                        return dict(name=name, start=s, end=i, line=self.line_of(s))
                i += 1
        raise Lost("static %s not found in %s" % (name, self.path))

    def impl_block(self, header_regex, nth=0):
        hits = list(self._find_code(header_regex))
        if len(hits) <= nth:
            raise Lost("impl %r not found in %s" % (header_regex, self.path))
        s, e, _ = hits[nth]
        i = s
        while not (self.mask[i] and self.text[i] == '{'):
            i += 1
        return s, i, match_brace(self.text, self.mask, i)

    def loops_in(self, start, end):
        """Return the loops (for/while/loop) found in code between start..end in source
        order: list of dict(kind, start, open, end)."""
        out = []
        for s, e, mm in self._find_code(r'\b(for|while|loop)\b', start, end):
            kind = mm.group(1)
            # `for` in `impl .. for` / HRTB cannot occur inside fn bodies we handle
            i = e
            depth = 0
            while i < end:
                if self.mask[i]:
                    ch = self.text[i]
                    if ch in '([':
                        depth += 1
                    elif ch in ')]':
                        depth -= 1
                    elif ch == '{' and depth == 0:
                        break
                i += 1
            else:
                continue
            close = match_brace(self.text, self.mask, i)
            out.append(dict(kind=kind, start=s, open=i, end=close))
        return out
