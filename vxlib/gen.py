"""Mechanically generated Rust fragments (from the working tree) that harness files include!."""
import os
import re

from .rustsrc import Source, Lost


def versions(scratch):
    src = Source(scratch.path('autosar-data-specification/src/autosarversion.rs'))
    s, o, c = src.find_block(r'pub enum AutosarVersion\b')
    body = re.sub(r'//[^\n]*', '', src.text[o + 1:c])
    names = re.findall(r'^\s*(\w+)\s*=\s*0x[0-9a-fA-F]+\s*,', body, re.M)
    total = len(re.findall(r'^\s*\w+\s*(=[^,]*)?,', body, re.M))
    if not names or len(names) != total:
        raise Lost('cannot enumerate the variants of AutosarVersion')
    return names


CONFIG = {'regex_eq_lengths': {}, 'regex_overrides': {}}
RESULT = {}


def generate(scratch, d):
    from . import regexgen
    RESULT['regex'] = regexgen.generate(scratch.dir, d, CONFIG['regex_eq_lengths'], CONFIG['regex_overrides'])
    names = versions(scratch)
    for fn in ('versions.rs', 'versions_main.rs'):
        with open(os.path.join(d, fn), 'w') as f:
            f.write('pub const ALL_VERSIONS: [AutosarVersion; %d] = [%s];\n' % (len(names), ', '.join('AutosarVersion::' + n for n in names)))
