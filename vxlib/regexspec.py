"""regexspec: published regex text -> minimal complete DFA over bytes (the oracle for C19).

Dialect (DESIGN F11): byte-wise, whole-string (anchored) match; `.` = any byte except 0x0A;
`\\d` = [0-9]; classes `[...]` over bytes with ranges and backslash escapes; `|`, `*`, `+`, `?`,
`{m}`, `{m,n}`, groups `( )`.  This is the reading of Python `re` on bytes patterns and of Rust
`regex::bytes` without Unicode, and the compiler is cross-checked against Python `re.fullmatch`
on every run (selfcheck()).
"""
import itertools
import re as pyre


class RegexError(Exception):
    pass


# ---------------------------------------------------------------- parser -> AST
# AST: ('set', frozenset(bytes)) | ('cat', [..]) | ('alt', [..]) | ('rep', node, lo, hi|None) | ('eps',)

ALL = frozenset(range(256))
DOT = frozenset(b for b in range(256) if b != 0x0A)
DIGIT = frozenset(range(0x30, 0x3A))


class _P:
    def __init__(self, s):
        self.s = s
        self.i = 0

    def peek(self):
        return self.s[self.i] if self.i < len(self.s) else None

    def eat(self, c=None):
        ch = self.peek()
        if ch is None or (c is not None and ch != c):
            raise RegexError('expected %r at %d in %r' % (c, self.i, self.s))
        self.i += 1
        return ch

    def alt(self):
        parts = [self.cat()]
        while self.peek() == '|':
            self.eat('|')
            parts.append(self.cat())
        return parts[0] if len(parts) == 1 else ('alt', parts)

    def cat(self):
        items = []
        while self.peek() is not None and self.peek() not in '|)':
            items.append(self.rep())
        if not items:
            return ('eps',)
        return items[0] if len(items) == 1 else ('cat', items)

    def rep(self):
        a = self.atom()
        while True:
            c = self.peek()
            if c == '*':
                self.eat()
                a = ('rep', a, 0, None)
            elif c == '+':
                self.eat()
                a = ('rep', a, 1, None)
            elif c == '?':
                self.eat()
                a = ('rep', a, 0, 1)
            elif c == '{':
                m = pyre.match(r'\{(\d+)(,(\d*))?\}', self.s[self.i:])
                if not m:
                    raise RegexError('bad counted repetition at %d in %r' % (self.i, self.s))
                self.i += m.end()
                lo = int(m.group(1))
                hi = lo if m.group(2) is None else (int(m.group(3)) if m.group(3) else None)
                a = ('rep', a, lo, hi)
            else:
                return a

    def escape(self):
        self.eat('\\')
        c = self.eat()
        if c == 'd':
            return DIGIT
        if c in 'wsWSDbB' or c.isdigit():
            raise RegexError('unsupported escape \\%s' % c)
        if c == 'n':
            return frozenset([10])
        if c == 't':
            return frozenset([9])
        if c == 'r':
            return frozenset([13])
        if c.isalpha():
            raise RegexError('unsupported escape \\%s' % c)
        return frozenset([ord(c)])

    def atom(self):
        c = self.peek()
        if c == '(':
            self.eat()
            if self.s[self.i:self.i + 2] == '?:':
                self.i += 2
            elif self.peek() == '?':
                raise RegexError('unsupported group flag in %r' % self.s)
            a = self.alt()
            self.eat(')')
            return a
        if c == '[':
            return ('set', self.cls())
        if c == '.':
            self.eat()
            return ('set', DOT)
        if c == '\\':
            return ('set', self.escape())
        if c in '*+?{':
            raise RegexError('dangling quantifier at %d in %r' % (self.i, self.s))
        if c in '^$':
            raise RegexError('anchors are not expected inside the published patterns: %r' % self.s)
        self.eat()
        if ord(c) > 127:
            raise RegexError('non-ASCII literal in %r' % self.s)
        return ('set', frozenset([ord(c)]))

    def cls(self):
        self.eat('[')
        neg = False
        if self.peek() == '^':
            self.eat()
            neg = True
        out = set()
        first = True
        while True:
            c = self.peek()
            if c is None:
                raise RegexError('unterminated class in %r' % self.s)
            if c == ']' and not first:
                self.eat()
                break
            first = False
            if c == '\\':
                lo = self.escape()
            else:
                self.eat()
                lo = frozenset([ord(c)])
            if self.peek() == '-' and self.s[self.i + 1:self.i + 2] not in (']', ''):
                if len(lo) != 1:
                    raise RegexError('range from a class escape in %r' % self.s)
                self.eat('-')
                c2 = self.peek()
                if c2 == '\\':
                    hi = self.escape()
                else:
                    self.eat()
                    hi = frozenset([ord(c2)])
                if len(hi) != 1:
                    raise RegexError('range to a class escape in %r' % self.s)
                a, b = next(iter(lo)), next(iter(hi))
                if a > b:
                    raise RegexError('reversed range in %r' % self.s)
                out.update(range(a, b + 1))
            else:
                out.update(lo)
        return frozenset(ALL - out) if neg else frozenset(out)


def parse(s):
    p = _P(s)
    a = p.alt()
    if p.i != len(s):
        raise RegexError('trailing input at %d in %r' % (p.i, s))
    return a


# ---------------------------------------------------------------- AST -> NFA (Thompson)
class _NFA:
    def __init__(self):
        self.eps = []     # state -> [state]
        self.tr = []      # state -> [(frozenset, state)]

    def new(self):
        self.eps.append([])
        self.tr.append([])
        return len(self.eps) - 1

    def build(self, a):
        k = a[0]
        if k == 'eps':
            s = self.new()
            return s, s
        if k == 'set':
            s, t = self.new(), self.new()
            self.tr[s].append((a[1], t))
            return s, t
        if k == 'cat':
            s, t = self.build(a[1][0])
            for x in a[1][1:]:
                s2, t2 = self.build(x)
                self.eps[t].append(s2)
                t = t2
            return s, t
        if k == 'alt':
            s, t = self.new(), self.new()
            for x in a[1]:
                s2, t2 = self.build(x)
                self.eps[s].append(s2)
                self.eps[t2].append(t)
            return s, t
        if k == 'rep':
            _, x, lo, hi = a
            s = self.new()
            t = s
            for _ in range(lo):
                s2, t2 = self.build(x)
                self.eps[t].append(s2)
                t = t2
            if hi is None:
                s2, t2 = self.build(x)
                e = self.new()
                self.eps[t].append(s2)
                self.eps[t].append(e)
                self.eps[t2].append(s2)
                self.eps[t2].append(e)
                t = e
            else:
                e = self.new()
                self.eps[t].append(e)
                for _ in range(hi - lo):
                    s2, t2 = self.build(x)
                    self.eps[t].append(s2)
                    self.eps[t2].append(e)
                    t = t2
                t = e
            return s, t
        raise RegexError('bad node %r' % (a,))


class DFA:
    """Complete DFA over bytes.  delta[q][c]; dead state index `dead` (absorbing, non-accepting) or None."""

    def __init__(self, delta, start, accept):
        self.delta = delta
        self.start = start
        self.accept = accept
        self.n = len(delta)
        self.dead = None
        for q in range(self.n):
            if q not in accept and all(delta[q][c] == q for c in range(256)):
                self.dead = q

    def run(self, bs, q=None):
        q = self.start if q is None else q
        for c in bs:
            q = self.delta[q][c]
        return q

    def accepts(self, bs):
        return self.run(bs) in self.accept

    def classes(self):
        """byte equivalence classes: list of representative bytes, and map byte -> class index"""
        sig = {}
        cls_of = [0] * 256
        reps = []
        for c in range(256):
            k = tuple(self.delta[q][c] for q in range(self.n))
            if k not in sig:
                sig[k] = len(reps)
                reps.append(c)
            cls_of[c] = sig[k]
        return reps, cls_of

    def live_alphabet(self):
        """one representative byte per class, preferring printable ASCII; used for reduced alphabets"""
        reps, cls_of = self.classes()
        out = []
        for k in range(len(reps)):
            members = [c for c in range(256) if cls_of[c] == k]
            pr = [c for c in members if 0x21 <= c < 0x7f]
            out.append(pr[0] if pr else members[0])
        return bytes(out)


def compile_regex(s):
    ast = parse(s)
    nfa = _NFA()
    s0, t0 = nfa.build(ast)

    def closure(states):
        st = set(states)
        work = list(states)
        while work:
            x = work.pop()
            for y in nfa.eps[x]:
                if y not in st:
                    st.add(y)
                    work.append(y)
        return frozenset(st)

    start = closure([s0])
    ids = {start: 0}
    order = [start]
    delta = []
    i = 0
    while i < len(order):
        S = order[i]
        i += 1
        row = [None] * 256
        # group bytes by target set
        moves = {}
        for x in S:
            for cs, y in nfa.tr[x]:
                for c in cs:
                    moves.setdefault(c, set()).add(y)
        cache = {}
        for c in range(256):
            tgt = frozenset(moves.get(c, ()))
            if tgt not in cache:
                T = closure(tgt) if tgt else frozenset()
                if T not in ids:
                    ids[T] = len(order)
                    order.append(T)
                cache[tgt] = ids[T]
            row[c] = cache[tgt]
        delta.append(row)
    accept = set(q for S, q in ids.items() if t0 in S)
    d = DFA(delta, 0, accept)
    return minimize(d)


def minimize(d):
    # Moore partition refinement on reachable states
    reach = [d.start]
    seen = {d.start}
    for q in reach:
        for c in range(256):
            t = d.delta[q][c]
            if t not in seen:
                seen.add(t)
                reach.append(t)
    part = {q: (1 if q in d.accept else 0) for q in reach}
    while True:
        sig = {}
        newpart = {}
        for q in reach:
            k = (part[q], tuple(part[d.delta[q][c]] for c in range(256)))
            if k not in sig:
                sig[k] = len(sig)
            newpart[q] = sig[k]
        if len(sig) == len(set(part.values())):
            part = newpart
            break
        part = newpart
    # renumber: start = 0, BFS order
    order = []
    idx = {}
    work = [part[d.start]]
    rep = {}
    for q in reach:
        rep.setdefault(part[q], q)
    while work:
        b = work.pop(0)
        if b in idx:
            continue
        idx[b] = len(order)
        order.append(b)
        for c in range(256):
            nb = part[d.delta[rep[b]][c]]
            if nb not in idx:
                work.append(nb)
    delta = [[idx[part[d.delta[rep[b]][c]]] for c in range(256)] for b in order]
    accept = set(idx[part[q]] for q in reach if q in d.accept)
    m = DFA(delta, 0, accept)
    if m.dead is None:
        # add an explicit dead state so that `dead` always exists (unreachable, harmless)
        m.delta.append([m.n] * 256)
        m.dead = m.n
        m.n += 1
    return m


def selfcheck(regex, dfa, maxlen=5, cap=400000):
    """Cross-check the compiled DFA against Python's re.fullmatch on all strings up to maxlen over
    the DFA's reduced alphabet (one byte per equivalence class) plus a few extra bytes.
    Returns (number of strings compared, first disagreement or None)."""
    alpha = bytearray(dfa.live_alphabet())
    for extra in (0x0A, 0x0D, 0x80, 0xFF, 0x20):
        if extra not in alpha:
            alpha.append(extra)
    rx = pyre.compile(regex.encode('latin-1'), pyre.DOTALL if False else 0)
    n = 0
    for L in range(maxlen + 1):
        if len(alpha) ** L > cap:
            break
        for tup in itertools.product(alpha, repeat=L):
            bs = bytes(tup)
            n += 1
            if (rx.fullmatch(bs) is not None) != dfa.accepts(bs):
                return n, bs
    return n, None


def product(dfa, table, accept_fn, start=0, dead=255):
    """Walk the product of the reference DFA and a table automaton (`table[q][c]`, `dead` = reject
    forever).  Returns (witness, sim): witness = shortest byte string on which they disagree (None if
    they agree on every string), sim = map reachable table state -> reference state (only meaningful
    when witness is None)."""
    n = len(table)
    sim = {start: dfa.start}
    seen = {(start, dfa.start)}
    work = [(start, dfa.start, b'')]
    i = 0
    while i < len(work):
        p, q, w = work[i]
        i += 1
        pa = p != dead and accept_fn(p)
        if pa != (q in dfa.accept):
            return w, sim
        for c in range(256):
            if p == dead:
                p2 = dead
            else:
                p2 = table[p][c] if p < n else dead
                if p2 != dead and p2 >= n:
                    return w + bytes([c]), sim      # out-of-range state: the real code would panic here
            q2 = dfa.delta[q][c]
            if (p2, q2) not in seen:
                seen.add((p2, q2))
                if p2 != dead:
                    sim.setdefault(p2, q2)
                work.append((p2, q2, w + bytes([c])))
    # equivalent: sim must be a function (reference is minimal)
    for (p, q) in seen:
        if p != dead and sim[p] != q:
            raise RegexError('internal: reference DFA not minimal')
    return None, sim


def _separate(dfa, a, b):
    """shortest string accepted from exactly one of the states a, b (b'' if none)"""
    seen = {(a, b)}
    work = [(a, b, b'')]
    i = 0
    while i < len(work):
        x, y, w = work[i]
        i += 1
        if (x in dfa.accept) != (y in dfa.accept):
            return w
        for c in range(256):
            k = (dfa.delta[x][c], dfa.delta[y][c])
            if k not in seen:
                seen.add(k)
                work.append((k[0], k[1], w + bytes([c])))
    return b''
