"""Build a single-file Verus unit from real functions of /repo plus sidecar contracts,
run Verus on it, and turn the diagnostics into named obligations.

The function bodies are copied verbatim from the working tree; the only changes are
 * the desugaring rules R1..R14 (textual, listed in RULES; every application is recorded),
 * inserted lines carrying a `// @vx:` tag (contract clauses, loop invariants, proof blocks),
 * `-> T` becoming `-> (r: T)` so a postcondition can name the result.
"""
import json
import os
import re

from .common import Undecided, run, log
from .rustsrc import Source, Lost, code_mask

# ----------------------------------------------------------------------------------------
# Desugaring rules.  (regex, replacement, id).  Applied to the text of each extracted
# function.  They are purely local and are listed in DESIGN.md section 3.3.
def _bytes_lit(s):
    """b"..." body -> Rust array literal of u8 (handles the escapes used in the sources)."""
    out = []
    i = 0
    while i < len(s):
        c = s[i]
        if c == '\\':
            n = s[i + 1]
            m = {'n': 10, 't': 9, 'r': 13, '\\': 92, '"': 34, "'": 39, '0': 0}
            if n == 'x':
                out.append(int(s[i + 2:i + 4], 16))
                i += 4
                continue
            out.append(m[n])
            i += 2
            continue
        out.append(ord(c))
        i += 1
    return '&[' + ', '.join('%du8' % b for b in out) + ']'


def _recv(m, g=1):
    r = m.group(g)
    return ('&' + r) if '[' in r and not r.startswith('&') else r


_R = r'((?:\w+(?:\.\w+)*)(?:\[[^\]\n]*\])?)'   # receiver: a.b.c or a.b[expr]

RULES = [
    # R2: position of first (non-)whitespace byte
    (_R + r'\s*\.iter\(\)\s*\.position\(\s*u8::is_ascii_whitespace\s*\)', lambda m: 'vx_position_ws(%s)' % _recv(m), 'R2'),
    (_R + r'\s*\.iter\(\)\s*\.position\(\s*\|c\|\s*!c\.is_ascii_whitespace\(\)\s*\)', lambda m: 'vx_position_non_ws(%s)' % _recv(m), 'R2'),
    # R1: position of a given byte
    (_R + r"\s*\.iter\(\)\s*\.position\(\s*\|c\|\s*\*c\s*==\s*(b'[^']+')\s*\)", lambda m: 'vx_position_eq(%s, %s)' % (_recv(m), m.group(2)), 'R1'),
    (_R + r"\s*\.iter\(\)\s*\.position\(\s*\|c\|\s*c\s*==\s*&(\w+)\s*\)", lambda m: 'vx_position_eq(%s, %s)' % (_recv(m), m.group(2)), 'R1'),
    # R3: count of a given byte
    (_R + r"\s*\.iter\(\)\s*\.filter\(\s*\|c\|\s*\*\*c\s*==\s*(b'(?:\\.|[^'])+')\s*\)\s*\.count\(\)", lambda m: 'vx_count_eq(%s, %s)' % (_recv(m), m.group(2)), 'R3'),
    # R13: all whitespace
    (_R + r'\s*\.iter\(\)\s*\.all\(\s*\|c\|\s*c\.is_ascii_whitespace\(\)\s*\)', lambda m: 'vx_all_ws(%s)' % _recv(m), 'R13'),
    # R4: starts_with / ends_with against a byte-string literal
    (_R + r'\s*\.starts_with\(b"((?:\\.|[^"\\])*)"\)', lambda m: 'vx_starts_with(%s, %s)' % (_recv(m), _bytes_lit(m.group(2))), 'R4'),
    (_R + r'\s*\.ends_with\(b"((?:\\.|[^"\\])*)"\)', lambda m: 'vx_ends_with(%s, %s)' % (_recv(m), _bytes_lit(m.group(2))), 'R4'),
    # R14: slice == / != byte-string literal
    (r'(\w+)\s*==\s*b"((?:\\.|[^"\\])*)"', lambda m: 'vx_eq(%s, %s)' % (m.group(1), _bytes_lit(m.group(2))), 'R14'),
    (r'(\w+)\s*!=\s*b"((?:\\.|[^"\\])*)"', lambda m: '!vx_eq(%s, %s)' % (m.group(1), _bytes_lit(m.group(2))), 'R14'),
    # R5: `let v = E.ok_or_else(|| ERR)?;`
    (r'let (\w+) = ([^;]*?)\s*\.ok_or_else\(\|\|\s*([^;]*?)\)\?;', lambda m: 'let %s = match %s { Some(vx_v) => vx_v, None => return Err(%s) };' % (m.group(1), m.group(2), m.group(3)), 'R5'),
    # R7: `R.map(|res| (self.line, res))` on a Result
    (r'return ([^;]*?)\.map\(\|res\| \(self\.line, res\)\);', lambda m: 'return match %s { Ok(res) => Ok((self.line, res)), Err(vx_e) => Err(vx_e) };' % m.group(1), 'R7'),
    # R10: debug_assert!(E) -> vx_debug_assert(E): E is evaluated in exec mode (as a debug build does) and must hold
    (r'\bdebug_assert!\((.*)\);', lambda m: 'vx_debug_assert(%s);' % m.group(1), 'R10'),
]


def apply_rules(text, extra_rules=()):
    applied = []
    for rx, rep, rid in list(extra_rules) + RULES:
        new, n = re.subn(rx, rep, text)
        if n:
            applied.append((rid, n))
            text = new
    return text, applied


TAG = '// @vx:'


def _indent_of(line):
    return line[:len(line) - len(line.lstrip())]


class FnSpec:
    def __init__(self, name, file, impl=None, nth=0, ret=None, requires=(), ensures=(), decreases=None,
                 loops=None, proofs=(), rules=(), attrs=(), sig_sub=(), self_ty=None, opens_impl=None, body_sub=(), label=None, twin=None, pre=None):
        self.name = name
        self.label = label or name   # unique within the unit: used in obligation names and tags
        self.twin = twin             # dict(sig=str, subs=[(regex, repl)]): emit the rule-processed body a second time as a spec function
        self.pre = pre               # callable(text) -> (text, [(rule id, n)]): block-level abstraction applied before the rules (documented per unit)
        self.file = file
        self.impl = impl            # regex of the impl header, or None for a free fn
        self.nth = nth
        self.ret = ret
        self.requires = list(requires)
        self.ensures = list(ensures)
        self.decreases = decreases
        self.loops = loops or {}    # ordinal -> dict(invariant=[..], decreases=str, iter_name=str, ensures=[..])
        self.proofs = list(proofs)  # dict(after=regex | before=regex, nth=0, text=str)
        self.rules = list(rules)
        self.attrs = list(attrs)
        self.sig_sub = list(sig_sub)   # [(regex, repl)] on the signature only (documented per unit)
        self.body_sub = list(body_sub)  # [(regex, repl, id)] unit-specific, documented rules


class Unit:
    def __init__(self, name, prop, fns, prelude='', spec='', statics=(), wrap=None, rlimit=None, dropped=()):
        self.name = name
        self.prop = prop
        self.fns = fns
        self.prelude = prelude
        self.spec = spec
        self.statics = list(statics)
        self.wrap = wrap or {}       # impl header regex -> (open text, close text) used in the unit
        self.rlimit = rlimit
        self.dropped = list(dropped)
        self.property_lemmas = {}    # lemma name -> description: lemmas that state the property over the contracts (a failure is a violation)
        self.leaves = []             # [(FnSpec, 'unit that proves it')]: callees emitted as external_body declarations carrying the contract
                                     # that another unit proves on their real text (signature taken from the real source on every run)


def extract_fn(repo_dir, fs):
    """Return (text, start_line) of the real function."""
    src = Source(os.path.join(repo_dir, fs.file))
    within = None
    if fs.impl:
        s, o, c = src.impl_block(fs.impl)
        within = (o, c)
    f = src.find_fn(fs.name, within=within, nth=fs.nth)
    return src.text[f['start']:f['end'] + 1], f['line']


_OPND = r'(?:(?<!&)[*&]\s*)?[A-Za-z_]\w*(?:(?:\.|::)[A-Za-z_]\w*|\.\d+)*'
_EQ_RX = re.compile(r'(?<![\w\)\]\.>\'"])(' + _OPND + r')\s*(==|!=)\s*(' + _OPND + r')(?![\w\(\[\.:!<\'"])')
PROBE_DECL = """
// Probe for executable `==` / `!=` between two plain operands: for some std types (String, Vec, slices, Ordering) Verus gives the exec
// operators no specification and says nothing, so an obligation that fails behind such a comparison says nothing about the code.
// Every such comparison in the real text is routed through this function; its precondition -- the exec result is the spec equality --
// holds silently for the types Verus specifies and fails by name for the others (the unit is then UNDECIDED, never a violation).
pub fn vx_probe_eq(e: bool, Ghost(s): Ghost<bool>) -> (r: bool) requires e == s ensures r == e { e }
"""


def probe_equalities(text):
    """`A == B` / `A != B` with plain operands (identifiers, field / enum paths, optional * or &) -> vx_probe_eq(A == B, Ghost(A == B)).
    Comments are left alone; literals, calls and index expressions are not touched."""
    out = []
    for line in text.split('\n'):
        code, sep, rest = line.partition('//')
        def rep(m):
            a, op, b = m.group(1), m.group(2), m.group(3)
            if a in ('true', 'false') or b in ('true', 'false'):
                return m.group(0)
            # constants / statics cannot be read in ghost code; they are integers or structural values anyway
            if any(re.fullmatch(r'(?:\w+::)*[A-Z][A-Z0-9_]*', x.lstrip('*& ')) for x in (a, b)):
                return m.group(0)
            # the comparison must be a whole operand of `&&` / `||` / `!` / a condition: no arithmetic, bit operation or cast around it
            before = m.string[:m.start()].rstrip()
            after = m.string[m.end():].lstrip()
            if before.endswith(('&&', '||', '=>')):
                pass
            elif before.endswith('!'):
                return m.group(0)   # `!a == b` is `(!a) == b`
            elif before.endswith('=') and not before.endswith(('==', '<=', '>=', '!=', '+=', '-=', '*=', '/=', '|=', '&=', '^=', '%=')):
                pass    # right-hand side of an assignment / let
            elif before[-1:] in '+-*/%|^&<>=':
                return m.group(0)
            if after.startswith(('&&', '||')):
                pass
            elif after[:1] in '+-*/%|^&<>?' or after.startswith('as '):
                return m.group(0)
            e = '%s %s %s' % (a, op, b)
            return 'vx_probe_eq(%s, Ghost(%s))' % (e, e)
        out.append(_EQ_RX.sub(rep, code) + sep + rest)
    return '\n'.join(out)


def annotate_fn(fs, text, negctl=False):
    """Apply rules and splice the contract.  Returns (new_text, info)."""
    info = dict(rules=[], clauses=[], loops=0)
    pre_applied = []
    if fs.pre:
        text, pre_applied = fs.pre(text)
    text, applied = apply_rules(text, fs.body_sub)
    info['rules'] = list(pre_applied) + applied
    # Constructs whose executable meaning Verus leaves unspecified WITHOUT a diagnostic: an obligation that fails because of them says
    # nothing about the code, so the unit must be undecided rather than report a violation (checked on the rule-processed real text,
    # before any specification text is spliced in).  `==` / `!=` on core::cmp::Ordering is one (the exec operators have no specification).
    code = re.sub(r'//[^\n]*', '', text)
    m = re.search(r'(?:==|!=)\s*(?:(?:std|core)::cmp::)?Ordering::\w+|(?:(?:std|core)::cmp::)?Ordering::\w+\s*(?:==|!=)', code)
    if m:
        raise Lost("fn %s: executable `==`/`!=` on Ordering (%r) has no specification in Verus and no rule of this unit covers it" % (fs.name, m.group(0)))
    text = probe_equalities(text)
    src = Source('<fn %s>' % fs.name, text)
    f = src.find_fn(fs.name)
    open_b, close_b = f['open'], f['end']
    sig = text[:open_b]
    body = text[open_b:close_b + 1]

    # --- loops (positions relative to `text`)
    loops = src.loops_in(open_b, close_b)
    info['loops'] = len(loops)
    for k in fs.loops:
        if k >= len(loops):
            raise Lost("fn %s: loop #%d not found (has %d loops)" % (fs.name, k, len(loops)))
    inserts = []   # (pos, text) into `text`
    for k, lp in enumerate(loops):
        ann = fs.loops.get(k)
        lines = []
        if ann:
            for j, inv in enumerate(ann.get('invariant_except_break', [])):
                lines.append(('loop%d:invariant_except_break:%d' % (k, j), inv))
            for j, inv in enumerate(ann.get('invariant', [])):
                lines.append(('loop%d:invariant:%d' % (k, j), inv))
            for j, inv in enumerate(ann.get('ensures', [])):
                lines.append(('loop%d:ensures:%d' % (k, j), inv))
        hdr_line_start = text.rfind('\n', 0, lp['start']) + 1
        ind = _indent_of(text[hdr_line_start:lp['start'] + 1]) + '    '
        ins = ''
        groups = {}
        for tag, clause in lines:
            groups.setdefault(tag.split(':')[1], []).append((tag, clause))
        for kw in ('invariant_except_break', 'invariant', 'ensures'):
            if kw in groups:
                ins += '\n%s%s' % (ind, kw)
                for tag, clause in groups[kw]:
                    ins += '\n%s    %s, %s%s:%s' % (ind, clause, TAG, fs.label, tag)
                    info['clauses'].append('%s:%s' % (fs.label, tag))
        if ann and ann.get('decreases'):
            ins += '\n%s decreases %s, %s%s:loop%d:decreases' % (ind, ann['decreases'], TAG, fs.label, k)
            info['clauses'].append('%s:loop%d:decreases' % (fs.label, k))
        if ins:
            ins += '\n' + ind[:-4]
            inserts.append((lp['open'], ins))
        if ann and ann.get('iter_name') and lp['kind'] == 'for':
            hdr = text[lp['start']:lp['open']]
            mm = re.match(r'for\s+(.+?)\s+in\s+', hdr, re.S)
            if not mm:
                raise Lost("fn %s: cannot parse for-loop header %r" % (fs.name, hdr))
            inserts.append((lp['start'] + mm.end(), '%s: ' % ann['iter_name']))
        if negctl and ann is not None:
            inserts.append((lp['open'] + 1, ' assert(false); %s%s:loop%d:negctl' % (TAG, fs.label, k) + '\n'))

    # --- proof blocks (anchored on lines of the body)
    for pi, pr in enumerate(fs.proofs):
        if pr.get('at') == 'loop_end':
            k = pr.get('loop', 0)
            if k >= len(loops):
                raise Lost("fn %s: proof placement loop_end: loop #%d not found" % (fs.name, k))
            block = ''.join('    %s %sproof%d\n' % (ln, TAG + fs.label + ':', pi) for ln in pr['text'].strip('\n').split('\n'))
            inserts.append((loops[k]['end'], block))
            continue
        if pr.get('at') == 'body_start':
            block = ''.join('\n        %s %sproof%d' % (ln, TAG + fs.label + ':', pi) for ln in pr['text'].strip('\n').split('\n'))
            inserts.append((open_b + 1, block))
            continue
        rx = pr.get('after') or pr.get('before')
        hits = [m for m in re.finditer(rx, text[open_b:close_b], re.M)]
        nth = pr.get('nth', 0)
        if len(hits) <= nth:
            raise Lost("fn %s: proof anchor %r (#%d) not found" % (fs.name, rx, nth))
        m = hits[nth]
        if pr.get('after'):
            pos = text.find('\n', open_b + m.end())
            pos = close_b if pos < 0 else pos
            ind = _indent_of(text[text.rfind('\n', 0, open_b + m.start()) + 1:open_b + m.end()])
            if pr.get('indent'):
                ind += '    '
            block = ''.join('\n%s%s %sproof%d' % (ind, ln, TAG + fs.label + ':', pi) for ln in pr['text'].strip('\n').split('\n'))
            inserts.append((pos, block))
        else:
            ls = text.rfind('\n', 0, open_b + m.start()) + 1
            ind = _indent_of(text[ls:open_b + m.end()])
            block = ''.join('%s%s %sproof%d\n' % (ind, ln, TAG + fs.label + ':', pi) for ln in pr['text'].strip('\n').split('\n'))
            inserts.append((ls, block))

    # --- signature
    new_sig = sig
    for rx, rep in fs.sig_sub:
        new_sig, n = re.subn(rx, rep, new_sig)
        if n == 0:
            raise Lost("fn %s: signature rewrite %r does not apply" % (fs.name, rx))
    if fs.ret:
        mm = list(re.finditer(r'->\s*', new_sig))
        if not mm:
            raise Lost("fn %s: no return type to name" % fs.name)
        a = mm[-1].end()
        rt = new_sig[a:].rstrip()
        new_sig = new_sig[:a] + '(%s: %s)' % (fs.ret, rt)
    new_sig = new_sig.rstrip()
    clauses = ''
    req = list(fs.requires)
    ens = list(fs.ensures)
    if negctl:
        ens = ens + ['false']
    if req:
        clauses += '\n    requires'
        for j, c in enumerate(req):
            clauses += '\n        %s, %s%s:requires:%d' % (c, TAG, fs.label, j)
    if ens:
        clauses += '\n    ensures'
        for j, c in enumerate(ens):
            tag = 'negctl' if (negctl and j == len(ens) - 1) else 'ensures:%d' % j
            clauses += '\n        %s, %s%s:%s' % (c, TAG, fs.label, tag)
            if tag != 'negctl':
                info['clauses'].append('%s:%s' % (fs.label, tag))
    if fs.decreases:
        clauses += '\n    decreases %s, %s%s:decreases' % (fs.decreases, TAG, fs.label)
        info['clauses'].append('%s:decreases' % fs.label)
    new_sig = new_sig + clauses + '\n'

    # apply inserts to the body part (positions are in `text`; all are >= open_b)
    out = text
    for pos, ins in sorted(inserts, key=lambda x: -x[0]):
        assert pos >= open_b
        out = out[:pos] + ins + out[pos:]
    out = ''.join('%s\n' % a for a in fs.attrs) + new_sig + out[open_b:]
    return out, info


def leaf_decl(fs, real, proved_in):
    """The real signature of a callee with the contract another unit proves for it, body dropped (external_body)."""
    import copy
    g = copy.copy(fs)
    g.loops, g.proofs, g.pre, g.decreases, g.twin, g.body_sub = {}, [], None, None, None, []
    src = Source('<leaf %s>' % fs.name, real)
    f = src.find_fn(fs.name)
    stub = real[:f['open']] + '{ unimplemented!() }'
    txt, _ = annotate_fn(g, stub, negctl=False)
    txt = re.sub(r'\s*// @vx:[^\n]*', '', txt)
    return '// contract proved on the real text in unit %s\n#[verifier::external_body]\n%s' % (proved_in, txt)


def make_twin(fs, real):
    """The body of the real function (after the desugaring rules, without any spliced clause) emitted a second time as a
    spec function: its abstract view.  Exec helpers are renamed to their spec counterparts by fs.twin['subs']."""
    text, _ = apply_rules(real, fs.body_sub)
    src = Source('<fn %s>' % fs.name, text)
    f = src.find_fn(fs.name)
    body = text[f['open']:f['end'] + 1]
    # drop comments (masked runs that start with // or /*), keep string and char literals
    out = []
    k = 0
    while k < len(body):
        if src.mask[f['open'] + k]:
            out.append(body[k])
            k += 1
            continue
        j = k
        while j < len(body) and not src.mask[f['open'] + j]:
            j += 1
        run = body[k:j]
        # a masked run may hold several adjacent comments/literals; split at comment starts
        if run.lstrip().startswith(('//', '/*')):
            out.append(''.join(c if c == '\n' else ' ' for c in run))
        else:
            out.append(run)
        k = j
    body = ''.join(out)
    for rx, rep in fs.twin.get('subs', []):
        body = re.sub(rx, rep, body)
    return '%s %s // @vx:%s:twin' % (fs.twin['sig'], body, fs.label)


def build_unit(unit, repo_dir, negctl=False):
    """Returns (text, meta).  meta: fn ranges (line spans in generated file), clause list, rule log."""
    parts = []
    parts.append('// GENERATED by /verif/vx -- unit %s (property %s)%s\n' % (unit.name, unit.prop, ' NEGATIVE CONTROL' if negctl else ''))
    parts.append('#![allow(unused_imports, unused_variables, dead_code, unused_mut, unused_assignments, non_camel_case_types, non_upper_case_globals, unused_parens, unused_braces)]\n')
    parts.append('use vstd::prelude::*;\nverus! {\n')
    parts.append(unit.prelude)
    parts.append(PROBE_DECL)
    parts.append('\n')
    parts.append(unit.spec)
    parts.append('\n')
    meta = dict(fns={}, clauses=[], rules=[], real_lines={}, statics=[])
    for st in unit.statics:
        src = Source(os.path.join(repo_dir, st['file']))
        s = src.find_static(st['name'])
        text = src.text[s['start']:s['end'] + 1]
        text = st['transform'](text)
        parts.append(text + '\n')
        meta['statics'].append(dict(name=st['name'], file=st['file'], line=s['line']))
    meta['leaves'] = []
    for fs, proved_in in unit.leaves:
        real, line = extract_fn(repo_dir, fs)
        decl = leaf_decl(fs, real, proved_in)
        parts.append((unit.wrap[fs.impl] + ' {\n' if fs.impl is not None else '') + decl + ('\n}\n' if fs.impl is not None else '\n'))
        meta['leaves'].append(dict(fn=fs.label, file=fs.file, line=line, proved_in=proved_in))
    cur_impl = None
    for fs in unit.fns:
        real, line = extract_fn(repo_dir, fs)
        txt, info = annotate_fn(fs, real, negctl=negctl)
        if fs.impl != cur_impl:
            if cur_impl is not None:
                parts.append('}\n')
            if fs.impl is not None:
                parts.append(unit.wrap[fs.impl] + ' {\n')
            cur_impl = fs.impl
        if fs.twin:
            parts.append(make_twin(fs, real) + '\n\n')
        if negctl:
            # the planted falsehoods go into an uncalled *copy* `<fn>__negctl`, so that a callee's
            # `ensures false` cannot poison (and thereby mask) its callers
            plain, _ = annotate_fn(fs, real, negctl=False)
            parts.append(plain + '\n\n')
            txt = re.sub(r'\bfn\s+%s\b' % re.escape(fs.name), 'fn %s__negctl' % fs.name, txt, count=1)
        start_line = ''.join(parts).count('\n') + 1
        parts.append(txt + '\n\n')
        end_line = ''.join(parts).count('\n')
        key = fs.label + ('#%d' % fs.nth if fs.nth else '')
        if key in meta['fns']:
            raise Lost('duplicate function label %s in unit %s' % (key, unit.name))
        meta['fns'][key] = dict(gen=(start_line, end_line), file=fs.file, line=line, nlines=real.count('\n') + 1, loops=info['loops'], fn=fs.name)
        meta['clauses'] += info['clauses']
        meta['rules'] += [(fs.label, r, n) for r, n in info['rules']]
    if cur_impl is not None:
        parts.append('}\n')
    parts.append('} // verus!\nfn main() {}\n')
    return ''.join(parts), meta


SEMANTIC = (
    'postcondition not satisfied', 'precondition not met', 'precondition not satisfied', 'invariant not satisfied',
    'possible arithmetic underflow/overflow', 'assertion failed', 'possible division by zero',
    'decreases not satisfied', 'loop invariant not satisfied', 'assertion not satisfied',
    'possible bit shift underflow/overflow', 'unreachable', 'invariant not satisfied before loop',
    'invariant not satisfied at end of loop body', 'could not prove termination', 'index out of bounds',
    'loop ensures not satisfied', 'failed this',
)
RESOURCE = ('rlimit', 'Resource limit', 'resource limit')


def classify(msg):
    for r in RESOURCE:
        if r in msg:
            return 'resource'
    for s in SEMANTIC:
        if s in msg:
            return 'semantic'
    return 'tool'


def run_verus(unit_name, path, rlimit=None, timeout=600):
    cmd = ['verus', path, '--output-json', '--time', '--triggers-mode', 'silent', '--error-format=json', '--multiple-errors', '5']
    if rlimit:
        cmd += ['--rlimit', str(rlimit)]
    rc, out, err, secs = run(cmd, cwd=os.path.dirname(path), timeout=timeout)
    if rc == -9:
        raise Undecided(unit_name, 'verus timeout after %ds' % timeout)
    try:
        js = json.loads(out[out.index('{'):])
    except Exception:
        js = None
    diags = []
    for ln in err.splitlines():
        ln = ln.strip()
        if ln.startswith('{') and '"$message_type"' in ln:
            try:
                d = json.loads(ln)
            except Exception:
                continue
            if d.get('level') in ('error', 'error: internal compiler error'):
                diags.append(d)
    return dict(rc=rc, json=js, diags=diags, stderr=err, seconds=secs, path=path)


def interpret(unit, meta, gen_text, res):
    """-> (failures, per_fn_status, smt_seconds).  failures: list of dict(fn, kind, where, msg, cls)."""
    lines = gen_text.split('\n')
    fails = []
    for d in res['diags']:
        msg = d.get('message', '')
        if msg.startswith('aborting due to'):
            continue
        # a span inside a macro of another file (panic!, unreachable!, assert! -> vstd/std_specs) is mapped to the place of its expansion in
        # the generated file; line numbers of foreign files mean nothing here
        def local(s0):
            gen_name = os.path.basename(res.get('path', '') or '')
            if not gen_name:
                return s0
            s1, hops = s0, 0
            while s1 is not None and hops < 8 and os.path.basename(str(s1.get('file_name', ''))) != gen_name:
                s1 = (s1.get('expansion') or {}).get('span')
                hops += 1
            if s1 is not None and s1 is not s0:
                s1 = dict(s1, is_primary=s0.get('is_primary'))
            return s1
        d = dict(d, spans=[x for x in (local(s0) for s0 in d.get('spans', [])) if x is not None] or d.get('spans', []))
        prim = [s for s in d.get('spans', []) if s.get('is_primary')]
        sp = prim[0] if prim else (d['spans'][0] if d.get('spans') else None)
        cls = classify(msg)
        # also look at secondary labels (e.g. "failed this postcondition")
        fn = None
        where = ''
        tags = []
        for s in d.get('spans', []):
            if s['line_end'] - s['line_start'] > 2:
                continue
            for ln in range(s['line_start'], s['line_end'] + 1):
                if 0 < ln <= len(lines) and TAG in lines[ln - 1]:
                    tags.append(lines[ln - 1].split(TAG, 1)[1].strip())
        if sp:
            ln = sp['line_start']
            for name, fm in meta['fns'].items():
                if fm['gen'][0] <= ln <= fm['gen'][1]:
                    fn = name
            text = lines[ln - 1] if 0 < ln <= len(lines) else ''
            if TAG in text:
                where = text.split(TAG, 1)[1].strip()
            else:
                where = 'code: ' + ' '.join(text.split())
        lemma = None
        if sp and fn is None:
            for k in range(sp['line_start'] - 1, -1, -1):
                mm = re.match(r'\s*(?:pub\s+)?(?:broadcast\s+)?proof fn (\w+)', lines[k]) if k < len(lines) else None
                if mm:
                    lemma = mm.group(1)
                    break
                if re.match(r'\s*(?:pub\s+)?(?:open\s+|closed\s+)?(?:spec\s+)?fn \w+', lines[k]):
                    break
        if d.get('code'):
            cls = 'tool'   # rustc error with an error code: compile problem
        fails.append(dict(fn=fn, lemma=lemma, msg=msg, where=where, tags=sorted(set(tags)), cls=cls, rendered=d.get('rendered', '')[:3000]))
    per_fn = {}
    smt = 0.0
    js = res['json']
    if js:
        try:
            for mod in js['times-ms']['smt']['smt-run-module-times']:
                for fb in mod.get('function-breakdown', []):
                    nm = fb['function'].split('::')[-1]
                    per_fn[nm] = per_fn.get(nm, True) and bool(fb['success'])
                    smt += fb.get('time-micros', 0) / 1e6
        except Exception:
            pass
    return fails, per_fn, smt


def obligation_name(unit, f):
    w = f['where']
    if f['tags'] and not w.startswith(tuple(t for t in f['tags'])):
        w = w + ' [' + ';'.join(f['tags']) + ']'
    kind = f['msg'].split(':')[0][:60]
    return '%s/%s/%s/%s' % (unit.name, f['fn'] or '?', kind, w)
