#!/usr/bin/env python3
"""Development tool: apply a mutation to a scratch copy of /repo's working tree and run checks on it.

  tools/mutcheck.py <ID>[,<ID>..] --sed 's/a/b/' --file <relpath>      (python re.sub on one file; must change it)
  tools/mutcheck.py <ID> --patch <diff>
Evidence/replays of the mutated run go to /var/tmp/vx-mut-out (never into /verif/evidence).
"""
import argparse, os, re, shutil, subprocess, sys, tempfile

ap = argparse.ArgumentParser()
ap.add_argument('ids')
ap.add_argument('--file')
ap.add_argument('--sub', nargs=2, action='append', metavar=('REGEX', 'REPL'))
ap.add_argument('--patch')
ap.add_argument('--tier', default='quick')
ap.add_argument('--test', action='store_true', help='also run the test suite on the mutant')
a = ap.parse_args()
d = tempfile.mkdtemp(prefix='vx-mut-', dir='/var/tmp')
try:
    for f in ('Cargo.toml', 'Cargo.lock'):
        shutil.copy2('/repo/' + f, d)
    for sub in ('autosar-data', 'autosar-data-specification'):
        shutil.copytree('/repo/' + sub, os.path.join(d, sub), ignore=shutil.ignore_patterns('target'))
    if a.patch:
        subprocess.run(['patch', '-p1', '-i', os.path.abspath(a.patch)], cwd=d, check=True, stdout=subprocess.DEVNULL)
    for rx, rep in a.sub or []:
        p = os.path.join(d, a.file)
        t = open(p).read()
        t2, n = re.subn(rx, rep, t, count=1)
        if n == 0 or t2 == t:
            sys.exit('mutation did not apply: %s' % rx)
        open(p, 'w').write(t2)
    if a.test:
        r = subprocess.run('cargo test --workspace --offline 2>&1 | grep -E "^test result|FAILED|panicked|error" | head', shell=True, cwd=d, capture_output=True, text=True)
        print(r.stdout)
    env = dict(os.environ, VX_REPO=d, VX_EVIDENCE_DIR='/var/tmp/vx-mut-out/evidence', VX_REPLAY_DIR='/var/tmp/vx-mut-out/replays')
    for i in a.ids.split(','):
        r = subprocess.run(['/verif/vx', 'check', i, '--tier', a.tier], env=env, capture_output=True, text=True)
        print('[%s] rc=%d' % (i, r.returncode))
        print(r.stdout.strip()[-3000:])
        if r.returncode not in (0, 1):
            print(r.stderr[-1500:])
finally:
    shutil.rmtree(d, ignore_errors=True)
