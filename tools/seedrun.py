#!/usr/bin/env python3
"""Run the registered checks against every seeded change in /verif/seeded (each applied to a scratch copy of /repo's
working tree, never to /repo) and record what was detected.

  tools/seedrun.py [--only ID-SUBSTRING] [--tier quick] [--jobs 2]
Writes /verif/seeded/<id>/detection.json and prints a table (also to /verif/seeded/DETECTION.md).
"""
import argparse, json, os, shutil, subprocess, sys, tempfile, time
from concurrent.futures import ThreadPoolExecutor

ROOT = '/verif/seeded'


def run_one(sid, tier):
    meta = json.load(open(os.path.join(ROOT, sid, 'meta.json')))
    prop = meta['property']
    d = tempfile.mkdtemp(prefix='vx-seed-', dir='/var/tmp')
    od = tempfile.mkdtemp(prefix='vx-seed-out-', dir='/var/tmp')
    res = dict(id=sid, property=prop, tier=tier)
    try:
        for f in ('Cargo.toml', 'Cargo.lock'):
            shutil.copy2('/repo/' + f, d)
        for sub in ('autosar-data', 'autosar-data-specification'):
            shutil.copytree('/repo/' + sub, os.path.join(d, sub), ignore=shutil.ignore_patterns('target'))
        r = subprocess.run(['patch', '-p1', '-i', os.path.join(ROOT, sid, 'patch.diff')], cwd=d, capture_output=True, text=True)
        if r.returncode != 0:
            res['result'] = 'patch-does-not-apply'
            return res
        env = dict(os.environ, VX_REPO=d, VX_EVIDENCE_DIR=od + '/evidence', VX_REPLAY_DIR=od + '/replays')
        t0 = time.time()
        r = subprocess.run(['/verif/vx', 'check', prop, '--tier', tier], env=env, capture_output=True, text=True, timeout=3 * 3600)
        res['rc'] = r.returncode
        res['seconds'] = round(time.time() - t0)
        res['lines'] = [l for l in r.stdout.splitlines() if l.startswith(('VIOLATION', 'UNDECIDED', 'OK'))][:10]
        obs = []
        for l in res['lines']:
            if l.startswith('VIOLATION'):
                p = l.split('replay=')[1].split()[0]
                try:
                    js = json.load(open(p))
                    obs.append(dict(obligation=js['obligation'], backend=js.get('backend'), kind=js.get('kind'), witness=(js.get('witness') or {}).get('input_text') or (js.get('witness') or {}).get('instance')))
                except Exception:
                    pass
        res['failed_obligations'] = obs
        res['verdict'] = {0: 'MISSED', 1: 'detected', 2: 'undecided'}.get(r.returncode, 'error rc=%d' % r.returncode)
        if r.returncode not in (0, 1, 2):
            res['stderr'] = r.stderr[-1500:]
    finally:
        shutil.rmtree(d, ignore_errors=True)
        shutil.rmtree(od, ignore_errors=True)
    json.dump(res, open(os.path.join(ROOT, sid, 'detection.json'), 'w'), indent=1)
    return res


def main():
    ap = argparse.ArgumentParser()
    ap.add_argument('--only')
    ap.add_argument('--tier', default='quick')
    ap.add_argument('--jobs', type=int, default=2)
    a = ap.parse_args()
    ids = sorted(x for x in os.listdir(ROOT) if os.path.exists(os.path.join(ROOT, x, 'meta.json')))
    if a.only:
        ids = [i for i in ids if any(o in i for o in a.only.split(','))]
    with ThreadPoolExecutor(max_workers=a.jobs) as ex:
        for res in ex.map(lambda i: run_one(i, a.tier), ids):
            print(json.dumps(res)[:1200], flush=True)
    rows = []
    for i in sorted(os.listdir(ROOT)):
        p = os.path.join(ROOT, i, 'detection.json')
        if os.path.exists(p):
            r = json.load(open(p))
            rows.append('| %s | %s | %s | %s | %s |' % (i, r['property'], r.get('verdict'), r.get('tier'), '; '.join('%s [%s]' % (o['obligation'][:110], o.get('backend')) for o in r.get('failed_obligations', [])[:3])))
    open(os.path.join(ROOT, 'DETECTION.md'), 'w').write('| seed | property | verdict | tier | failed obligations (first 3) |\n|---|---|---|---|---|\n' + '\n'.join(rows) + '\n')


if __name__ == '__main__':
    main()
