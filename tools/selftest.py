#!/usr/bin/env python3
"""Self-test of the machinery (DESIGN 3.7): a catalogue of seeded changes, each of which compiles and is meant to
break one property, must yield VIOLATION (rc=1) from the named check; a catalogue of harmless edits must stay
rc=0 (or 2), never 1.  Mutations are applied to scratch copies of /repo's working tree; /repo is never touched.

  tools/selftest.py [--only NAME-SUBSTRING] [--jobs N] [--harmless]
Writes /verif/selftest_results.json.
"""
import argparse
import json
import os
import re
import shutil
import subprocess
import sys
import tempfile
import time
from concurrent.futures import ThreadPoolExecutor

SPEC = 'autosar-data-specification/src/'
MAIN = 'autosar-data/src/'

# (name, property, file, regex, replacement, note)
BREAKING = [
    ('names-drop-final-comparison', 'C18', SPEC + 'enumitem.rs', r'if EnumItem::STRING_TABLE\[item_idx\]\.as_bytes\(\) != input \{', 'if EnumItem::STRING_TABLE[item_idx].len() != input.len() {', 'length-only final comparison'),
    ('names-wrong-modulus', 'C18', SPEC + 'attributename.rs', r'% 101;', '% 102;', 'index may leave the table / transmute range'),
    ('version-wrong-filename', 'C18', SPEC + 'autosarversion.rs', r'Self::Autosar_00047 => "AUTOSAR_00047\.xsd"', 'Self::Autosar_00047 => "AUTOSAR_00074.xsd"', 'filename no longer round-trips'),
    ('version-from-u64-swap', 'C18', SPEC + 'autosarversion.rs', r'0x4000 => Some\(Self::Autosar_00047\)', '0x4000 => Some(Self::Autosar_00048)', 'from_val returns a version with a different value'),
    ('table-accept-range', 'C19', SPEC + 'regex.rs', r'matches!\(state, 24\.\.=32\)', 'matches!(state, 23..=32)', 'regex 2 accept range widened'),
    ('regex7-first-char', 'C19', SPEC + 'regex.rs', r"\(s\[0\]\.is_ascii_alphabetic\(\) \|\| s\[0\] == b'_'\)", 's[0].is_ascii_alphabetic()', 'regex 7 rejects leading underscore'),
    ('regex20-leading-zero', 'C19', SPEC + 'regex.rs', r"s\[0\] != b'0' && s\.iter\(\)\.all\(u8::is_ascii_digit\)", 's.iter().all(u8::is_ascii_digit)', 'regex 20 accepts leading zero'),
    ('lexer-element-start-off-by-one', 'C01', MAIN + 'lexer.rs', r'\(&self\.buffer\[self\.bufpos \+ 1\.\.endpos - 1\], true\)', '(&self.buffer[self.bufpos + 1..endpos], true)', 'self-closing tag keeps the slash (token boundary; no panic, so not a C02 matter: the model is no longer faithful -- C01; the existing tests fail with it anyway)'),
    ('lexer-line-double-count', 'C02', MAIN + 'lexer.rs', r'self\.line \+= count_lines\(text\);\n        self\.bufpos = endpos \+ 1;\n        ArxmlEvent::BeginElement', 'self.line += 2 * count_lines(text);\n        self.bufpos = endpos + 1;\n        ArxmlEvent::BeginElement', 'line numbers exceed the number of lines'),
    ('lexer-comment-short', 'C02', MAIN + 'lexer.rs', r'if text\.len\(\) < 6 \|\|', 'if text.len() < 5 ||', 'comment slice out of range for <!--->'),
    ('trim-revert', 'C02', MAIN + 'parser.rs', r'while len > 0 && input\[len - 1\]', 'while input[len - 1]', 'reintroduce the all-whitespace underflow'),
    ('int-radix-swap', 'C20', MAIN + 'chardata.rs', r'strip_prefix\("0b"\) \{\n                T::from_str_radix\(binstr, 2\)', 'strip_prefix("0b") {\n                T::from_str_radix(binstr, 16)', '0b parsed as hex'),
    ('int-octal-before-hex', 'C20', MAIN + 'chardata.rs', r'T::from_str_radix\(octstr, 8\)\.ok\(\)', 'T::from_str_radix(octstr, 10).ok()', 'leading-0 parsed as decimal'),
    ('checkvalue-maxlen-off-by-one', 'C20', MAIN + 'chardata.rs', r'if stringval\.len\(\) <= max_length\.unwrap_or\(usize::MAX\) \{\n                        return true;', 'if stringval.len() < max_length.unwrap_or(usize::MAX) {\n                        return true;', 'String spec: <= becomes <'),
    ('uint-as-truncating', 'C20', MAIN + 'chardata.rs', r'\} else if let CharacterData::UnsignedInteger\(value\) = self \{\n            T::try_from\(\*value\)\.ok\(\)', '} else if let CharacterData::UnsignedInteger(value) = self {\n            T::try_from(*value & 0xffff_ffff).ok()', 'wide values silently truncated'),
    ('compat-unknown-item', 'C17', MAIN + 'chardata.rs', r'\(false, 0\)', '(true, u32::MAX)', 'unknown enum item reported compatible'),
    ('compat-ok-inverted-mask', 'C17', MAIN + 'chardata.rs', r'\(false, \*enumitem_version_mask\)', '(false, !*enumitem_version_mask)', 'mask of an incompatible value contains the target'),
    ('cmp-cross-kind', 'C14', MAIN + 'chardata.rs', r'\(CharacterData::UnsignedInteger\(_\), _\) => std::cmp::Ordering::Less', '(CharacterData::UnsignedInteger(_), _) => std::cmp::Ordering::Greater', 'uint vs float both Greater'),
    ('cmp-nan-revert', 'C14', MAIN + 'chardata.rs', r'a\.partial_cmp\(b\)\.unwrap_or_else\(\|\| a\.is_nan\(\)\.cmp\(&b\.is_nan\(\)\)\)', 'a.partial_cmp(b).unwrap_or(std::cmp::Ordering::Equal)', 'NaN equal to everything again'),
    ('namecmp-drop-base', 'C14', MAIN + 'element.rs', r'base1\n        \.cmp\(&base2\)\n        \.then\(idx1\.cmp\(&idx2\)\)', 'idx1.cmp(&idx2)', 'index before base: still total? (no: base ignored then name) '),
    ('funnel-strict-inverted', 'C08', MAIN + 'parser.rs', r'if self\.strict \{\n            Err\(wrapped_err\)', 'if !self.strict {\n            Err(wrapped_err)', 'modes swapped'),
    ('funnel-dropped-question-mark', 'C08', MAIN + 'parser.rs', r'self\.optional_error\(ArxmlParserError::AdditionalDataError\)\?;', 'let _ = self.optional_error(ArxmlParserError::AdditionalDataError);', 'trailing data accepted in strict mode'),
    ('checkversion-no-narrow', 'C08', MAIN + 'parser.rs', r'self\.version_compatibility &= item_version;', 'self.version_compatibility |= item_version & 0;', 'compatibility mask no longer narrowed'),
    ('lookups-version-offset', 'C18', SPEC + 'lib.rs', r'VERSION_INFO\[current_ver_list_start \+ last_idx\]', 'VERSION_INFO[ver_list_start + last_idx]', 'mask read from the outer version list for grouped sub-elements'),
    ('lookups-find-version-ignored', 'C18', SPEC + 'lib.rs', r'if \(name == target_name\) && \(version & version_mask != 0\) \{', 'if name == target_name {', 'find_sub_element ignores the version filter'),
    ('lookups-dest-any', 'C18', SPEC + 'lib.rs', r'values\.contains\(&dest_value\)', '!values.is_empty()', 'verify_reference_dest accepts any DEST value for referenceable types'),
    ('hashfunc-short-read', 'C18', SPEC + 'lib.rs', r'while data\.len\(\) >= 4 \{', 'while data.len() >= 3 {', 'slice [..4] of a 3-byte rest: panic for inputs of length 3 mod 4'),
    ('version-fromstr-alias', 'C18', SPEC + 'autosarversion.rs', r'"AUTOSAR_00053\.xsd" => Ok\(Self::Autosar_00053\),', '"AUTOSAR_00053.xsd" => Ok(Self::Autosar_00053),\n            "AUTOSAR_LATEST.xsd" => Ok(Self::Autosar_00053),', 'from_str accepts a text that is no file name'),
    ('regex24-limit', 'C19', SPEC + 'regex.rs', r'part\.len\(\) <= 128 && validate_regex_8\(part\)', 'part.len() <= 129 && validate_regex_8(part)', '129-byte path segment accepted'),
    ('regex17-len', 'C19', SPEC + 'regex.rs', r's\.len\(\) == 17\n', 's.len() >= 17\n', 'longer MAC-like texts accepted'),
    ('regex15-groups', 'C19', SPEC + 'regex.rs', r'parts\.len\(\) == 8', 'parts.len() >= 8', 'more than 8 groups accepted'),
    ('regex4-empty', 'C19', SPEC + 'regex.rs', r'\(!s\.is_empty\(\) && s\.iter\(\)\.all\(u8::is_ascii_digit\)\) \|\| s == b"ANY"', '(s.iter().all(u8::is_ascii_digit)) || s == b"ANY"', 'empty string accepted by regex 4'),
    ('parse-bool-swap', 'C20', MAIN + 'chardata.rs', r'"true" \| "1" => Some\(true\),\n(\s*)"false" \| "0" => Some\(false\),', '"true" | "0" => Some(true),\n\\1"false" | "1" => Some(false),', '"0" is true'),
    ('parse-checkvalue-enum-any-entry', 'C20', MAIN + 'chardata.rs', r'if \*version_mask & \(file_version as u32\) != 0 \{\n(\s*)return true;', 'if *version_mask != 0 {\n\\1return true;', 'enum value accepted in any version'),
    ('namecmp-drop-final', 'C14', MAIN + 'element.rs', r'\n        \.then_with\(\|\| name1\.cmp\(name2\)\)', '', 'a01 and a1 compare Equal'),
    ('verify-end-strict-ok', 'C08', MAIN + 'parser.rs', r'self\.optional_error\(ArxmlParserError::AdditionalDataError\)\?;\n            Ok\(\(\)\)', 'if !self.strict { self.optional_error(ArxmlParserError::AdditionalDataError)?; }\n            Ok(())', 'trailing data accepted in strict mode'),
    ('conflict-choice-arm-dropped', 'C08', MAIN + 'parser.rs', r'ContentMode::Choice => \{\s*self\.optional_error\(ArxmlParserError::ElementChoiceConflict', 'ContentMode::Bag => { self.optional_error(ArxmlParserError::ElementChoiceConflict', 'two alternatives of a choice accepted in strict mode'),
    ('multiplicity-only-one', 'C08', MAIN + 'parser.rs', r'if multiplicity != ElementMultiplicity::Any \{\s*// there is a conflict', 'if multiplicity == ElementMultiplicity::One { // there is a conflict', 'repeated ZeroOrOne element accepted'),
    ('multiplicity-choice-skipped', 'C08', MAIN + 'parser.rs', r'if datatype_mode == ContentMode::Sequence \|\| datatype_mode == ContentMode::Choice', 'if datatype_mode == ContentMode::Sequence', 'repeated single-occurrence element inside a choice accepted'),
    ('spec-checked-any-version', 'C08', MAIN + 'parser.rs', r'self\.check_version\(\s*version_mask,', 'self.check_version(u32::MAX,', 'element of another version accepted in strict mode'),
    ('conflict-first-pair-skipped', 'C08', MAIN + 'parser.rs', r'if elem_indices\.is_empty\(\) \|\| \(elem_indices == new_elem_indices\)', 'if elem_indices.len() < 2 || (elem_indices == new_elem_indices)', 'choice conflict not checked for top-level alternatives'),
    ('common-group-stops-early', 'C18', SPEC + 'lib.rs', r'SubElement::Group\(groupid\) => \{\n(\s*)result = \*groupid;\n', 'SubElement::Group(groupid) => {\n\\1if prefix_len == 0 { result = *groupid; }\n', 'find_common_group names the outermost group only'),
    ('container-mode-own-type', 'C18', SPEC + 'lib.rs', r'if element_indices\.len\(\) < 2 \{\n(\s*)// length == 1', 'if element_indices.len() < 3 {\n\\1// length == 1', 'container mode of a grouped element read from the type'),
    ('parse-element-multiplicity-result-dropped', 'C08', MAIN + 'parser.rs', r'self\.check_multiplicity\(name, element\.elemtype, &elem_idx, &element\)\?;', 'let _ = self.check_multiplicity(name, element.elemtype, &elem_idx, &element);', 'repeated single-occurrence element accepted (result of the check dropped)'),
    ('parse-element-shortname-check-lenient-only', 'C08', MAIN + 'parser.rs', r'\} else if element\.elemtype\.is_named_in_version\(self\.fileversion\) \{', '} else if element.elemtype.is_named_in_version(self.fileversion) && !self.strict {', 'missing SHORT-NAME accepted by strict loading'),
    ('parse-element-multiplicity-skipped-when-advancing', 'C08', MAIN + 'parser.rs', r'if !element\.content\.is_empty\(\) \{\n(\s*)self\.check_multiplicity', 'if !element.content.is_empty() && element.content.len() % 2 == 1 {\n\\1self.check_multiplicity', 'multiplicity checked only for every other child'),
    ('compat-shortname-own-type', 'C17', MAIN + 'element.rs', r'if elemtype_new\.is_named_in_version\(target_version\) && self\.get_sub_element\(ElementName::ShortName\)\.is_none\(\) \{', 'if self.element_type().is_named_in_version(target_version) && self.get_sub_element(ElementName::ShortName).is_none() {', 'SHORT-NAME test with the type of the source version (shape of defect 85be36c)'),
    ('compat-chardata-ignored', 'C17', MAIN + 'element.rs', r'cdata\.check_version_compatibility\(value_spec, target_version\);\n(\s*)if !is_compatible \{', 'cdata.check_version_compatibility(value_spec, target_version);\n\\1if !is_compatible && value_version_mask == 0 {', 'incompatible character data reported only for unlisted values (shape of defect f4badea)'),
    ('attr-required-only-with-attributes', 'C08', MAIN + 'parser.rs', r'if required && !attributes\.iter\(\)\.any\(', 'if required && !attributes.is_empty() && !attributes.iter().any(', 'missing required attribute accepted when the element has no attributes at all'),
    ('attr-version-check-result-dropped', 'C08', MAIN + 'parser.rs', r'(version: self\.fileversion,\n\s*\},\n\s*\))\?;\n(\s*)let attr_value = self\.parse_character_data', '\\1.ok();\n\\2let attr_value = self.parse_character_data', 'attribute of another version accepted in strict mode'),
    ('sort-ordered-containers', 'C14', MAIN + 'elementraw.rs', r'if !self\.elemtype\.is_ordered\(\) && len > 1 \{', 'if len > 1 {', 'ordered containers are sorted'),
    ('range-start-not-advanced', 'C07', MAIN + 'elementraw.rs', r'start_pos = idx \+ 1;\n(\s*)end_pos = idx \+ 1;', 'end_pos = idx + 1;', 'range starts before an earlier sibling'),
    ('create-at-no-lower-bound', 'C07', MAIN + 'elementraw.rs', r'if start_pos <= position && position <= end_pos \{\n(\s*)self\.create_sub_element_inner', 'if position <= end_pos {\n\\1self.create_sub_element_inner', 'creation before the start of the range accepted'),
    ('copyinner-wrong-position', 'C13', MAIN + 'elementraw.rs', r'self\.content\.insert\(position, ElementContent::Element\(newelem\.clone\(\)\)\);', 'self.content.insert(self.content.len(), ElementContent::Element(newelem.clone()));', 'the copy is appended instead of inserted at the position'),
    ('uniquename-single-try', 'C13', MAIN + 'elementraw.rs', r'while model\.get_element_by_path\(&path\)\.is_some\(\) \{', 'if model.get_element_by_path(&path).is_some() {', 'only one alternative name is tried'),
    ('deepcopy-attr-mask-dropped', 'C13', MAIN + 'elementraw.rs', r'if target_version\.compatible\(attr_version_mask\)\n\s*&& attribute', 'if attribute', 'attributes that do not exist in the target version are kept'),
    ('deepcopy-subelement-any-version', 'C13', MAIN + 'elementraw.rs', r'\.find_sub_element\(sub_elem_name, target_version as u32\)\n(\s*)\.is_some\(\)', '.find_sub_element(sub_elem_name, u32::MAX)\n\\1.is_some()', 'sub-elements of other versions are kept'),
    ('deepcopy-required-attr-dropped', 'C13', MAIN + 'elementraw.rs', r'\} else if required \{\n\s*return Err\(AutosarDataError::VersionIncompatibleData \{\n\s*version: target_version,\n\s*\}\);\n(\s*)\} else \{', '} else {', 'a required attribute that cannot be kept is dropped silently'),
    ('move-guard-one-sided', 'C07', MAIN + 'element.rs', r'if version != version_src \{', 'if (version as u32) > (version_src as u32) {', 'moves from an older into a newer file are accepted'),
    ('preserve-string-trimmed', 'C01', MAIN + 'parser.rs', r'let text = match std::str::from_utf8\(raw_text\) \{', 'let text = match std::str::from_utf8(trimmed_input) {', 'whitespace-preserving strings lose their padding'),
    ('remove-shortname-guard-weakened', 'C07', MAIN + 'elementraw.rs', r'if self\.elemtype\.is_named\(\) && sub_element_locked\.elemname == ElementName::ShortName \{', 'if self.elemtype.is_named() && sub_element_locked.elemname == ElementName::ShortName && pos > 0 {', 'the SHORT-NAME (always at position 0) can be removed'),
    ('remove-content-item-any-kind', 'C07', MAIN + 'element.rs', r'if let ElementContent::CharacterData\(_\) = element\.content\[position\] \{', 'if let ElementContent::CharacterData(_) | ElementContent::Element(_) = element.content[position] {', 'remove_character_content_item also removes sub-elements (without un-registering them)'),
    ('move-at-no-lower-bound', 'C07', MAIN + 'elementraw.rs', r'if start_pos <= position && position <= end_pos \{\n(\s*)if model == model_src \{', 'if position <= end_pos {\n\\1if model == model_src {', 'a move to a position before the range is accepted'),
    ('move-same-parent-last-position', 'C07', MAIN + 'elementraw.rs', r'if position < end_pos \{\n(\s*)self\.move_element_position', 'if position <= end_pos {\n\\1self.move_element_position', 'the defect repaired by d898a20 comes back'),
    ('set-attribute-string-no-version', 'C07', MAIN + 'elementraw.rs', r'if !version\.compatible\(attr_version\) \{', 'if !version.compatible(attr_version) && attr_version == 0 {', 'set_attribute_string accepts attributes of other versions'),
]

HARMLESS = [
    ('regex1-equivalent-bound', 'C19', SPEC + 'regex.rs', r's\.len\(\) >= 3 && \(s\.starts_with', 's.len() > 2 && (s.starts_with', 'equivalent comparison'),
    ('lookups-equivalent-empty-test', 'C18', SPEC + 'lib.rs', r'if element_indices\.is_empty\(\) \{\n            return None;', 'if element_indices.len() == 0 {\n            return None;', 'equivalent emptiness test'),
    ('attr-cmp-reversed-second-key', 'C14', 'autosar-data/src/lib.rs', r'\.then\(self\.content\.cmp\(&other\.content\)\)', '.then(other.content.cmp(&self.content))', 'still a total order consistent with equality (descending second key)'),
    ('parse-integer-comment', 'C20', MAIN + 'chardata.rs', r'// handle this first to avoid hitting the octal case\n                T::try_from', '// zero is special: handle it first to avoid hitting the octal case\n                T::try_from', 'comment only'),
    ('lexer-equivalent-eof-test', 'C02', MAIN + 'lexer.rs', r'if self\.bufpos == self\.buffer\.len\(\) \{\n                    break', 'if self.bufpos >= self.buffer.len() {\n                    break', 'equivalent under the invariant bufpos <= len'),
    ('checkvalue-arm-order', 'C20', MAIN + 'chardata.rs', r'(            CharacterDataSpec::UnsignedInteger => \{\n                if let CharacterData::UnsignedInteger\(_\) = &value \{\n                    return true;\n                \}\n            \}\n)(            CharacterDataSpec::Float => \{\n                if let CharacterData::Float\(_\) = &value \{\n                    return true;\n                \}\n            \}\n)', '\\2\\1', 'two disjoint match arms swapped'),
    ('lexer-rename-local', 'C02', MAIN + 'lexer.rs', r'let mut all_whitespace = true;', 'let mut all_whitespace = true; let _unused_marker = 0;', 'added dead local'),
    ('trim-reorder', 'C02', MAIN + 'parser.rs', r'let mut len = input\.len\(\);\n    if len > 0 \{', 'let mut len = input.len();\n    if !input.is_empty() {', 'equivalent condition'),
    ('regex-doc-comment', 'C19', SPEC + 'regex.rs', r'/// validate \^\(\[0-9\]\+\|ANY\)\$', '/// validate ^([0-9]+|ANY)$ (digits or ANY)', 'comment only'),
    ('chardata-equivalent-le', 'C20', MAIN + 'chardata.rs', r'if version as u32 & version_mask != 0 \{', 'if version_mask & version as u32 != 0 {', 'commuted operands'),
]


def run_one(m, tier='quick'):
    name, prop, rel, rx, rep, note = m
    d = tempfile.mkdtemp(prefix='vx-st-', dir='/var/tmp')
    out = dict(name=name, property=prop, note=note)
    try:
        for f in ('Cargo.toml', 'Cargo.lock'):
            shutil.copy2('/repo/' + f, d)
        for sub in ('autosar-data', 'autosar-data-specification'):
            shutil.copytree('/repo/' + sub, os.path.join(d, sub), ignore=shutil.ignore_patterns('target'))
        p = os.path.join(d, rel)
        t = open(p).read()
        t2, n = re.subn(rx, rep, t, count=1)
        if n == 0 or t2 == t:
            out['result'] = 'mutation-did-not-apply'
            return out
        open(p, 'w').write(t2)
        t0 = time.time()
        r = subprocess.run('cargo test --workspace --offline 2>&1 | grep -E "^test result|error(\\[|:)" ', shell=True, cwd=d, capture_output=True, text=True, timeout=1800)
        out['tests'] = 'pass' if ('test result: ok' in r.stdout and 'FAILED' not in r.stdout and 'error' not in r.stdout) else 'FAIL: ' + r.stdout[-300:]
        shutil.rmtree(os.path.join(d, 'target'), ignore_errors=True)
        od = tempfile.mkdtemp(prefix='vx-st-out-', dir='/var/tmp')
        env = dict(os.environ, VX_REPO=d, VX_EVIDENCE_DIR=od + '/evidence', VX_REPLAY_DIR=od + '/replays')
        r = subprocess.run(['/verif/vx', 'check', prop, '--tier', tier], env=env, capture_output=True, text=True, timeout=7200)
        out['rc'] = r.returncode
        out['lines'] = [l for l in r.stdout.splitlines() if l.startswith(('VIOLATION', 'UNDECIDED', 'OK'))][:8]
        out['seconds'] = round(time.time() - t0)
        shutil.rmtree(od, ignore_errors=True)
    except Exception as e:
        out['result'] = 'error: %r' % e
    finally:
        shutil.rmtree(d, ignore_errors=True)
    return out


def main():
    ap = argparse.ArgumentParser()
    ap.add_argument('--only')
    ap.add_argument('--jobs', type=int, default=2)
    ap.add_argument('--harmless', action='store_true')
    ap.add_argument('--out', default='/verif/selftest_results.json')
    a = ap.parse_args()
    cat = [(m, 'breaking') for m in BREAKING] + [(m, 'harmless') for m in HARMLESS]
    if a.harmless:
        cat = [c for c in cat if c[1] == 'harmless']
    if a.only:
        only = a.only.split(',')
        cat = [c for c in cat if any(o in c[0][0] or o == c[0][1] for o in only)]
    results = []
    with ThreadPoolExecutor(max_workers=a.jobs) as ex:
        for (m, kind), res in zip(cat, ex.map(lambda c: run_one(c[0]), cat)):
            res['kind'] = kind
            res['verdict'] = ('detected' if res.get('rc') == 1 else 'MISSED' if res.get('rc') == 0 else 'undecided' if res.get('rc') == 2 else res.get('result')) if kind == 'breaking' else \
                             ('ok' if res.get('rc') in (0, 2) else 'FALSE ALARM' if res.get('rc') == 1 else res.get('result'))
            print(json.dumps(res), flush=True)
            results.append(res)
    json.dump(results, open(a.out, 'w'), indent=1)
    bad = [r for r in results if r['verdict'] in ('MISSED', 'FALSE ALARM')]
    print('SUMMARY: %d mutations, %d detected, %d missed/false alarms' % (len(results), len([r for r in results if r['verdict'] == 'detected']), len(bad)))
    sys.exit(1 if bad else 0)


if __name__ == '__main__':
    main()
