#!/usr/bin/env python3
"""Run the checks against behaviour-preserving refactorings kept in /verif/harmless/<id>/patch.diff (written by sub-agents that saw
only the repository).  A check may answer OK (0) or UNDECIDED (2) on such a patch -- anchors can be lost -- but never VIOLATION (1).

  tools/harmlessrun.py [--only ID-SUBSTRING] [--jobs 2]
Writes /verif/harmless/<id>/result.json and /verif/harmless/RESULTS.md.
"""
import argparse, json, os, shutil, subprocess, tempfile, time
from concurrent.futures import ThreadPoolExecutor

ROOT = '/verif/harmless'
PROPS_FOR = {'lexer.rs': ['C02', 'C08', 'C01'], 'parser.rs': ['C02', 'C08', 'C01'], 'regex.rs': ['C19'], 'specification/src/lib.rs': ['C18', 'C07', 'C08', 'C17'],
             'chardata.rs': ['C20', 'C17', 'C14', 'C01', 'C08'], 'src/element.rs': ['C14', 'C17', 'C07'], 'elementraw.rs': ['C13', 'C07', 'C14'], 'arxmlfile.rs': ['C17'], 'autosarmodel.rs': ['C13']}


def props_of(patch):
    out = []
    for l in open(patch):
        if l.startswith('+++ '):
            for k, ps in PROPS_FOR.items():
                if l.strip().endswith(k):
                    out += [p for p in ps if p not in out]
    return out or ['C02']


def run_one(hid):
    d = tempfile.mkdtemp(prefix='vx-harm-', dir='/var/tmp')
    od = tempfile.mkdtemp(prefix='vx-harm-out-', dir='/var/tmp')
    patch = os.path.join(ROOT, hid, 'patch.diff')
    res = dict(id=hid, checks={})
    try:
        for f in ('Cargo.toml', 'Cargo.lock'):
            shutil.copy2('/repo/' + f, d)
        for sub in ('autosar-data', 'autosar-data-specification'):
            shutil.copytree('/repo/' + sub, os.path.join(d, sub), ignore=shutil.ignore_patterns('target'))
        r = subprocess.run(['patch', '-p1', '-i', patch], cwd=d, capture_output=True, text=True)
        if r.returncode != 0:
            res['result'] = 'patch-does-not-apply'
            return res
        r = subprocess.run('cargo test --workspace --offline 2>&1 | grep -E "^test result|FAILED|error(\\[|:)"', shell=True, cwd=d, capture_output=True, text=True)
        res['tests_pass'] = 'FAILED' not in r.stdout and 'error' not in r.stdout and 'test result: ok' in r.stdout
        shutil.rmtree(os.path.join(d, 'target'), ignore_errors=True)
        env = dict(os.environ, VX_REPO=d, VX_EVIDENCE_DIR=od + '/evidence', VX_REPLAY_DIR=od + '/replays')
        for p in props_of(patch):
            t0 = time.time()
            r = subprocess.run(['/verif/vx', 'check', p, '--tier', 'quick'], env=env, capture_output=True, text=True, timeout=3 * 3600)
            lines = [l for l in r.stdout.splitlines() if l.startswith(('VIOLATION', 'UNDECIDED', 'OK'))][:6]
            obs = []
            for l in lines:
                if l.startswith('VIOLATION'):
                    try:
                        obs.append(json.load(open(l.split('replay=')[1].split()[0]))['obligation'])
                    except Exception:
                        pass
            res['checks'][p] = dict(rc=r.returncode, seconds=round(time.time() - t0), lines=[l[:300] for l in lines], obligations=obs)
        res['verdict'] = 'FALSE ALARM' if any(c['rc'] == 1 for c in res['checks'].values()) else ('undecided' if any(c['rc'] == 2 for c in res['checks'].values()) else 'ok')
    finally:
        shutil.rmtree(d, ignore_errors=True)
        shutil.rmtree(od, ignore_errors=True)
    json.dump(res, open(os.path.join(ROOT, hid, 'result.json'), 'w'), indent=1)
    return res


def main():
    ap = argparse.ArgumentParser()
    ap.add_argument('--only')
    ap.add_argument('--jobs', type=int, default=2)
    a = ap.parse_args()
    ids = sorted(x for x in os.listdir(ROOT) if os.path.exists(os.path.join(ROOT, x, 'patch.diff')))
    if a.only:
        ids = [i for i in ids if any(o in i for o in a.only.split(','))]
    with ThreadPoolExecutor(max_workers=a.jobs) as ex:
        for res in ex.map(run_one, ids):
            print(json.dumps(res)[:900], flush=True)
    rows = []
    for i in sorted(os.listdir(ROOT)):
        p = os.path.join(ROOT, i, 'result.json')
        if os.path.exists(p):
            r = json.load(open(p))
            rows.append('| %s | %s | %s | %s |' % (i, r.get('tests_pass'), r.get('verdict'), '; '.join('%s rc=%d %s' % (k, v['rc'], ','.join(o[:80] for o in v['obligations'])) for k, v in r.get('checks', {}).items())))
    open(os.path.join(ROOT, 'RESULTS.md'), 'w').write('| refactoring | tests pass | verdict | checks |\n|---|---|---|---|\n' + '\n'.join(rows) + '\n')


if __name__ == '__main__':
    main()
