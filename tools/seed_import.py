#!/usr/bin/env python3
"""Import a seeded change produced by a sub-agent in a scratch worktree, and confirm it independently:
   tests pass with the change; the demonstration fails with it and passes without it.
   tools/seed_import.py <worktree> <seed-id> <property>
Writes /verif/seeded/<seed-id>/{patch.diff, demo file(s), NOTES.md, meta.json}."""
import json, os, shutil, subprocess, sys, tempfile

wt, sid, prop = sys.argv[1:4]
out = '/verif/seeded/' + sid
os.makedirs(out, exist_ok=True)
st = subprocess.run(['git', '-C', wt, 'status', '--porcelain'], capture_output=True, text=True).stdout
new_files = [l[3:].strip() for l in st.splitlines() if l.startswith('??') and not l[3:].strip() in ('NOTES.md', 'PROPERTY.json', 'Cargo.lock') and not l[3:].startswith('target')]
diff = subprocess.run(['git', '-C', wt, 'diff'], capture_output=True, text=True).stdout
open(out + '/patch.diff', 'w').write(diff)
demos = []
for f in new_files:
    src = os.path.join(wt, f)
    if os.path.isdir(src):
        for root, _, files in os.walk(src):
            for x in files:
                rel = os.path.relpath(os.path.join(root, x), wt)
                demos.append(rel)
    else:
        demos.append(f)
for f in demos:
    os.makedirs(os.path.dirname(os.path.join(out, 'demo', f)), exist_ok=True)
    shutil.copy2(os.path.join(wt, f), os.path.join(out, 'demo', f))
if os.path.exists(os.path.join(wt, 'NOTES.md')):
    shutil.copy2(os.path.join(wt, 'NOTES.md'), out + '/NOTES.md')

d = tempfile.mkdtemp(prefix='vx-seed-', dir='/var/tmp')
res = {}
try:
    for f in ('Cargo.toml', 'Cargo.lock'):
        shutil.copy2('/repo/' + f, d)
    for sub in ('autosar-data', 'autosar-data-specification'):
        shutil.copytree('/repo/' + sub, os.path.join(d, sub), ignore=shutil.ignore_patterns('target'))
    for f in demos:
        os.makedirs(os.path.dirname(os.path.join(d, f)), exist_ok=True)
        shutil.copy2(os.path.join(out, 'demo', f), os.path.join(d, f))
    env = dict(os.environ, CARGO_NET_OFFLINE='true')
    is_example = any(f.endswith('examples/seed_demo.rs') for f in demos)
    pkg = 'autosar-data-specification' if any(f.startswith('autosar-data-specification/examples/') for f in demos) else 'autosar-data'
    demo_cmd = ('cargo run -q --offline -p %s --example seed_demo' % pkg) if is_example else 'cargo test --workspace --offline seed'
    def sh(cmd):
        r = subprocess.run(cmd, shell=True, cwd=d, env=env, capture_output=True, text=True)
        return r.returncode, (r.stdout + r.stderr)[-1500:]
    rc0, o0 = sh(demo_cmd)
    res['demo_without_change'] = dict(rc=rc0, tail=o0[-400:])
    r = subprocess.run(['patch', '-p1', '-i', out + '/patch.diff'], cwd=d, capture_output=True, text=True)
    res['patch_applies'] = r.returncode == 0
    rc1, o1 = sh('cargo test --workspace --offline 2>&1 | grep -E "^test result|FAILED|error(\\[|:)"')
    res['tests_with_change'] = dict(ok=('FAILED' not in o1 and 'error' not in o1 and 'test result: ok' in o1), tail=o1[-600:])
    rc2, o2 = sh(demo_cmd)
    res['demo_with_change'] = dict(rc=rc2, tail=o2[-600:])
    res['confirmed'] = bool(res['patch_applies'] and res['tests_with_change']['ok'] and rc0 == 0 and rc2 != 0)
finally:
    shutil.rmtree(d, ignore_errors=True)
meta = dict(id=sid, property=prop, demo_files=demos, demo_cmd=demo_cmd, confirmation=res,
            ran=['demo without change (expect pass)', 'cargo test --workspace --offline with change (expect pass)', 'demo with change (expect fail)'])
json.dump(meta, open(out + '/meta.json', 'w'), indent=1)
print(json.dumps(res, indent=1)[:2500])
