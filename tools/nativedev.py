#!/usr/bin/env python3
"""Development helper (not used by any registered check): keep one scratch copy of /repo with the harness files attached
under /var/tmp/vxdev, rebuild the native evaluator incrementally and run it with the given arguments.

    tools/nativedev.py ground lib tables_modes
    tools/nativedev.py --fresh api editconform 2000
Remove /var/tmp/vxdev when done (it holds a cargo target directory).
"""
import os
import shutil
import sys

sys.path.insert(0, os.path.dirname(os.path.dirname(os.path.abspath(__file__))))
from vxlib.common import Scratch, run, REPO  # noqa
from vxlib import kani as kn  # noqa

DEV = '/var/tmp/vxdev'


def main():
    args = sys.argv[1:]
    fresh = False
    if args and args[0] == '--fresh':
        fresh = True
        args = args[1:]
    if fresh and os.path.isdir(DEV):
        shutil.rmtree(DEV)
    s = Scratch('vxdev')
    if not os.path.isdir(DEV):
        os.makedirs(DEV)
    s.dir = DEV
    # refresh sources (keep target/)
    for f in ('Cargo.toml', 'Cargo.lock'):
        shutil.copy2(os.path.join(REPO, f), os.path.join(DEV, f))
    for d in ('autosar-data', 'autosar-data-specification'):
        dst = os.path.join(DEV, d)
        if os.path.isdir(dst):
            shutil.rmtree(dst)
        shutil.copytree(os.path.join(REPO, d), dst, ignore=shutil.ignore_patterns('target'))
    os.makedirs(os.path.join(DEV, '.cargo'), exist_ok=True)
    open(os.path.join(DEV, '.cargo', 'config.toml'), 'w').write('[net]\noffline = true\n')
    kn.attach(s)
    b, secs = kn.build_native(s)
    print('built %s in %.1fs' % (b, secs), file=sys.stderr)
    if args:
        rc, out, err, secs = run([b] + args, timeout=3600)
        sys.stdout.write(out)
        sys.stderr.write(err[-3000:])
        print('rc=%s %.1fs' % (rc, secs), file=sys.stderr)
        sys.exit(rc)


if __name__ == '__main__':
    main()
