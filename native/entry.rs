// Native side of /verif: replays harness bodies on the real (scratch-copied) code, searches
// witnesses for failed obligations, and evaluates the closed instances of C18.
use std::panic;

pub fn run(module: &str, name: &str, vals: Vec<Vec<u8>>) -> bool {
    if let Some(r) = autosar_data::verif_entry::run(module, name, vals.clone()) {
        return r;
    }
    if let Some(r) = autosar_data_specification::verif_entry::run(module, name, vals) {
        return r;
    }
    false
}

fn check(module: &str, name: &str, input: &[u8]) -> Option<bool> {
    if let Some(r) = autosar_data::verif_entry::check(module, name, input) {
        return Some(r);
    }
    autosar_data_specification::verif_entry::check(module, name, input)
}

fn hex(b: &[u8]) -> String {
    b.iter().map(|x| format!("{:02x}", x)).collect::<Vec<_>>().join("")
}

fn unhex(s: &str) -> Vec<u8> {
    (0..s.len() / 2).map(|i| u8::from_str_radix(&s[2 * i..2 * i + 2], 16).unwrap()).collect()
}

/// find <module> <check> <alphabet-hex> <maxlen> [<prefix-hex>] : first input (shortlex) on which the executable
/// contract `check` panics.
fn finder(args: &[String]) {
    let module = &args[0];
    let name = &args[1];
    let alphabet = unhex(&args[2]);
    let maxlen: usize = args[3].parse().unwrap();
    let prefix = if args.len() > 4 { unhex(&args[4]) } else { Vec::new() };
    // optional: only accept a panic whose message mentions this location (file.rs:line)
    let want = if args.len() > 5 { args[5].clone() } else { String::new() };
    let mut tried: u64 = 0;
    for len in 0..=maxlen {
        let mut idx = vec![0usize; len];
        loop {
            let mut input: Vec<u8> = prefix.clone();
            input.extend(idx.iter().map(|i| alphabet[*i]));
            tried += 1;
            let (m, n, inp) = (module.clone(), name.clone(), input.clone());
            let r = panic::catch_unwind(move || check(&m, &n, &inp));
            match r {
                Ok(Some(true)) => {}
                Ok(Some(false)) | Ok(None) => {
                    println!("{{\"found\":false,\"error\":\"unknown check\"}}");
                    return;
                }
                Err(_) => {
                    let msg = super::LAST.lock().unwrap().take().unwrap_or_default();
                    if want.is_empty() || msg.contains(&want) {
                        println!("{{\"found\":true,\"input\":\"{}\",\"message\":{:?},\"tried\":{}}}", hex(&input), msg, tried);
                        return;
                    }
                }
            }
            // next
            let mut k = len;
            loop {
                if k == 0 { break; }
                k -= 1;
                idx[k] += 1;
                if idx[k] < alphabet.len() { break; }
                idx[k] = 0;
                if k == 0 { k = usize::MAX; break; }
            }
            if len == 0 || k == usize::MAX { break; }
        }
    }
    println!("{{\"found\":false,\"tried\":{}}}", tried);
}

/// one <module> <check> <input-hex>
fn one(args: &[String]) {
    let input = unhex(&args[2]);
    let (m, n) = (args[0].clone(), args[1].clone());
    let r = panic::catch_unwind(move || check(&m, &n, &input));
    match r {
        Ok(Some(true)) => println!("{{\"outcome\":\"ok\"}}"),
        Ok(_) => println!("{{\"outcome\":\"unknown-check\"}}"),
        Err(_) => {
            let msg = super::LAST.lock().unwrap().take().unwrap_or_default();
            println!("{{\"outcome\":\"panic\",\"message\":{:?}}}", msg);
        }
    }
}

/// ground <module> <which>
fn ground(args: &[String]) {
    let r = autosar_data_specification::verif_entry::ground(&args[0], &args[1]).or_else(|| autosar_data::verif_entry::ground(&args[0], &args[1]));
    match r {
        Some(s) => println!("{}", s),
        None => { println!("UNKNOWN"); std::process::exit(3) }
    }
}

/// batch <module> <check> <file-with-one-hex-input-per-line> : run the executable contract on every input,
/// print the failing inputs (at most 200) and a summary line
fn batch(args: &[String]) {
    let text = std::fs::read_to_string(&args[2]).unwrap();
    let mut tried = 0u64;
    let mut failed = 0u64;
    for line in text.lines() {
        let input = unhex(line.trim());
        tried += 1;
        let (m, n, inp) = (args[0].clone(), args[1].clone(), input.clone());
        let r = panic::catch_unwind(move || check(&m, &n, &inp));
        match r {
            Ok(Some(true)) => {}
            Ok(_) => { println!("{{\"error\":\"unknown check\"}}"); return; }
            Err(_) => {
                failed += 1;
                let msg = super::LAST.lock().unwrap().take().unwrap_or_default();
                if failed <= 200 { println!("{{\"input\":\"{}\",\"message\":{:?}}}", hex(&input), msg); }
            }
        }
    }
    println!("{{\"tried\":{},\"failed\":{}}}", tried, failed);
}

/// api sort3 <maxlen> : C14 on the public API, bounded.  For every set of three distinct item names over a
/// small alphabet (the names of the property text, e.g. a2 / a10 / a1b, are in it): build three sibling
/// AR-PACKAGEs in each of the 6 orders, sort the model, serialize -- all six results must be identical,
/// sorting must not panic, must be idempotent and must keep every element.
fn api_sort3(args: &[String]) {
    use autosar_data::*;
    let maxlen: usize = args.get(0).and_then(|s| s.parse().ok()).unwrap_or(3);
    let tail = [b'a', b'b', b'0', b'1', b'2'];
    let mut names: Vec<String> = Vec::new();
    for first in [b'a', b'b'] {
        let mut cur: Vec<Vec<u8>> = vec![vec![first]];
        for _ in 1..=maxlen {
            for c in &cur { names.push(String::from_utf8(c.clone()).unwrap()); }
            if cur[0].len() == maxlen { break; }
            cur = cur.iter().flat_map(|c| tail.iter().map(move |t| { let mut v = c.clone(); v.push(*t); v })).collect();
        }
    }
    names.sort(); names.dedup();
    let build = |order: &[&String]| -> Result<(String, String), String> {
        let model = AutosarModel::new();
        model.create_file("f.arxml", AutosarVersion::LATEST).map_err(|e| e.to_string())?;
        let pkgs = model.root_element().create_sub_element(ElementName::ArPackages).map_err(|e| e.to_string())?;
        for n in order { pkgs.create_named_sub_element(ElementName::ArPackage, n).map_err(|e| e.to_string())?; }
        model.sort();
        let once = model.root_element().serialize();
        model.sort();
        let twice = model.root_element().serialize();
        Ok((once, twice))
    };
    let mut n = 0u64;
    for i in 0..names.len() {
        for j in (i + 1)..names.len() {
            for k in (j + 1)..names.len() {
                let t = [&names[i], &names[j], &names[k]];
                let perms = [[0, 1, 2], [0, 2, 1], [1, 0, 2], [1, 2, 0], [2, 0, 1], [2, 1, 0]];
                let mut first: Option<String> = None;
                for p in perms {
                    let order = [t[p[0]], t[p[1]], t[p[2]]];
                    n += 1;
                    match build(&order) {
                        Ok((once, twice)) => {
                            if once != twice { println!("FAIL sorting is not idempotent for siblings {:?}", order); return; }
                            for nm in &order { if !once.contains(&format!("<SHORT-NAME>{}</SHORT-NAME>", nm)) { println!("FAIL sorting lost element {:?} of {:?}", nm, order); return; } }
                            match &first { None => first = Some(once), Some(f) => if *f != once {
                                println!("FAIL sorted result depends on the previous order: siblings {:?} inserted as {:?} sort differently than inserted as {:?}", t, order, [t[0], t[1], t[2]]);
                                return;
                            } }
                        }
                        Err(e) => { println!("FAIL building {:?}: {}", order, e); return; }
                    }
                }
            }
        }
    }
    println!("OK {} names={}", n, names.len());
}

/// C08 on the public API: one document, strict vs lenient (2-safety oracle, no expected outputs needed)
fn strict_lenient_one(doc: &[u8]) -> Result<(), String> {
    use autosar_data::*;
    let d1 = doc.to_vec();
    let d2 = doc.to_vec();
    let rs = panic::catch_unwind(move || {
        let m = AutosarModel::new();
        m.load_buffer(&d1, "f.arxml", true).map(|(f, w)| (f.version(), w.len(), m.root_element().serialize())).map_err(|e| e.to_string())
    });
    let rl = panic::catch_unwind(move || {
        let m = AutosarModel::new();
        m.load_buffer(&d2, "f.arxml", false).map(|(f, w)| (f.version(), w.iter().map(|x| x.to_string()).collect::<Vec<_>>(), m.root_element().serialize())).map_err(|e| e.to_string())
    });
    let (rs, rl) = match (rs, rl) {
        (Ok(a), Ok(b)) => (a, b),
        _ => return Err(format!("loading panicked: {}", super::LAST.lock().unwrap().take().unwrap_or_default())),
    };
    match (rs, rl) {
        (Ok((vs, nws, ts)), Ok((vl, wl, tl))) => {
            if nws != 0 { return Err("strict loading returned warnings".to_string()); }
            if !wl.is_empty() { return Err(format!("strict loading accepts a document for which lenient loading warns: {}", wl[0])); }
            if vs != vl || ts != tl { return Err("strict and lenient loading succeed without warnings but produce different models".to_string()); }
            Ok(())
        }
        (Err(es), Ok((_, wl, _))) => {
            if wl.is_empty() { return Err(format!("strict loading fails ({}) but lenient loading succeeds without warnings", es)); }
            if es != wl[0] { return Err(format!("strict error ({}) is not the first lenient warning ({})", es, wl[0])); }
            Ok(())
        }
        (Ok(_), Err(el)) => Err(format!("lenient loading rejects ({}) a document that strict loading accepts", el)),
        (Err(_), Err(_)) => Ok(()),
    }
}

/// api strictlenient <corpus-file> <mutate:0|1> : every document (hex per line; a line starting with '!' marks a
/// document that violates a documented constraint and must be rejected by strict loading) and, with mutate=1,
/// every single-byte deletion and every duplication of a `<...>` token of it
fn api_strict_lenient(args: &[String]) {
    let text = std::fs::read_to_string(&args[0]).unwrap();
    let mutate = args.get(1).map(|s| s == "1").unwrap_or(false);
    let mut n = 0u64;
    for line in text.lines() {
        let (must_fail, hexs) = if let Some(r) = line.strip_prefix('!') { (true, r) } else { (false, line) };
        let doc = unhex(hexs.trim());
        n += 1;
        if let Err(e) = strict_lenient_one(&doc) { println!("FAIL {} :: document {}", e, hex(&doc)); return; }
        if must_fail {
            let d = doc.clone();
            let ok = autosar_data::AutosarModel::new().load_buffer(&d, "f.arxml", true).is_ok();
            if ok { println!("FAIL strict loading accepts a document that violates a documented constraint :: document {}", hex(&doc)); return; }
        }
        if mutate {
            for i in 0..doc.len() {
                let mut m = doc.clone(); m.remove(i);
                n += 1;
                if let Err(e) = strict_lenient_one(&m) { println!("FAIL {} :: document {}", e, hex(&m)); return; }
            }
            let mut i = 0;
            while i < doc.len() {
                if doc[i] == b'<' {
                    if let Some(j) = doc[i..].iter().position(|c| *c == b'>') {
                        let mut m = doc[..i + j + 1].to_vec(); m.extend_from_slice(&doc[i..]);
                        n += 1;
                        if let Err(e) = strict_lenient_one(&m) { println!("FAIL {} :: document {}", e, hex(&m)); return; }
                    }
                }
                i += 1;
            }
        }
    }
    println!("OK {}", n);
}

/// C02 on the public API: one document.  Loading (strict and lenient) and the header probe must not panic; every
/// error and every warning that names a line names one in 1..=1+newlines; a buffer that loads is accepted by the probe.
fn lines_one(doc: &[u8]) -> Result<(), String> {
    use autosar_data::*;
    let nl = doc.iter().filter(|c| **c == b'\n').count();
    fn line_of(e: &AutosarDataError) -> Option<usize> {
        match e {
            AutosarDataError::ParserError { line, .. } => Some(*line),
            AutosarDataError::LexerError { line, .. } => Some(*line),
            _ => None,
        }
    }
    let mut loads = false;
    for strict in [true, false] {
        let d = doc.to_vec();
        let r = panic::catch_unwind(move || {
            let m = AutosarModel::new();
            match m.load_buffer(&d, "f.arxml", strict) {
                Ok((_, w)) => (true, w.iter().map(|x| (line_of(x), x.to_string())).collect::<Vec<_>>()),
                Err(e) => (false, vec![(line_of(&e), e.to_string())]),
            }
        });
        let (ok, found) = match r {
            Ok(x) => x,
            Err(_) => return Err(format!("load_buffer(strict={}) panicked: {}", strict, super::LAST.lock().unwrap().take().unwrap_or_default())),
        };
        if ok { loads = true; }
        for (l, text) in found {
            if let Some(l) = l {
                if l < 1 || l > nl + 1 {
                    return Err(format!("load_buffer(strict={}) reports line {} but the input has only {} line(s): {}", strict, l, nl + 1, text));
                }
            }
        }
    }
    let d = doc.to_vec();
    match panic::catch_unwind(move || check_buffer(&d)) {
        Ok(accepts) => if loads && !accepts { return Err("check_buffer rejects a buffer that load_buffer accepts".to_string()); },
        Err(_) => return Err(format!("check_buffer panicked: {}", super::LAST.lock().unwrap().take().unwrap_or_default())),
    }
    Ok(())
}

/// api lines <corpus-file> <mutate:0|1> : every document and, with mutate=1, every single-byte deletion, every
/// insertion of a newline and every truncation of it
fn api_lines(args: &[String]) {
    let text = std::fs::read_to_string(&args[0]).unwrap();
    let mutate = args.get(1).map(|s| s == "1").unwrap_or(false);
    let mut n = 0u64;
    for line in text.lines() {
        let doc = unhex(line.trim_start_matches('!').trim());
        n += 1;
        if let Err(e) = lines_one(&doc) { println!("FAIL {} :: document {}", e, hex(&doc)); return; }
        if mutate {
            // a long comment / a long run of blanks / many empty lines between the xml header and the root element
            if let Some(p) = doc.windows(2).position(|w| w == b"?>") {
                for filler in [format!("<!--{}-->", "x".repeat(5000)), " ".repeat(5000), "\n".repeat(5000), format!("<!--{}-->\n", "y".repeat(90)).repeat(60)] {
                    let mut m = doc[..p + 2].to_vec(); m.extend_from_slice(filler.as_bytes()); m.extend_from_slice(&doc[p + 2..]);
                    n += 1;
                    if let Err(e) = lines_one(&m) { println!("FAIL {} :: document {}", e, hex(&m)); return; }
                }
            }
            for i in 0..doc.len() {
                let mut m = doc.clone(); m.remove(i);
                n += 1;
                if let Err(e) = lines_one(&m) { println!("FAIL {} :: document {}", e, hex(&m)); return; }
                let mut m = doc.clone(); m.insert(i, b'\n');
                n += 1;
                if let Err(e) = lines_one(&m) { println!("FAIL {} :: document {}", e, hex(&m)); return; }
                n += 1;
                if let Err(e) = lines_one(&doc[..i]) { println!("FAIL {} :: document {}", e, hex(&doc[..i])); return; }
            }
        }
    }
    println!("OK {}", n);
}

/// api sortdocs <corpus-file> : C14 on the public API, bounded.  For every document that loads strictly: sort it and
/// serialize (S0; sorting again must not change it, and every element path must still resolve).  Then, for every
/// element whose type is not order-relevant and every pair of adjacent sub-elements of it, swap the pair through the
/// public API in a fresh copy, sort, serialize: the text must be S0 again (the result does not depend on the previous order).
fn api_sortdocs(args: &[String]) {
    let text = std::fs::read_to_string(&args[0]).unwrap();
    api_sortdocs_text(&text);
}

fn api_sortdocs_text(text: &str) {
    use autosar_data::*;
    let mut n = 0u64;
    for line in text.lines() {
        let doc = unhex(line.trim_start_matches('!').trim());
        let load = |d: &[u8]| -> Option<AutosarModel> {
            let m = AutosarModel::new();
            match m.load_buffer(d, "f.arxml", true) { Ok((_, w)) if w.is_empty() => Some(m), _ => None }
        };
        let Some(m0) = load(&doc) else { continue };
        let paths: Vec<String> = m0.identifiable_elements().map(|(p, _)| p).collect();
        let count = m0.elements_dfs().count();
        m0.sort();
        let s0 = m0.root_element().serialize();
        m0.sort();
        n += 1;
        if m0.root_element().serialize() != s0 { println!("FAIL sorting twice differs from sorting once :: document {}", hex(&doc)); return; }
        if m0.elements_dfs().count() != count { println!("FAIL sorting changed the number of elements :: document {}", hex(&doc)); return; }
        for p in &paths { if m0.get_element_by_path(p).is_none() { println!("FAIL path {} no longer resolves after sorting :: document {}", p, hex(&doc)); return; } }
        for k in 0..count {
            let nsubs = { let m = load(&doc).unwrap(); let (_, parent) = m.elements_dfs().nth(k).unwrap(); if parent.element_type().is_ordered() { 0 } else { parent.sub_elements().count() } };
            for i in 0..nsubs.saturating_sub(1) {
                let m = load(&doc).unwrap();
                let (_, parent) = m.elements_dfs().nth(k).unwrap();
                let subs: Vec<Element> = parent.sub_elements().collect();
                if parent.move_element_here_at(&subs[i + 1], i).is_err() { continue; }
                m.sort();
                let s = m.root_element().serialize();
                n += 1;
                if s != s0 {
                    println!("FAIL sorted result depends on the previous order: swapping sub-elements {} and {} of <{}> (element #{} in document order) before sorting gives a different sorted text :: document {}",
                             i, i + 1, parent.element_name(), k, hex(&doc));
                    return;
                }
            }
        }
    }
    println!("OK {}", n);
}

/// api compat <max-docs> : C17 on the public API, bounded.  Documents are generated from the specification itself:
/// a breadth-first walk from ElementType::ROOT finds sub-elements, attributes and enumeration values that exist only in
/// some versions; for each, a minimal document containing it is built through the public API in the newest version that
/// has it.  Oracle (the property statement, executable): for every declared target version,
///   check_version_compatibility(target) lists nothing  <=>  the serialized text relabelled with the target's schema
///   file name loads in strict mode;  the returned mask contains the target exactly then;  set_version(target) succeeds
///   exactly then, leaves the content unchanged and the re-serialized file loads strictly.
fn api_compat(args: &[String]) { api_compat_mode(args, false, false) }
/// api roundtripgen <max-docs> : C01 round trip on the generated documents
fn api_roundtripgen(args: &[String]) { api_compat_mode(args, false, true) }

/// api holes <max-docs> : C08 on the same generated documents.  Oracle from the specification tables (not from the loader):
/// when the element / attribute / value a document was built around is not available in version v (its version mask
/// lacks v), the document relabelled to v must be rejected by strict loading, lenient loading must warn or fail, and the
/// two must agree (strict error == first lenient warning).
fn api_holes(args: &[String]) { api_compat_mode(args, true, false) }

fn api_compat_mode(args: &[String], holes: bool, roundtrip: bool) {
    use autosar_data::*;
    use autosar_data_specification::{expand_version_mask, CharacterDataSpec, ElementType};
    use std::collections::{HashSet, VecDeque};
    let maxdocs: usize = args.get(0).and_then(|s| s.parse().ok()).unwrap_or(300);
    let survey = args.get(1).map(|s| s == "survey").unwrap_or(false);
    let mut nfail = 0u64;
    let all_versions = expand_version_mask(u32::MAX);
    let full: u32 = all_versions.iter().fold(0u32, |a, v| a | (*v as u32));
    #[derive(Clone)]
    enum Extra { None, AttrEnum(AttributeName, EnumItem), AttrText(AttributeName), CdataEnum(EnumItem), AttrTextType(AttributeName), CdataText(&'static str) }
    struct Cand { path: Vec<(ElementName, ElementType)>, mask: u32, avail: u32, extra: Extra, what: String }
    let mut cands: Vec<Cand> = Vec::new();
    let mut seen: HashSet<ElementType> = HashSet::new();
    let mut queue: VecDeque<(Vec<(ElementName, ElementType)>, u32, u32)> = VecDeque::new();
    queue.push_back((vec![(ElementName::Autosar, ElementType::ROOT)], full, full));
    seen.insert(ElementType::ROOT);
    while let Some((path, common, navail)) = queue.pop_front() {
        if path.len() > 14 { continue; }
        let t = path.last().unwrap().1;
        for (name, st, mask, _) in t.sub_element_spec_iter() {
            let m = common & mask;
            if m == 0 { continue; }
            let mut p2 = path.clone();
            p2.push((name, st));
            // the same name may be listed several times with different masks (and types): availability of the *name*
            let name_mask = t.sub_element_spec_iter().filter(|(n2, ..)| *n2 == name).fold(0u32, |a, (_, _, m2, _)| a | m2);
            let navail2 = navail & name_mask;
            if mask & common != common {
                cands.push(Cand { path: p2.clone(), mask: m, avail: navail2, extra: Extra::None, what: format!("element {} exists only in versions {:#x}", name, name_mask) });
            }
            // the same name listed with another element type (for other versions) that lacks one of this type's attributes
            for (n2, st2, _, _) in t.sub_element_spec_iter() {
                if n2 != name || st2 == st { continue; }
                for (aname, aspec, _) in st.attribute_spec_iter() {
                    if st2.find_attribute_spec(aname).is_some() { continue; }
                    let aver = st.find_attribute_spec(aname).map(|a| a.version).unwrap_or(0);
                    if m & aver == 0 || !matches!(aspec, CharacterDataSpec::String { .. }) { continue; }
                    let mut am = 0u32;
                    for (n3, st3, m3, _) in t.sub_element_spec_iter() { if n3 == name { if let Some(a3) = st3.find_attribute_spec(aname) { am |= m3 & a3.version; } } }
                    cands.push(Cand { path: p2.clone(), mask: m & aver, avail: navail2 & am, extra: Extra::AttrTextType(aname), what: format!("attribute {} of {} exists only in the element type used in versions {:#x}", aname, name, am) });
                }
            }
            // the same name listed with another element type (for other versions) whose text is specified differently: every candidate
            // text takes part (only documents that are valid in their own version are compared, so texts this type refuses drop out)
            if t.sub_element_spec_iter().any(|(n2, st2, _, _)| n2 == name && st2 != st && st2.chardata_spec().is_some()) && matches!(st.chardata_spec(), Some(CharacterDataSpec::Pattern { .. }) | Some(CharacterDataSpec::String { .. })) {
                for cand in ec_value_candidates() {
                    cands.push(Cand { path: p2.clone(), mask: m, avail: navail2, extra: Extra::CdataText(cand), what: format!("text {:?} of {}, whose element type depends on the version", cand, name) });
                }
            }
            if seen.insert(st) {
                // attributes of the new type
                for (aname, aspec, _) in st.attribute_spec_iter() {
                    let aver = st.find_attribute_spec(aname).map(|a| a.version).unwrap_or(0);
                    match aspec {
                        CharacterDataSpec::Enum { items } => {
                            for (it, im) in items.iter() {
                                if (im & m & aver) != 0 && (*im & m != m || aver & m != m) {
                                    cands.push(Cand { path: p2.clone(), mask: m & im & aver, avail: navail2 & im & aver, extra: Extra::AttrEnum(aname, *it), what: format!("attribute {}={} exists only in versions {:#x}", aname, it, im & aver) });
                                }
                            }
                        }
                        CharacterDataSpec::String { .. } => {
                            if aver & m != m && aver & m != 0 {
                                cands.push(Cand { path: p2.clone(), mask: m & aver, avail: navail2 & aver, extra: Extra::AttrText(aname), what: format!("attribute {} exists only in versions {:#x}", aname, aver) });
                            }
                        }
                        _ => {}
                    }
                }
                if let Some(CharacterDataSpec::Enum { items }) = st.chardata_spec() {
                    for (it, im) in items.iter() {
                        if im & m != 0 && im & m != m {
                            cands.push(Cand { path: p2.clone(), mask: m & im, avail: navail2 & im, extra: Extra::CdataEnum(*it), what: format!("value {} of {} exists only in versions {:#x}", it, name, im) });
                        }
                    }
                }
                queue.push_back((p2, m, navail2));
            }
        }
    }
    let total_cands = cands.len();
    // spread the budget over the kinds of candidates
    let mut picked: Vec<&Cand> = Vec::new();
    for kind in 0..6 {
        let of_kind: Vec<&Cand> = cands.iter().filter(|c| matches!((&c.extra, kind), (Extra::None, 0) | (Extra::AttrEnum(..), 1) | (Extra::AttrText(..), 2) | (Extra::CdataEnum(..), 3) | (Extra::AttrTextType(..), 4) | (Extra::CdataText(..), 5))).collect();
        let step = (of_kind.len() / (maxdocs / 4).max(1)).max(1);
        picked.extend(of_kind.into_iter().step_by(step).take(maxdocs / 4));
    }
    let (mut built, mut compared) = (0u64, 0u64);
    'docs: for c in picked {
        let v0 = *expand_version_mask(c.mask).last().unwrap();
        let model = AutosarModel::new();
        let Ok(file) = model.create_file("f.arxml", v0) else { continue };
        let mut cur = model.root_element();
        let mut ok = true;
        for (k, (name, st)) in c.path.iter().enumerate().skip(1) {
            let r = if st.is_named_in_version(v0) { cur.create_named_sub_element(*name, &format!("n{}", k)) } else { cur.create_sub_element(*name) };
            match r { Ok(e) => cur = e, Err(_) => { ok = false; break; } }
        }
        if !ok { continue; }
        let r = match &c.extra {
            Extra::None => Ok(()),
            Extra::AttrEnum(a, it) => cur.set_attribute(*a, CharacterData::Enum(*it)),
            Extra::AttrText(a) | Extra::AttrTextType(a) => cur.set_attribute(*a, CharacterData::String("x".to_string())),
            Extra::CdataEnum(it) => cur.set_character_data(CharacterData::Enum(*it)),
            Extra::CdataText(t) => cur.set_character_data(CharacterData::String(t.to_string())),
        };
        if r.is_err() { continue; }
        let Ok(text) = file.serialize() else { continue };
        // only documents that are valid in their own version take part
        if !matches!(AutosarModel::new().load_buffer(text.as_bytes(), "g.arxml", true), Ok((_, w)) if w.is_empty()) { continue; }
        built += 1;
        if roundtrip {
            compared += 1;
            match roundtrip_one(text.as_bytes(), true) {
                Ok(_) => {}
                Err(e) => { println!("FAIL {} [{}] :: document {}", e, c.what, hex(text.as_bytes())); nfail += 1; if !survey { return; } else { continue 'docs; } }
            }
            continue;
        }
        if holes {
            for v in &all_versions {
                if c.avail & (*v as u32) != 0 { continue; }
                let relabelled = text.replace(v0.filename(), v.filename());
                compared += 1;
                if let Err(e) = strict_lenient_one(relabelled.as_bytes()) {
                    println!("FAIL {} [{}; relabelled to {}] :: document {}", e, c.what, v.filename(), hex(relabelled.as_bytes()));
                    nfail += 1; if !survey { return; } else { continue 'docs; }
                }
                if AutosarModel::new().load_buffer(relabelled.as_bytes(), "g.arxml", true).is_ok() {
                    println!("FAIL strict loading accepts a document whose content is not available in the file's version [{}; relabelled to {}] :: document {}", c.what, v.filename(), hex(relabelled.as_bytes()));
                    nfail += 1; if !survey { return; } else { continue 'docs; }
                }
            }
            continue;
        }
        for v in &all_versions {
            let relabelled = text.replace(v0.filename(), v.filename());
            let strict = AutosarModel::new().load_buffer(relabelled.as_bytes(), "g.arxml", true);
            let strict_ok = matches!(&strict, Ok((_, w)) if w.is_empty());
            let why = match &strict { Err(e) => format!(" ({})", e), _ => String::new() };
            let (errs, mask) = file.check_version_compatibility(*v);
            compared += 1;
            let ctx = format!("{} [{}; built as {:?}, target {}] :: document {}", why, c.what, v0, v.filename(), hex(text.as_bytes()));
            if errs.is_empty() != strict_ok {
                println!("FAIL check_version_compatibility lists {} incompatibilities but the relabelled file {} strict validation {}", errs.len(), if strict_ok { "passes" } else { "fails" }, ctx); nfail += 1; if !survey { return; } else { continue 'docs; }
            }
            if v.compatible(mask) != strict_ok {
                println!("FAIL the returned version mask {:#x} {} the target although the relabelled file {} strict validation {}", mask, if v.compatible(mask) { "contains" } else { "lacks" }, if strict_ok { "passes" } else { "fails" }, ctx); nfail += 1; if !survey { return; } else { continue 'docs; }
            }
            let m2 = AutosarModel::new();
            let (f2, _) = m2.load_buffer(text.as_bytes(), "h.arxml", true).unwrap();
            let sv = f2.set_version(*v).is_ok();
            if sv != strict_ok { println!("FAIL set_version {} although the relabelled file {} strict validation {}", if sv { "succeeds" } else { "fails" }, if strict_ok { "passes" } else { "fails" }, ctx); nfail += 1; if !survey { return; } else { continue 'docs; } }
            if sv {
                let t2 = f2.serialize().unwrap_or_default();
                if t2 != relabelled { println!("FAIL set_version altered the content {}", ctx); nfail += 1; if !survey { return; } else { continue 'docs; } }
            } else if f2.version() != v0 || f2.serialize().unwrap_or_default() != text { println!("FAIL a refused set_version changed the file {}", ctx); nfail += 1; if !survey { return; } else { continue 'docs; } }
        }
        // two-file models: the result for this file must not depend on another file of the model that holds other packages
        if built % 16 == 1 {
            let other = text.split("<AR-PACKAGES>").next().unwrap_or("").to_string() + "<AR-PACKAGES><AR-PACKAGE><SHORT-NAME>a0</SHORT-NAME></AR-PACKAGE><AR-PACKAGE><SHORT-NAME>zz9</SHORT-NAME></AR-PACKAGE></AR-PACKAGES></AUTOSAR>";
            for other_first in [true, false] {
                let m4 = AutosarModel::new();
                let loaded = if other_first {
                    m4.load_buffer(other.as_bytes(), "o.arxml", true).and_then(|_| m4.load_buffer(text.as_bytes(), "a.arxml", true))
                } else {
                    m4.load_buffer(text.as_bytes(), "a.arxml", true).and_then(|(fa, w)| m4.load_buffer(other.as_bytes(), "o.arxml", true).map(|_| (fa, w)))
                };
                let Ok((fa, _)) = loaded else { continue };
                for v in &all_versions {
                    let (e1, m1) = file.check_version_compatibility(*v);
                    let (e2, m2) = fa.check_version_compatibility(*v);
                    compared += 1;
                    if e1.len() != e2.len() || v.compatible(m1) != v.compatible(m2) {
                        println!("FAIL in a model with a second file, check_version_compatibility of this file lists {} incompatibilities (mask {:#x}); alone it lists {} (mask {:#x}) [{}; second file loaded {}, target {}] :: document {}",
                                 e2.len(), m2, e1.len(), m1, c.what, if other_first { "first" } else { "second" }, v.filename(), hex(text.as_bytes()));
                        nfail += 1; if !survey { return; } else { continue 'docs; }
                    }
                }
            }
        }
        // two files that share one package: this file must not be blamed for (or shielded by) what the other file contributes to the
        // shared ELEMENTS container -- the other file holds the version-dependent content, this one a plain SYSTEM
        if c.path.len() > 4 && c.path[1].0 == ElementName::ArPackages && c.path[2].0 == ElementName::ArPackage && c.path[3].0 == ElementName::Elements {
            for va in [all_versions[0], *all_versions.last().unwrap(), all_versions[(built as usize) % all_versions.len()]] {
                let ma = AutosarModel::new();
                let Ok(fa0) = ma.create_file("a.arxml", va) else { continue };
                let mut cur = ma.root_element();
                let mut ok = true;
                for (k, (name, _)) in c.path.iter().enumerate().skip(1).take(3) {
                    let named = cur.element_type().find_sub_element(*name, va as u32).map(|(t, _)| t.is_named_in_version(va));
                    let r = match named { Some(true) => cur.create_named_sub_element(*name, &format!("n{}", k)), Some(false) => cur.create_sub_element(*name), None => { ok = false; break; } };
                    match r { Ok(e) => cur = e, Err(_) => { ok = false; break; } }
                }
                if !ok || cur.create_named_sub_element(ElementName::System, "zz_sys").is_err() { continue; }
                let Ok(text_a) = fa0.serialize() else { continue };
                for other_first in [true, false] {
                    let m5 = AutosarModel::new();
                    let loaded = if other_first {
                        m5.load_buffer(text.as_bytes(), "b.arxml", true).and_then(|_| m5.load_buffer(text_a.as_bytes(), "a.arxml", true))
                    } else {
                        m5.load_buffer(text_a.as_bytes(), "a.arxml", true).and_then(|(fa, w)| m5.load_buffer(text.as_bytes(), "b.arxml", true).map(|_| (fa, w)))
                    };
                    let Ok((fa, _)) = loaded else { continue };
                    for v in &all_versions {
                        let relabelled = text_a.replace(va.filename(), v.filename());
                        let strict_ok = matches!(AutosarModel::new().load_buffer(relabelled.as_bytes(), "g.arxml", true), Ok((_, w)) if w.is_empty());
                        let (errs, mask) = fa.check_version_compatibility(*v);
                        compared += 1;
                        if errs.is_empty() != strict_ok || v.compatible(mask) != strict_ok {
                            println!("FAIL two files share a package: for the file that holds only a SYSTEM, check_version_compatibility lists {} incompatibilities (mask {:#x}) but its relabelled text {} strict validation [the other file ({}) contributes: {}; this file is {}, loaded {}, target {}] :: document {}",
                                     errs.len(), mask, if strict_ok { "passes" } else { "fails" }, v0.filename(), c.what, va.filename(), if other_first { "second" } else { "first" }, v.filename(), hex(text_a.as_bytes()));
                            nfail += 1; if !survey { return; } else { continue 'docs; }
                        }
                    }
                }
            }
        }
        // the same content labelled with a version in which it is NOT valid, loaded leniently (the loader keeps the content and
        // warns): the compatibility check must still report it for every target in which it is not valid
        let invalid: Vec<AutosarVersion> = all_versions.iter().copied().filter(|v| c.avail & (*v as u32) == 0).collect();
        let mut picks: Vec<AutosarVersion> = Vec::new();
        if let Some(f) = invalid.first() { picks.push(*f); }
        if let Some(l) = invalid.last() { if invalid.len() > 1 { picks.push(*l); } }
        for v1 in picks {
            let mislabelled = text.replace(v0.filename(), v1.filename());
            let m3 = AutosarModel::new();
            let Ok((f3, _)) = m3.load_buffer(mislabelled.as_bytes(), "l.arxml", false) else { continue };
            let text3 = f3.serialize().unwrap_or_default();
            for v in &all_versions {
                let relabelled = text3.replace(v1.filename(), v.filename());
                let strict = AutosarModel::new().load_buffer(relabelled.as_bytes(), "g.arxml", true);
                let strict_ok = matches!(&strict, Ok((_, w)) if w.is_empty());
                let why = match &strict { Err(e) => format!(" ({})", e), _ => String::new() };
                let (errs, mask) = f3.check_version_compatibility(*v);
                compared += 1;
                if errs.is_empty() != strict_ok || v.compatible(mask) != strict_ok {
                    println!("FAIL leniently loaded file: check_version_compatibility lists {} incompatibilities (mask {:#x}) but the relabelled file {} strict validation{} [{}; loaded leniently as {}, target {}] :: document {}",
                             errs.len(), mask, if strict_ok { "passes" } else { "fails" }, why, c.what, v1.filename(), v.filename(), hex(mislabelled.as_bytes()));
                    nfail += 1; if !survey { return; } else { continue 'docs; }
                }
            }
        }
    }
    if nfail == 0 { println!("OK {} documents={} candidates={}", compared, built, total_cands); } else { println!("SURVEY failures={} documents={} candidates={}", nfail, built, total_cands); }
}

/// api compat1 <document-hex> <target-schema-file-name> : the oracle of `api compat` on one document and one target version
fn api_compat1(args: &[String]) {
    use autosar_data::*;
    use std::str::FromStr;
    let doc = unhex(&args[0]);
    let Ok(v) = AutosarVersion::from_str(&args[1]) else { println!("{{\"outcome\":\"unknown-check\"}}"); return };
    let mut m = AutosarModel::new();
    let mut loaded = m.load_buffer(&doc, "f.arxml", true);
    if loaded.is_err() { m = AutosarModel::new(); loaded = m.load_buffer(&doc, "f.arxml", false); }
    let (file, _) = match loaded { Ok(x) => x, Err(e) => { println!("{{\"outcome\":\"ok\",\"note\":\"document does not load: {}\"}}", e); return } };
    let v0 = file.version();
    let text = String::from_utf8_lossy(&doc).to_string();
    let relabelled = text.replace(v0.filename(), v.filename());
    let strict = AutosarModel::new().load_buffer(relabelled.as_bytes(), "g.arxml", true);
    let strict_ok = matches!(&strict, Ok((_, w)) if w.is_empty());
    let (errs, mask) = file.check_version_compatibility(v);
    let sv = { let m2 = AutosarModel::new(); match m2.load_buffer(&doc, "h.arxml", false) { Ok((f2, _)) => f2.set_version(v).is_ok(), Err(_) => false } };
    let msg = format!("target {:?}: check_version_compatibility lists {} incompatibilities, mask {:#x} ({} the target), set_version {}; relabelled file strict validation: {}",
        v, errs.len(), mask, if v.compatible(mask) { "contains" } else { "lacks" }, if sv { "succeeds" } else { "fails" },
        match &strict { Ok(_) => "passes".to_string(), Err(e) => format!("fails ({})", e) });
    if errs.is_empty() == strict_ok && v.compatible(mask) == strict_ok && sv == strict_ok { println!("{{\"outcome\":\"ok\",\"note\":{:?}}}", msg); }
    else { println!("{{\"outcome\":\"panic\",\"message\":{:?}}}", msg); }
}

/// C01 on the public API, one document: load (given mode) -> serialize -> load (same mode) -> serialize: the second text is
/// byte-identical to the first, the reloaded model has the same elements (count, identifiable paths), no warnings on reload.
fn roundtrip_one(doc: &[u8], strict: bool) -> Result<bool, String> {
    use autosar_data::*;
    let m1 = AutosarModel::new();
    let Ok((f1, _)) = m1.load_buffer(doc, "a.arxml", strict) else { return Ok(false) };
    let s1 = f1.serialize().map_err(|e| format!("serialize failed: {}", e))?;
    let m2 = AutosarModel::new();
    let (f2, w2) = m2.load_buffer(s1.as_bytes(), "b.arxml", strict).map_err(|e| format!("the serialized text of a loaded file does not load again (strict={}): {}", strict, e))?;
    if strict && !w2.is_empty() { return Err(format!("reloading the serialized text gives warnings: {}", w2[0])); }
    let s2 = f2.serialize().map_err(|e| format!("second serialize failed: {}", e))?;
    if s1 != s2 { return Err("serializing the reloaded file gives different text (not byte-identical)".to_string()); }
    if f1.version() != f2.version() { return Err("the version changed on reload".to_string()); }
    if m1.elements_dfs().count() != m2.elements_dfs().count() { return Err("the reloaded model has a different number of elements".to_string()); }
    let p1: Vec<String> = m1.identifiable_elements().map(|(p, _)| p).collect();
    let p2: Vec<String> = m2.identifiable_elements().map(|(p, _)| p).collect();
    if p1 != p2 { return Err("the reloaded model has different identifiable paths".to_string()); }
    for ((_, e1), (_, e2)) in m1.elements_dfs().zip(m2.elements_dfs()) {
        if e1.element_name() != e2.element_name() { return Err(format!("element order differs after reload: {} vs {}", e1.element_name(), e2.element_name())); }
        let a1: Vec<String> = e1.attributes().map(|a| format!("{}={}", a.attrname, a.content)).collect();
        let a2: Vec<String> = e2.attributes().map(|a| format!("{}={}", a.attrname, a.content)).collect();
        if a1 != a2 { return Err(format!("attributes of {} differ after reload: {:?} vs {:?}", e1.element_name(), a1, a2)); }
        if e1.character_data() != e2.character_data() { return Err(format!("character data of {} differs after reload: {:?} vs {:?}", e1.element_name(), e1.character_data(), e2.character_data())); }
        if e1.comment() != e2.comment() { return Err(format!("comment of {} differs after reload", e1.element_name())); }
    }
    Ok(true)
}

/// api roundtrip <corpus-file> : every document, strict and lenient
fn api_roundtrip(args: &[String]) {
    let text = std::fs::read_to_string(&args[0]).unwrap();
    let (mut n, mut loaded) = (0u64, 0u64);
    for line in text.lines() {
        let doc = unhex(line.trim_start_matches('!').trim());
        for strict in [true, false] {
            n += 1;
            let d = doc.clone();
            match panic::catch_unwind(move || roundtrip_one(&d, strict)) {
                Ok(Ok(l)) => { if l { loaded += 1; } }
                Ok(Err(e)) => { println!("FAIL {} (first load strict={}) :: document {}", e, strict, hex(&doc)); return; }
                Err(_) => { println!("FAIL panic: {} :: document {}", super::LAST.lock().unwrap().take().unwrap_or_default(), hex(&doc)); return; }
            }
        }
    }
    println!("OK {} loaded={}", n, loaded);
}

/// api strings <maxlen> : every text over a small alphabet of special and plain characters, written into a document with an
/// escaping done HERE (independent of the library), as element content and as attribute value: the loaded value is the text;
/// the serialized file reloads to the same value and re-serializes byte-identically.
fn api_strings(args: &[String]) {
    use autosar_data::*;
    let maxlen: usize = args.get(0).and_then(|s| s.parse().ok()).unwrap_or(3);
    let alphabet: Vec<char> = vec!['&', '<', '>', '"', '\'', 'a', ';', '#', 'x', '1', ' ', 'l', 't', '\u{e4}'];
    let esc = |s: &str| -> String { s.replace('&', "&amp;").replace('<', "&lt;").replace('>', "&gt;").replace('"', "&quot;").replace('\'', "&apos;") };
    let hdr = "<?xml version=\"1.0\" encoding=\"utf-8\"?>\n<AUTOSAR xsi:schemaLocation=\"http://autosar.org/schema/r4.0 AUTOSAR_00050.xsd\" xmlns=\"http://autosar.org/schema/r4.0\" xmlns:xsi=\"http://www.w3.org/2001/XMLSchema-instance\"><AR-PACKAGES><AR-PACKAGE><SHORT-NAME>P</SHORT-NAME><ADMIN-DATA><SDGS><SDG GID=\"";
    let mut n = 0u64;
    let mut idx = vec![0usize; 0];
    for len in 1..=maxlen {
        idx = vec![0; len];
        loop {
            let s: String = idx.iter().map(|i| alphabet[*i]).collect();
            // leading / trailing blanks are insignificant whitespace by the property's own wording: skip those texts
            if !(s.starts_with(' ') || s.ends_with(' ')) {
                n += 1;
                let doc = format!("{}{}\"><SD GID=\"v\">{}</SD></SDG></SDGS></ADMIN-DATA></AR-PACKAGE></AR-PACKAGES></AUTOSAR>", hdr, esc(&s), esc(&s));
                for strict in [true, false] {
                    let m = AutosarModel::new();
                    let (f, w) = match m.load_buffer(doc.as_bytes(), "s.arxml", strict) { Ok(x) => x, Err(e) => { println!("FAIL a well-formed document with the escaped text {:?} does not load (strict={}): {} :: document {}", s, strict, e, hex(doc.as_bytes())); return; } };
                    if !w.is_empty() { println!("FAIL loading the escaped text {:?} gives a warning: {} :: document {}", s, w[0], hex(doc.as_bytes())); return; }
                    let sd = m.elements_dfs().map(|(_, e)| e).find(|e| e.element_name() == ElementName::Sd).unwrap();
                    let sdg = sd.parent().unwrap().unwrap();
                    let got_c = sd.character_data().and_then(|c| c.string_value());
                    let got_a = sdg.attribute_value(AttributeName::Gid).and_then(|c| c.string_value());
                    if got_c.as_deref() != Some(s.as_str()) { println!("FAIL element content {:?} was loaded as {:?} :: document {}", s, got_c, hex(doc.as_bytes())); return; }
                    if got_a.as_deref() != Some(s.as_str()) { println!("FAIL attribute value {:?} was loaded as {:?} :: document {}", s, got_a, hex(doc.as_bytes())); return; }
                    let _ = f;
                }
                if let Err(e) = roundtrip_one(doc.as_bytes(), true).and_then(|l| if l { Ok(()) } else { Err("does not load".to_string()) }) { println!("FAIL {} :: document {}", e, hex(doc.as_bytes())); return; }
            }
            let mut k = len;
            loop { if k == 0 { break; } k -= 1; idx[k] += 1; if idx[k] < alphabet.len() { break; } idx[k] = 0; if k == 0 { k = usize::MAX; break; } }
            if k == usize::MAX { break; }
        }
    }
    let _ = idx;
    println!("OK {}", n);
}

pub fn command(cmd: &str, args: &[String]) {
    match cmd {
        "api" if args.get(0).map(|s| s.as_str()) == Some("strictlenient") => api_strict_lenient(&args[1..]),
        "api" if args.get(0).map(|s| s.as_str()) == Some("strictlenient1") => {
            match strict_lenient_one(&unhex(&args[1])) { Ok(()) => println!("{{\"outcome\":\"ok\"}}"), Err(e) => println!("{{\"outcome\":\"panic\",\"message\":{:?}}}", e) }
        }
        "api" if args.get(0).map(|s| s.as_str()) == Some("sort3") => api_sort3(&args[1..]),
        "api" if args.get(0).map(|s| s.as_str()) == Some("compat1") => api_compat1(&args[1..]),
        "api" if args.get(0).map(|s| s.as_str()) == Some("mustfail1") => {
            let d = unhex(&args[1]);
            match autosar_data::AutosarModel::new().load_buffer(&d, "f.arxml", true) {
                Ok(_) => println!("{{\"outcome\":\"panic\",\"message\":\"strict loading accepts the document\"}}"),
                Err(e) => println!("{{\"outcome\":\"ok\",\"note\":{:?}}}", e.to_string()),
            }
        }
        "api" if args.get(0).map(|s| s.as_str()) == Some("roundtrip") => api_roundtrip(&args[1..]),
        "api" if args.get(0).map(|s| s.as_str()) == Some("roundtrip1") => {
            let d = unhex(&args[1]);
            let mut bad = None;
            for strict in [true, false] { if let Err(e) = roundtrip_one(&d, strict) { bad = Some(e); } }
            match bad { None => println!("{{\"outcome\":\"ok\"}}"), Some(e) => println!("{{\"outcome\":\"panic\",\"message\":{:?}}}", e) }
        }
        "api" if args.get(0).map(|s| s.as_str()) == Some("strings") => api_strings(&args[1..]),
        "api" if args.get(0).map(|s| s.as_str()) == Some("editconform") => api_editconform(&args[1..]),
        "api" if args.get(0).map(|s| s.as_str()) == Some("editconform1") => api_editconform1(&args[1..]),
        "api" if args.get(0).map(|s| s.as_str()) == Some("editprobe") => api_editprobe(&args[1..]),
        "api" if args.get(0).map(|s| s.as_str()) == Some("dupes") => api_dupes(&args[1..]),
        "api" if args.get(0).map(|s| s.as_str()) == Some("sortperm") => api_sortperm(&args[1..]),
        "api" if args.get(0).map(|s| s.as_str()) == Some("sortperm1") => api_sortperm1(&args[1..]),
        "api" if args.get(0).map(|s| s.as_str()) == Some("copycheck") => api_copycheck(&args[1..]),
        "api" if args.get(0).map(|s| s.as_str()) == Some("rawtexts") => api_rawtexts(&args[1..]),
        "api" if args.get(0).map(|s| s.as_str()) == Some("whitespace") => api_whitespace(&args[1..]),
        "api" if args.get(0).map(|s| s.as_str()) == Some("whitespace1") => api_whitespace1(&args[1..]),
        "api" if args.get(0).map(|s| s.as_str()) == Some("copycross") => api_copycross(&args[1..]),
        "api" if args.get(0).map(|s| s.as_str()) == Some("copycross1") => api_copycross1(&args[1..]),
        "api" if args.get(0).map(|s| s.as_str()) == Some("copycheck1") => api_copycheck1(&args[1..]),
        "api" if args.get(0).map(|s| s.as_str()) == Some("sortorder") => api_sortorder(&args[1..]),
        "api" if args.get(0).map(|s| s.as_str()) == Some("sortorder1") => api_sortorder1(&args[1..]),
        "api" if args.get(0).map(|s| s.as_str()) == Some("roundtripgen") => api_roundtripgen(&args[1..]),
        "api" if args.get(0).map(|s| s.as_str()) == Some("holes") => api_holes(&args[1..]),
        "api" if args.get(0).map(|s| s.as_str()) == Some("compat") => api_compat(&args[1..]),
        "api" if args.get(0).map(|s| s.as_str()) == Some("sortdocs") => api_sortdocs(&args[1..]),
        "api" if args.get(0).map(|s| s.as_str()) == Some("sortdocs1") => api_sortdocs_text(&args[1]),
        "api" if args.get(0).map(|s| s.as_str()) == Some("lines") => api_lines(&args[1..]),
        "api" if args.get(0).map(|s| s.as_str()) == Some("lines1") => {
            match lines_one(&unhex(&args[1])) { Ok(()) => println!("{{\"outcome\":\"ok\"}}"), Err(e) => println!("{{\"outcome\":\"panic\",\"message\":{:?}}}", e) }
        }
        "batch" => batch(args),
        "ground" => ground(args),
        "find" => finder(args),
        "one" => one(args),
        _ => {
            eprintln!("unknown command {}", cmd);
            std::process::exit(3);
        }
    }
}
