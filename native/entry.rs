// Native side of /verif: replays harness bodies on the real (scratch-copied) code, searches
// witnesses for failed obligations, and evaluates the closed instances of C18.
use std::panic;

pub fn run(module: &str, name: &str, vals: Vec<Vec<u8>>) -> bool {
    if let Some(r) = autosar_data::verif_entry::run(module, name, vals.clone()) {
        return r;
    }
    if let Some(r) = autosar_data_specification::verif_entry::run(module, name, vals) {
        return r;
    }
    false
}

fn check(module: &str, name: &str, input: &[u8]) -> Option<bool> {
    if let Some(r) = autosar_data::verif_entry::check(module, name, input) {
        return Some(r);
    }
    autosar_data_specification::verif_entry::check(module, name, input)
}

fn hex(b: &[u8]) -> String {
    b.iter().map(|x| format!("{:02x}", x)).collect::<Vec<_>>().join("")
}

fn unhex(s: &str) -> Vec<u8> {
    (0..s.len() / 2).map(|i| u8::from_str_radix(&s[2 * i..2 * i + 2], 16).unwrap()).collect()
}

/// find <module> <check> <alphabet-hex> <maxlen> [<prefix-hex>] : first input (shortlex) on which the executable
/// contract `check` panics.
fn finder(args: &[String]) {
    let module = &args[0];
    let name = &args[1];
    let alphabet = unhex(&args[2]);
    let maxlen: usize = args[3].parse().unwrap();
    let prefix = if args.len() > 4 { unhex(&args[4]) } else { Vec::new() };
    // optional: only accept a panic whose message mentions this location (file.rs:line)
    let want = if args.len() > 5 { args[5].clone() } else { String::new() };
    let mut tried: u64 = 0;
    for len in 0..=maxlen {
        let mut idx = vec![0usize; len];
        loop {
            let mut input: Vec<u8> = prefix.clone();
            input.extend(idx.iter().map(|i| alphabet[*i]));
            tried += 1;
            let (m, n, inp) = (module.clone(), name.clone(), input.clone());
            let r = panic::catch_unwind(move || check(&m, &n, &inp));
            match r {
                Ok(Some(true)) => {}
                Ok(Some(false)) | Ok(None) => {
                    println!("{{\"found\":false,\"error\":\"unknown check\"}}");
                    return;
                }
                Err(_) => {
                    let msg = super::LAST.lock().unwrap().take().unwrap_or_default();
                    if want.is_empty() || msg.contains(&want) {
                        println!("{{\"found\":true,\"input\":\"{}\",\"message\":{:?},\"tried\":{}}}", hex(&input), msg, tried);
                        return;
                    }
                }
            }
            // next
            let mut k = len;
            loop {
                if k == 0 { break; }
                k -= 1;
                idx[k] += 1;
                if idx[k] < alphabet.len() { break; }
                idx[k] = 0;
                if k == 0 { k = usize::MAX; break; }
            }
            if len == 0 || k == usize::MAX { break; }
        }
    }
    println!("{{\"found\":false,\"tried\":{}}}", tried);
}

/// one <module> <check> <input-hex>
fn one(args: &[String]) {
    let input = unhex(&args[2]);
    let (m, n) = (args[0].clone(), args[1].clone());
    let r = panic::catch_unwind(move || check(&m, &n, &input));
    match r {
        Ok(Some(true)) => println!("{{\"outcome\":\"ok\"}}"),
        Ok(_) => println!("{{\"outcome\":\"unknown-check\"}}"),
        Err(_) => {
            let msg = super::LAST.lock().unwrap().take().unwrap_or_default();
            println!("{{\"outcome\":\"panic\",\"message\":{:?}}}", msg);
        }
    }
}

/// ground <module> <which>
fn ground(args: &[String]) {
    let r = autosar_data_specification::verif_entry::ground(&args[0], &args[1]).or_else(|| autosar_data::verif_entry::ground(&args[0], &args[1]));
    match r {
        Some(s) => println!("{}", s),
        None => { println!("UNKNOWN"); std::process::exit(3) }
    }
}

/// batch <module> <check> <file-with-one-hex-input-per-line> : run the executable contract on every input,
/// print the failing inputs (at most 200) and a summary line
fn batch(args: &[String]) {
    let text = std::fs::read_to_string(&args[2]).unwrap();
    let mut tried = 0u64;
    let mut failed = 0u64;
    for line in text.lines() {
        let input = unhex(line.trim());
        tried += 1;
        let (m, n, inp) = (args[0].clone(), args[1].clone(), input.clone());
        let r = panic::catch_unwind(move || check(&m, &n, &inp));
        match r {
            Ok(Some(true)) => {}
            Ok(_) => { println!("{{\"error\":\"unknown check\"}}"); return; }
            Err(_) => {
                failed += 1;
                let msg = super::LAST.lock().unwrap().take().unwrap_or_default();
                if failed <= 200 { println!("{{\"input\":\"{}\",\"message\":{:?}}}", hex(&input), msg); }
            }
        }
    }
    println!("{{\"tried\":{},\"failed\":{}}}", tried, failed);
}

pub fn command(cmd: &str, args: &[String]) {
    match cmd {
        "batch" => batch(args),
        "ground" => ground(args),
        "find" => finder(args),
        "one" => one(args),
        _ => {
            eprintln!("unknown command {}", cmd);
            std::process::exit(3);
        }
    }
}
