// ---------------------------------------------------------------------------------------------------------------------------------
// api dupes <budget> [survey]        C08, bounded API-level check (public API only)
//
// "a repeated single-occurrence element ... is never accepted by strict loading" / "two adjacent alternatives of an exclusive choice":
// for element types reached breadth-first from the root, every sub-element B that the specification lists with multiplicity One or
// ZeroOrOne inside a Sequence or Choice container, and up to two other sub-elements A of the same parent (one listed before B, one after
// it), a document is built through the editing API with the children {A, B}; the text of B is then duplicated and the children are
// written in every order of {A, B, B'} (the loader does not enforce sequence order, so every order must be rejected because of the
// repetition).  Each document must be rejected by strict loading, lenient loading must warn (or fail), and the strict error must be
// the first lenient warning.
// ---------------------------------------------------------------------------------------------------------------------------------

fn dp_splice(text: &str, parent: autosar_data::ElementName, children: &[&str]) -> Option<String> {
    // the parent is the deepest element of the document: its end tag is the first one of that name after its last start tag
    let pname = parent.to_string();
    let open = text.rfind(&format!("<{}", pname))?;
    let inner: String = children.concat();
    let rest = &text[open..];
    let gt = rest.find('>')?;
    if rest[..gt].ends_with('/') {
        // <P/>  or  <P attr="x"/>
        let head = &rest[..gt - 1];
        return Some(format!("{}{}>{}</{}>{}", &text[..open], head, inner, pname, &rest[gt + 1..]));
    }
    let close = rest.find(&format!("</{}>", pname))?;
    Some(format!("{}{}{}{}", &text[..open], &rest[..close], inner, &rest[close..]))
}

fn api_dupes(args: &[String]) {
    use autosar_data::*;
    use autosar_data_specification::{ContentMode, ElementMultiplicity};
    let budget: usize = args.get(0).and_then(|s| s.parse().ok()).unwrap_or(20000);
    let survey = args.get(1).map(|s| s == "survey").unwrap_or(false);
    let types = ec_types();
    let (mut docs, mut cands, mut nfail) = (0u64, 0u64, 0u64);
    let mut seen_fail: Vec<String> = Vec::new();
    'types: for (ord, (path, mask)) in types.iter().enumerate() {
        if docs as usize >= budget { break; }
        let t = path.last().unwrap().1;
        if !matches!(t.content_mode(), ContentMode::Sequence | ContentMode::Choice) { continue; }
        let versions = ec_versions_for(*mask, ord, 2);
        for v in versions {
            let vm = v as u32;
            // single-occurrence sub-elements of this type in this version
            let listed: Vec<(ElementName, Vec<usize>)> = {
                let mut out: Vec<(ElementName, Vec<usize>)> = Vec::new();
                for (n, _, m, _) in t.sub_element_spec_iter() {
                    if m & vm == 0 || out.iter().any(|x| x.0 == n) { continue; }
                    if let Some((_, idx)) = t.find_sub_element(n, vm) { out.push((n, idx)); }
                }
                out
            };
            for (b, bidx) in &listed {
                if *b == ElementName::ShortName { continue; }
                let limited = matches!(t.get_sub_element_multiplicity(bidx), Some(ElementMultiplicity::One) | Some(ElementMultiplicity::ZeroOrOne));
                let cmode = t.get_sub_element_container_mode(bidx);
                if !limited || !matches!(cmode, ContentMode::Sequence | ContentMode::Choice) { continue; }
                cands += 1;
                // companions: the nearest other sub-element listed before B and the nearest listed after it (sequence relation to B only)
                let seq_with_b = |a: &Vec<usize>| t.find_common_group(a, bidx).content_mode() == ContentMode::Sequence;
                let before = listed.iter().filter(|(n, i)| n != b && *n != ElementName::ShortName && i < bidx && seq_with_b(i)).last();
                let after = listed.iter().filter(|(n, i)| n != b && *n != ElementName::ShortName && i > bidx && seq_with_b(i)).next();
                for comp in [before, after].into_iter().flatten() {
                    // build parent with {A, B} through the API
                    let model = AutosarModel::new();
                    let Ok(file) = model.create_file("f.arxml", v) else { continue };
                    let mut cur = model.root_element();
                    let mut ok = true;
                    for (k, (name, st)) in path.iter().enumerate().skip(1) {
                        let r = if st.is_named_in_version(v) { cur.create_named_sub_element(*name, &format!("n{}", k)) } else { cur.create_sub_element(*name) };
                        match r { Ok(e) => cur = e, Err(_) => { ok = false; break; } }
                    }
                    if !ok || cur.element_type() != t { continue; }
                    let mk = |n: ElementName, nm: &str| -> Option<Element> {
                        let (st, _) = t.find_sub_element(n, vm)?;
                        if st.is_named_in_version(v) { cur.create_named_sub_element(n, nm).ok() } else { cur.create_sub_element(n).ok() }
                    };
                    let Some(ea) = mk(comp.0, "xa") else { continue };
                    let Some(eb) = mk(*b, "xb") else { continue };
                    let (ta, tb) = (ea.serialize(), eb.serialize());
                    let tb2 = tb.replace("<SHORT-NAME>xb</SHORT-NAME>", "<SHORT-NAME>xb2</SHORT-NAME>");
                    let _ = cur.remove_sub_element(ea);
                    let _ = cur.remove_sub_element(eb);
                    let Ok(base) = file.serialize() else { continue };
                    // the base document (without A and B) must be fine, otherwise nothing can be concluded
                    if !matches!(AutosarModel::new().load_buffer(base.as_bytes(), "g.arxml", true), Ok((_, w)) if w.is_empty()) { continue; }
                    for order in [[ta.as_str(), tb.as_str(), tb2.as_str()], [tb.as_str(), ta.as_str(), tb2.as_str()], [tb.as_str(), tb2.as_str(), ta.as_str()]] {
                        let Some(doc) = dp_splice(&base, cur.element_name(), &order) else { continue };
                        docs += 1;
                        let what = format!("{} twice (single occurrence) with {} inside {} in {}", b, comp.0, cur.element_name(), v.filename());
                        let verdict = match strict_lenient_one(doc.as_bytes()) {
                            Err(e) => Some(e),
                            Ok(()) => if AutosarModel::new().load_buffer(doc.as_bytes(), "g.arxml", true).is_ok() { Some("strict loading accepts a document with a repeated single-occurrence element".to_string()) } else { None },
                        };
                        if let Some(e) = verdict {
                            nfail += 1;
                            let head: String = e.chars().take(60).collect();
                            if !survey { println!("FAIL {} [{}] :: document {}", e, what, hex(doc.as_bytes())); return; }
                            if !seen_fail.contains(&head) { seen_fail.push(head); println!("FAIL {} [{}] :: document {}", e, what, hex(doc.as_bytes())); }
                            if seen_fail.len() > 8 { break 'types; }
                        }
                    }
                }
            }
        }
    }
    if nfail == 0 { println!("OK {} documents single-occurrence-sub-elements={} types={}", docs, cands, types.len()); } else { println!("SURVEY failures={} documents={}", nfail, docs); }
}
