// ---------------------------------------------------------------------------------------------------------------------------------
// api sortperm        C14, bounded API-level check of Element::cmp as a whole (the comparison chain: element name, INDEX, item name,
// DEFINITION-REF, DEST, content, attributes).  Triples of siblings are described by (item name?, DEFINITION-REF?, INDEX?, DEST?, value)
// and loaded in all six orders; the sorted text must not depend on the order, sorting twice must equal sorting once.
//   named containers     ECUC-CONTAINER-VALUE   name in {Aaa, Bbb, Ccc} x definition in {X, Y, -} x index in {1, 2, 10, -}
//   unnamed values       ECUC-NUMERICAL-PARAM-VALUE  definition in {p, q, -} x index in {1, 2, -} x value in {1, 2, 10}
//   references           ECUC-REFERENCE-VALUE   definition in {r, -} x DEST in {SYSTEM, I-SIGNAL, -} x value in {/a, /b}
//   language texts       L-4 in LONG-NAME       L in {AA, DE, EN, FR} x S in {x, -} x text in {Abc, Motor}   (differ only in attributes / text)
// ---------------------------------------------------------------------------------------------------------------------------------
fn api_sortperm(_args: &[String]) {
    use autosar_data::*;
    let head = "<?xml version=\"1.0\" encoding=\"utf-8\"?>\n<AUTOSAR xsi:schemaLocation=\"http://autosar.org/schema/r4.0 AUTOSAR_00050.xsd\" xmlns=\"http://autosar.org/schema/r4.0\" xmlns:xsi=\"http://www.w3.org/2001/XMLSchema-instance\"><AR-PACKAGES><AR-PACKAGE><SHORT-NAME>P</SHORT-NAME><ELEMENTS><ECUC-MODULE-CONFIGURATION-VALUES><SHORT-NAME>M</SHORT-NAME><CONTAINERS>";
    let tail = "</CONTAINERS></ECUC-MODULE-CONFIGURATION-VALUES></ELEMENTS></AR-PACKAGE></AR-PACKAGES></AUTOSAR>";
    let opt = |tag: &str, v: &str, attrs: &str| if v == "-" { String::new() } else { format!("<{}{}>{}</{}>", tag, attrs, v, tag) };
    // pools of sibling descriptions (already rendered)
    let mut containers: Vec<String> = Vec::new();
    for name in ["Aaa", "Bbb", "Ccc"] { for def in ["/D/X", "/D/Y", "-"] { for idx in ["1", "2", "10", "-"] {
        containers.push(format!("<ECUC-CONTAINER-VALUE><SHORT-NAME>{}</SHORT-NAME>{}{}</ECUC-CONTAINER-VALUE>", name, opt("INDEX", idx, ""), opt("DEFINITION-REF", def, " DEST=\"ECUC-PARAM-CONF-CONTAINER-DEF\"")));
    } } }
    let mut params: Vec<String> = Vec::new();
    for def in ["/D/p", "/D/q", "-"] { for idx in ["1", "2", "-"] { for val in ["1", "2", "10"] {
        params.push(format!("<ECUC-NUMERICAL-PARAM-VALUE>{}{}<VALUE>{}</VALUE></ECUC-NUMERICAL-PARAM-VALUE>", opt("INDEX", idx, ""), opt("DEFINITION-REF", def, " DEST=\"ECUC-INTEGER-PARAM-DEF\""), val));
    } } }
    let mut refs: Vec<String> = Vec::new();
    for def in ["/D/r", "-"] { for dest in ["SYSTEM", "I-SIGNAL", "-"] { for val in ["/a", "/b"] {
        let d = if dest == "-" { String::new() } else { format!(" DEST=\"{}\"", dest) };
        refs.push(format!("<ECUC-REFERENCE-VALUE>{}<VALUE-REF{}>{}</VALUE-REF></ECUC-REFERENCE-VALUE>", opt("DEFINITION-REF", def, " DEST=\"ECUC-REFERENCE-DEF\""), d, val));
    } } }
    // texts in several languages: siblings that differ only in an attribute that is not DEST (item 7 of the chain), or only in their text
    let mut langs: Vec<String> = Vec::new();
    for lang in ["AA", "DE", "EN", "FR"] { for text in ["Abc", "Motor"] { for s in ["", " S=\"x\""] {
        langs.push(format!("<L-4 L=\"{}\"{}>{}</L-4>", lang, s, text));
    } } }
    let wrap = |kind: usize, items: &[&String]| -> String {
        let inner: String = items.iter().map(|s| s.as_str()).collect();
        match kind {
            0 => format!("{}{}{}", head, inner, tail),
            1 => format!("{}<ECUC-CONTAINER-VALUE><SHORT-NAME>C</SHORT-NAME><PARAMETER-VALUES>{}</PARAMETER-VALUES></ECUC-CONTAINER-VALUE>{}", head, inner, tail),
            3 => format!("{}<ECUC-CONTAINER-VALUE><SHORT-NAME>C</SHORT-NAME><LONG-NAME>{}</LONG-NAME></ECUC-CONTAINER-VALUE>{}", head, inner, tail),
            _ => format!("{}<ECUC-CONTAINER-VALUE><SHORT-NAME>C</SHORT-NAME><REFERENCE-VALUES>{}</REFERENCE-VALUES></ECUC-CONTAINER-VALUE>{}", head, inner, tail),
        }
    };
    let sorted = |doc: &str| -> Option<(String, String)> {
        let m = AutosarModel::new();
        m.load_buffer(doc.as_bytes(), "f.arxml", false).ok()?;
        m.sort();
        let once = m.root_element().serialize();
        m.sort();
        Some((once, m.root_element().serialize()))
    };
    let perms = [[0usize, 1, 2], [0, 2, 1], [1, 0, 2], [1, 2, 0], [2, 0, 1], [2, 1, 0]];
    let (mut n, mut triples) = (0u64, 0u64);
    for (kind, pool) in [&containers, &params, &refs, &langs].into_iter().enumerate() {
        for i in 0..pool.len() { for j in (i + 1)..pool.len() { for k in (j + 1)..pool.len() {
            let t = [&pool[i], &pool[j], &pool[k]];
            // named siblings need distinct names
            if kind == 0 {
                let nm = |s: &String| s[s.find("<SHORT-NAME>").unwrap()..s.find("</SHORT-NAME>").unwrap()].to_string();
                if nm(t[0]) == nm(t[1]) || nm(t[1]) == nm(t[2]) || nm(t[0]) == nm(t[2]) { continue; }
            }
            triples += 1;
            let mut first: Option<String> = None;
            for p in perms {
                let order = [t[p[0]], t[p[1]], t[p[2]]];
                let doc = wrap(kind, &order);
                n += 1;
                let Some((once, twice)) = sorted(&doc) else { println!("FAIL the document does not load :: document {}", hex(doc.as_bytes())); return; };
                if once != twice { println!("FAIL sorting twice differs from sorting once :: document {}", hex(doc.as_bytes())); return; }
                match &first {
                    None => first = Some(once),
                    Some(f) => if *f != once { println!("FAIL the sorted result depends on the order the siblings had before (compare with the same siblings in the order 1,2,3) :: document {}", hex(doc.as_bytes())); return; }
                }
            }
        } } }
    }
    println!("OK {} sorts triples={}", n, triples);
}

/// api sortperm1 <document-hex>: sort the document's siblings in all orders of its three innermost siblings is not reconstructible from
/// one document; the replay shows the sorted text of this document and of its reversed sibling order
fn api_sortperm1(args: &[String]) {
    use autosar_data::*;
    let doc = unhex(&args[0]);
    let m = AutosarModel::new();
    if m.load_buffer(&doc, "f.arxml", false).is_err() { println!("{{\"outcome\":\"unknown-check\"}}"); return; }
    m.sort();
    let once = m.root_element().serialize();
    // same content, siblings of the innermost container reversed through the API
    let m2 = AutosarModel::new();
    let _ = m2.load_buffer(&doc, "f.arxml", false);
    let mut deepest: Option<Element> = None;
    for (_, e) in m2.elements_dfs() { if e.sub_elements().count() >= 3 && e.sub_elements().all(|c| c.element_name() == e.sub_elements().next().unwrap().element_name()) { deepest = Some(e); } }
    if let Some(d) = deepest { let kids: Vec<Element> = d.sub_elements().collect(); for k in kids.iter() { let _ = d.move_element_here_at(k, 0); } }
    m2.sort();
    let other = m2.root_element().serialize();
    if once == other { println!("{{\"outcome\":\"ok\"}}") } else { println!("{{\"outcome\":\"panic\",\"message\":\"the same siblings in reversed order sort to a different text\"}}") }
}
