// ---------------------------------------------------------------------------------------------------------------------------------
// api editconform <budget> [seed] [survey]      C07, bounded API-level check (public API only)
// api editconform1 <type-ordinal> <schema-file-name> <seed>      replay of one (element type, version, seed)
//
// For element types reached breadth-first from the root through the specification listing, in versions spread over the type's
// version mask, a deterministic pseudo-random editing script is run on a fresh element of that type:
//   * before every step the reported insertion range of a candidate sub-element is compared with an oracle that places the new
//     element at every position 0..=len and tests the *pairwise* conformance of the resulting child list (sequence order inside a
//     common Sequence group, equality inside a common Choice group, single occurrence unless the multiplicity is Any) -- computed
//     from the public specification lookups, not from calc_element_insert_range;
//   * list_valid_sub_elements().is_allowed must agree with "the oracle has at least one position";
//   * creation is attempted at the range ends, inside and one position outside: it must succeed exactly inside the range, put the
//     new element exactly there and leave everything else as it was; the unnamed/named creation calls must refuse the other kind;
//   * values and attributes are set from inside and outside the value space; an attribute or value the tables do not list for the
//     file version must be refused;
//   * finally the file is serialized and loaded leniently: it must load with no warning other than "required attribute missing"
//     and serialize to the same text again.
// ---------------------------------------------------------------------------------------------------------------------------------

static EC_SORT_ONLY: std::sync::atomic::AtomicBool = std::sync::atomic::AtomicBool::new(false);
struct EcRng(u64);
impl EcRng {
    fn next(&mut self) -> u64 { self.0 ^= self.0 << 13; self.0 ^= self.0 >> 7; self.0 ^= self.0 << 17; self.0 }
    fn below(&mut self, n: usize) -> usize { if n == 0 { 0 } else { (self.next() % n as u64) as usize } }
}

fn ec_pair_ok(t: autosar_data_specification::ElementType, a: &[usize], b: &[usize]) -> bool {
    use autosar_data_specification::{ContentMode, ElementMultiplicity};
    let mode = t.find_common_group(a, b).content_mode();
    let repeat_ok = !matches!(t.get_sub_element_multiplicity(a), Some(ElementMultiplicity::One) | Some(ElementMultiplicity::ZeroOrOne));
    match mode {
        ContentMode::Sequence => a <= b && (a != b || repeat_ok),
        ContentMode::Choice => a == b && repeat_ok,
        ContentMode::Bag | ContentMode::Mixed => true,
        ContentMode::Characters => false,
    }
}

fn ec_conform(t: autosar_data_specification::ElementType, kids: &[Vec<usize>]) -> bool {
    for i in 0..kids.len() { for j in i + 1..kids.len() { if !ec_pair_ok(t, &kids[i], &kids[j]) { return false; } } }
    true
}

/// all element types in breadth-first order with one creation path each: (path of (name, type), version mask of the path)
fn ec_types() -> Vec<(Vec<(autosar_data::ElementName, autosar_data_specification::ElementType)>, u32)> {
    use autosar_data::*;
    use autosar_data_specification::{expand_version_mask, ElementType};
    use std::collections::{HashSet, VecDeque};
    let full: u32 = expand_version_mask(u32::MAX).iter().fold(0u32, |a, v| a | (*v as u32));
    let mut out = Vec::new();
    let mut seen: HashSet<ElementType> = HashSet::new();
    let mut queue: VecDeque<(Vec<(ElementName, ElementType)>, u32)> = VecDeque::new();
    queue.push_back((vec![(ElementName::Autosar, ElementType::ROOT)], full));
    seen.insert(ElementType::ROOT);
    while let Some((path, common)) = queue.pop_front() {
        out.push((path.clone(), common));
        if path.len() > 14 { continue; }
        let t = path.last().unwrap().1;
        for (name, st, mask, _) in t.sub_element_spec_iter() {
            let m = common & mask;
            if m == 0 { continue; }
            if seen.insert(st) {
                let mut p2 = path.clone();
                p2.push((name, st));
                queue.push_back((p2, m));
            }
        }
    }
    out
}

fn ec_value_candidates() -> Vec<&'static str> {
    vec!["1", "0", "a", "A1", "true", "1.5", "0x1F", "/a/b", "2000-01-01", "2000-01-01T00:00:00Z", "x-y", "ABC_DEF", "1.0.0", "a.b", "-1", "ANY", "00:11:22:33:44:55", "1.2.3.4", "EN", "en", "AA", "_a", "R4.0.3", "4.0.3", "#", "0b1", "INF", "1E3", "::1", "a/b", "*", "STRING", "ALL", "0.5", "[1]", "a[1]", "NaN", "1-1"]
}

/// run the script for one (type path, version, seed); Err(description) on the first disagreement
fn ec_one(path: &[(autosar_data::ElementName, autosar_data_specification::ElementType)], v: autosar_data::AutosarVersion, seed: u64, stats: &mut [u64; 6]) -> Result<(), String> {
    use autosar_data::*;
    use autosar_data_specification::{CharacterDataSpec, ContentMode};
    let vm = v as u32;
    let model = AutosarModel::new();
    let file = model.create_file("f.arxml", v).map_err(|e| format!("create_file: {}", e))?;
    let mut cur = model.root_element();
    for (k, (name, st)) in path.iter().enumerate().skip(1) {
        let r = if st.is_named_in_version(v) { cur.create_named_sub_element(*name, &format!("n{}", k)) } else { cur.create_sub_element(*name) };
        match r { Ok(e) => cur = e, Err(_) => return Ok(()) }   // path not creatable in this version: nothing to test here
    }
    let t = path.last().unwrap().1;
    if cur.element_type() != t { return Ok(()); }
    let mut rng = EcRng(seed.wrapping_mul(0x9E3779B97F4A7C15) ^ 0xD1B54A32D192ED03 ^ ((vm as u64) << 32));
    rng.next();
    // the element may already have children (SHORT-NAME): mirror = index lists of the current children
    let mut mirror: Vec<(ElementName, Vec<usize>)> = Vec::new();
    for se in cur.sub_elements() {
        let n = se.element_name();
        let Some((_, idx)) = t.find_sub_element(n, vm) else { return Err(format!("existing child {} is not listed for {:?}", n, v)); };
        mirror.push((n, idx));
    }
    // candidate names: every name listed for this version (first listing wins, like the lookup)
    let mut names: Vec<ElementName> = Vec::new();
    for (n, _, mask, _) in t.sub_element_spec_iter() { if mask & vm != 0 && !names.contains(&n) { names.push(n); } }
    let mode = t.content_mode();
    let describe = |mirror: &Vec<(ElementName, Vec<usize>)>| mirror.iter().map(|(n, i)| format!("{}{:?}", n, i)).collect::<Vec<_>>().join(" ");
    if !names.is_empty() && mode != ContentMode::Characters {
        let steps = 4 + rng.below(10);
        let mut created = 0usize;
        for step in 0..steps {
            let n = names[rng.below(names.len())];
            let Some((st, idx)) = t.find_sub_element(n, vm) else { return Err(format!("listed name {} not found by find_sub_element for {:?}", n, v)); };
            let kids: Vec<Vec<usize>> = mirror.iter().map(|m| m.1.clone()).collect();
            if !ec_conform(t, &kids) { return Err(format!("children built through the API are not in specification order / duplicate an exclusive element: {}", describe(&mirror))); }
            // oracle: positions that keep the child list conformant
            let mut allowed: Vec<usize> = Vec::new();
            for p in 0..=kids.len() {
                let mut k2 = kids.clone();
                k2.insert(p, idx.clone());
                if ec_conform(t, &k2) { allowed.push(p); }
            }
            let contiguous = allowed.windows(2).all(|w| w[1] == w[0] + 1);
            let range = cur.calc_element_insert_range(n, v);
            stats[0] += 1;
            let ctx_tail = format!("[parent {} children: {}; new element {}{:?}; step {}]", cur.element_name(), describe(&mirror), n, idx, step);
            let ctx = |what: String| format!("{} {}", what, ctx_tail);
            match (&range, allowed.first(), allowed.last()) {
                (Err(_), None, None) => {}
                (Ok((a, b)), Some(lo), Some(hi)) if contiguous && a == lo && b == hi => {}
                (Ok((a, b)), _, _) => return Err(ctx(format!("calc_element_insert_range reports {}..={} but the positions that keep the specification order are {:?}", a, b, allowed))),
                (Err(e), _, _) => return Err(ctx(format!("calc_element_insert_range fails ({}) but the positions {:?} keep the specification order", e, allowed))),
            }
            // list_valid_sub_elements agrees (it works with the minimum version of the files the element is in: here v)
            if step == 0 || step == steps - 1 {
                let listed = cur.list_valid_sub_elements();
                stats[1] += 1;
                for info in &listed {
                    let Some((_, i2)) = t.find_sub_element(info.element_name, vm) else { return Err(ctx(format!("list_valid_sub_elements lists {} which is not available in {:?}", info.element_name, v))); };
                    let any = (0..=kids.len()).any(|p| { let mut k2 = kids.clone(); k2.insert(p, i2.clone()); ec_conform(t, &k2) });
                    if any != info.is_allowed { return Err(ctx(format!("list_valid_sub_elements reports {} as {} but {} position keeps the specification order", info.element_name, if info.is_allowed { "allowed" } else { "not allowed" }, if any { "some" } else { "no" }))); }
                }
                for nn in &names { if !listed.iter().any(|i| i.element_name == *nn) { return Err(ctx(format!("list_valid_sub_elements omits {} which the specification lists for {:?}", nn, v))); } }
            }
            // try to create at a chosen position
            let (lo, hi) = match &range { Ok((a, b)) => (*a, *b), Err(_) => (0, kids.len()) };
            // range ends, inside, one outside on either side, far outside, and the extreme values of usize
            let choices = [lo, hi, (lo + hi) / 2, lo, hi, if lo > 0 { lo - 1 } else { hi + 1 }, hi + 1, kids.len() + 7, usize::MAX, usize::MAX - 1];
            let p = choices[rng.below(choices.len())];
            let named = st.is_named_in_version(v);
            // the wrong kind of call is refused and changes nothing
            if rng.below(4) == 0 {
                let before = cur.serialize();
                let r = if named { cur.create_sub_element_at(n, p) } else { cur.create_named_sub_element_at(n, &format!("w{}", step), p) };
                stats[2] += 1;
                if r.is_ok() { return Err(ctx(format!("{} creation of {} at {} succeeded", if named { "unnamed" } else { "named" }, n, p))); }
                if cur.serialize() != before { return Err(ctx(format!("a refused creation of {} changed the element", n))); }
            }
            let before_count = cur.sub_elements().count();
            let r = if named { cur.create_named_sub_element_at(n, &format!("e{}_{}", created, step), p) } else { cur.create_sub_element_at(n, p) };
            stats[2] += 1;
            let expect_ok = range.is_ok() && lo <= p && p <= hi;
            match (&r, expect_ok) {
                (Ok(_), true) | (Err(_), false) => {}
                (Ok(_), false) => return Err(ctx(format!("creation at position {} succeeded although the reported range is {:?}", p, range.as_ref().ok()))),
                (Err(e), true) => return Err(ctx(format!("creation at position {} inside the reported range {}..={} failed: {}", p, lo, hi, e))),
            }
            let now: Vec<ElementName> = cur.sub_elements().map(|e| e.element_name()).collect();
            if let Ok(e) = &r {
                created += 1;
                mirror.insert(p, (n, idx.clone()));
                let want: Vec<ElementName> = mirror.iter().map(|m| m.0).collect();
                if now != want { return Err(ctx(format!("after creating {} at {} the children are {:?}, expected {:?}", n, p, now, want))); }
                if e.element_type() != st { return Err(ctx(format!("the created {} has a type other than the one listed for {:?}", n, v))); }
            } else if now.len() != before_count { return Err(ctx(format!("a refused creation of {} changed the children", n))); }
        }
    }
    let sort_only = EC_SORT_ONLY.load(std::sync::atomic::Ordering::Relaxed);
    if sort_only {
        cur.sort();
        let mut kids: Vec<Vec<usize>> = Vec::new();
        for se in cur.sub_elements() { if let Some((_, idx)) = t.find_sub_element(se.element_name(), vm) { kids.push(idx); } }
        stats[5] += 1;
        if !ec_conform(t, &kids) { return Err(format!("after sort() the children of {} are not in specification order for {}: {:?}", cur.element_name(), v.filename(), cur.sub_elements().map(|e| e.element_name().to_string()).collect::<Vec<_>>())); }
        let once = cur.serialize();
        cur.sort();
        if cur.serialize() != once { return Err(format!("sorting {} twice differs from sorting once", cur.element_name())); }
        return Ok(());
    }
    // values and attributes on the element itself and on its children
    let mut targets: Vec<Element> = vec![cur.clone()];
    targets.extend(cur.sub_elements().take(6));
    for e in &targets {
        let et = e.element_type();
        if let Some(spec) = et.chardata_spec() {
            // set_character_data on a Mixed element that has sub-elements replaces them all (probe `mixed-set-character-data`,
            // known finding F-C07-mixed-set-character-data): the script leaves such elements alone so that it keeps looking for
            // other disagreements
            let mixed_with_children = et.content_mode() == ContentMode::Mixed && e.sub_elements().next().is_some();
            if e.element_name() != ElementName::ShortName && !et.is_ref() && !mixed_with_children {
                match spec {
                    CharacterDataSpec::Enum { items } => {
                        for (it, im) in items.iter().take(40) {
                            let r = e.set_character_data(CharacterData::Enum(*it));
                            stats[3] += 1;
                            if r.is_ok() != (im & vm != 0) { return Err(format!("set_character_data({}) on {} {} although the tables {} the value for {:?}", it, e.element_name(), if r.is_ok() { "succeeds" } else { "fails" }, if im & vm != 0 { "list" } else { "do not list" }, v)); }
                        }
                        if let Some((it, _)) = items.iter().find(|(_, im)| im & vm != 0) { let _ = e.set_character_data(CharacterData::Enum(*it)); } else { let _ = e.remove_character_data(); }
                    }
                    CharacterDataSpec::Pattern { max_length, .. } => {
                        let cands = ec_value_candidates();
                        let k0 = rng.below(cands.len());
                        for k in 0..cands.len() { stats[3] += 1; if e.set_character_data(CharacterData::String(cands[(k0 + k) % cands.len()].to_string())).is_ok() { break; } }
                        if let Some(ml) = max_length {
                            let before = e.character_data();
                            if e.set_character_data(CharacterData::String("1".repeat(ml + 1))).is_ok() { return Err(format!("set_character_data accepts a text of {} bytes on {} whose max_length is {}", ml + 1, e.element_name(), ml)); }
                            if e.character_data() != before { return Err(format!("a refused set_character_data changed the value of {}", e.element_name())); }
                        }
                    }
                    CharacterDataSpec::String { max_length, .. } => {
                        stats[3] += 1;
                        if e.set_character_data(CharacterData::String("text <&> \"q\"".to_string())).is_err() { return Err(format!("set_character_data refuses a plain text on {}", e.element_name())); }
                        if let Some(ml) = max_length { if e.set_character_data(CharacterData::String("x".repeat(ml + 1))).is_ok() { return Err(format!("set_character_data accepts a text of {} bytes on {} whose max_length is {}", ml + 1, e.element_name(), ml)); } }
                        if e.set_character_data(CharacterData::UnsignedInteger(1)).is_ok() && !matches!(e.character_data(), Some(CharacterData::String(_))) { return Err(format!("a number was stored as such in the text element {}", e.element_name())); }
                    }
                    CharacterDataSpec::UnsignedInteger => {
                        stats[3] += 2;
                        if e.set_character_data(CharacterData::UnsignedInteger(rng.next())).is_err() { return Err(format!("set_character_data refuses an unsigned integer on {}", e.element_name())); }
                        let before = e.character_data();
                        if e.set_character_data(CharacterData::String("twelve".to_string())).is_ok() { return Err(format!("set_character_data accepts the text 'twelve' on the integer element {}", e.element_name())); }
                        if e.character_data() != before { return Err(format!("a refused set_character_data changed the value of {}", e.element_name())); }
                    }
                    CharacterDataSpec::Float => {
                        stats[3] += 2;
                        if e.set_character_data(CharacterData::Float(1.5)).is_err() { return Err(format!("set_character_data refuses a float on {}", e.element_name())); }
                        if e.set_character_data(CharacterData::String("one.five".to_string())).is_ok() { return Err(format!("set_character_data accepts the text 'one.five' on the float element {}", e.element_name())); }
                    }
                }
            }
        }
        // the attributes of the root element carry the file header (namespace, schema location = the file's version): the file
        // format fixes them, so the script does not overwrite them (see known finding F-C07-root-header-attributes)
        if e.element_name() == ElementName::Autosar { continue; }
        for (an, aspec, _req) in et.attribute_spec_iter() {
            let Some(full) = et.find_attribute_spec(an) else { return Err(format!("attribute {} of {} is listed but not found", an, e.element_name())); };
            let avail = full.version & vm != 0;
            // a value from the value space, if one is easy to make
            let val: Option<(CharacterData, bool)> = match aspec {
                CharacterDataSpec::Enum { items } => {
                    let pick = items[rng.below(items.len())];
                    Some((CharacterData::Enum(pick.0), pick.1 & vm != 0))
                }
                CharacterDataSpec::String { .. } => Some((CharacterData::String("v".to_string()), true)),
                CharacterDataSpec::UnsignedInteger => Some((CharacterData::UnsignedInteger(7), true)),
                CharacterDataSpec::Float => Some((CharacterData::Float(0.25), true)),
                CharacterDataSpec::Pattern { check_fn, max_length, .. } => ec_value_candidates().into_iter().find(|c| check_fn(c.as_bytes()) && max_length.map_or(true, |m| c.len() <= m)).map(|c| (CharacterData::String(c.to_string()), true)),
            };
            let Some((val, val_ok)) = val else { continue };
            let before: Vec<(AttributeName, CharacterData)> = e.attributes().map(|a| (a.attrname, a.content)).collect();
            // the typed call and the string call, alternating
            let use_string = rng.below(2) == 0;
            let r = if use_string { e.set_attribute_string(an, &val.to_string()) } else { e.set_attribute(an, val.clone()) };
            stats[4] += 1;
            let expect = avail && val_ok;
            if r.is_ok() != expect {
                return Err(format!("{}({}, {:?}) on {} {} although the tables {} the attribute and {} the value for {:?}", if use_string { "set_attribute_string" } else { "set_attribute" }, an, val, e.element_name(), if r.is_ok() { "succeeds" } else { "fails" },
                                   if avail { "list" } else { "do not list" }, if val_ok { "list" } else { "do not list" }, v));
            }
            if r.is_err() {
                let after: Vec<(AttributeName, CharacterData)> = e.attributes().map(|a| (a.attrname, a.content)).collect();
                if after != before { return Err(format!("a refused set_attribute({}) changed the attributes of {}", an, e.element_name())); }
            }
        }
    }
    // copy one of the children inside the element, at a position around the range of its name
    let kids_now: Vec<Element> = cur.sub_elements().collect();
    if let Some(c) = kids_now.iter().filter(|c| c.element_name() != ElementName::ShortName).nth(rng.below(kids_now.len().max(1)) % kids_now.len().max(1)).or(kids_now.iter().find(|c| c.element_name() != ElementName::ShortName)) {
        let n = c.element_name();
        let range = cur.calc_element_insert_range(n, v);
        let (lo, hi) = match &range { Ok((a, b)) => (*a, *b), Err(_) => (0, kids_now.len()) };
        let choices = [lo, hi, if lo > 0 { lo - 1 } else { hi + 1 }, hi + 1, usize::MAX, usize::MAX - 1];
        let p = choices[rng.below(choices.len())];
        let before: Vec<ElementName> = cur.sub_elements().map(|e| e.element_name()).collect();
        let r = cur.create_copied_sub_element_at(c, p);
        stats[2] += 1;
        let expect_ok = range.is_ok() && lo <= p && p <= hi;
        let after: Vec<ElementName> = cur.sub_elements().map(|e| e.element_name()).collect();
        match (&r, expect_ok) {
            (Ok(_), false) => return Err(format!("create_copied_sub_element_at({}, {}) succeeded although the reported range is {:?} [parent {} children {:?}]", n, p, range.as_ref().ok(), cur.element_name(), before)),
            (Err(e), true) => return Err(format!("create_copied_sub_element_at({}, {}) inside the reported range {}..={} failed: {} [parent {} children {:?}]", n, p, lo, hi, e, cur.element_name(), before)),
            (Ok(_), true) => { let mut want = before.clone(); want.insert(p, n); if after != want { return Err(format!("after create_copied_sub_element_at({}, {}) the children are {:?}, expected {:?}", n, p, after, want)); } }
            (Err(_), false) => { if after != before { return Err(format!("a refused create_copied_sub_element_at({}) changed the children", n)); } }
        }
    }
    // move a child to another position inside the element, and a child of a sibling copy into the element
    {
        let kids_now: Vec<Element> = cur.sub_elements().collect();
        let movable: Vec<&Element> = kids_now.iter().filter(|c| c.element_name() != ElementName::ShortName).collect();
        if !movable.is_empty() {
            let c = movable[rng.below(movable.len())];
            let n = c.element_name();
            let range = cur.calc_element_insert_range(n, v);
            let (lo, hi) = match &range { Ok((a, b)) => (*a, *b), Err(_) => (0, kids_now.len()) };
            let choices = [lo, hi, if lo > 0 { lo - 1 } else { hi + 1 }, hi + 1, usize::MAX];
            let p = choices[rng.below(choices.len())];
            let before: Vec<ElementName> = cur.sub_elements().map(|e| e.element_name()).collect();
            // without a position: moving a child into its own parent succeeds when the child may be there, and must keep the order
            if rng.below(3) == 0 {
                let r0 = cur.move_element_here(c);
                stats[2] += 1;
                let after0: Vec<ElementName> = cur.sub_elements().map(|e| e.element_name()).collect();
                if r0.is_ok() != range.is_ok() { return Err(format!("move_element_here({}) into its own parent {} although calc_element_insert_range {} [parent {} children {:?}]", n, if r0.is_ok() { "succeeds" } else { "fails" }, if range.is_ok() { "succeeds" } else { "fails" }, cur.element_name(), before)); }
                let mut kids: Vec<Vec<usize>> = Vec::new();
                for se in cur.sub_elements() { if let Some((_, idx)) = t.find_sub_element(se.element_name(), vm) { kids.push(idx); } }
                if after0.len() != before.len() || !ec_conform(t, &kids) { return Err(format!("after move_element_here({}) into its own parent the children are {:?} (were {:?}): not in specification order or not the same number", n, after0, before)); }
            }
            let before: Vec<ElementName> = cur.sub_elements().map(|e| e.element_name()).collect();
            let range = cur.calc_element_insert_range(n, v);
            let (lo, hi) = match &range { Ok((a, b)) => (*a, *b), Err(_) => (0, before.len()) };
            let p = if p == usize::MAX { p } else { [lo, hi, if lo > 0 { lo - 1 } else { hi + 1 }, hi + 1][rng.below(4)] };
            let r = cur.move_element_here_at(c, p);
            stats[2] += 1;
            let after: Vec<ElementName> = cur.sub_elements().map(|e| e.element_name()).collect();
            // the moved element occupies one position of its own range: final positions lo ..= hi-1
            let expect_ok = range.is_ok() && lo <= p && p < hi;
            match (&r, expect_ok) {
                (Ok(_), false) => return Err(format!("move_element_here_at({}, {}) inside its parent succeeded although the reported range is {:?} and the parent has {} children [parent {} children {:?}]", n, p, range.as_ref().ok(), before.len(), cur.element_name(), before)),
                (Err(e), true) => return Err(format!("move_element_here_at({}, {}) inside its parent, inside the reported range {}..={}, failed: {} [parent {} children {:?}]", n, p, lo, hi, e, cur.element_name(), before)),
                (Ok(m), true) => {
                    if after.len() != before.len() || m.position() != Some(p) { return Err(format!("after move_element_here_at({}, {}) inside its parent the element is at {:?} and the parent has {} children (had {})", n, p, m.position(), after.len(), before.len())); }
                    let mut kids: Vec<Vec<usize>> = Vec::new();
                    for se in cur.sub_elements() { if let Some((_, idx)) = t.find_sub_element(se.element_name(), vm) { kids.push(idx); } }
                    if !ec_conform(t, &kids) { return Err(format!("after move_element_here_at({}, {}) inside its parent the children are not in specification order: {:?}", n, p, after)); }
                }
                (Err(_), false) => { if after != before { return Err(format!("a refused move_element_here_at({}) changed the children", n)); } }
            }
        }
        // a sibling copy of the element (same file, same version) donates one of its children
        if let (Ok(Some(parent)), true) = (cur.parent(), rng.below(2) == 0) {
            if let Ok(sib) = parent.create_copied_sub_element(&cur) {
                let donors: Vec<Element> = sib.sub_elements().filter(|c| c.element_name() != ElementName::ShortName).collect();
                if !donors.is_empty() {
                    let c = &donors[rng.below(donors.len())];
                    let n = c.element_name();
                    let range = cur.calc_element_insert_range(n, v);
                    let before: Vec<ElementName> = cur.sub_elements().map(|e| e.element_name()).collect();
                    let (lo, hi) = match &range { Ok((a, b)) => (*a, *b), Err(_) => (0, before.len()) };
                    let choices = [lo, hi, if lo > 0 { lo - 1 } else { hi + 1 }, hi + 1, usize::MAX];
                    let p = choices[rng.below(choices.len())];
                    let donor_before: Vec<Element> = sib.sub_elements().collect();
                    let r = cur.move_element_here_at(c, p);
                    stats[2] += 1;
                    let after: Vec<ElementName> = cur.sub_elements().map(|e| e.element_name()).collect();
                    // the parent the element came from: the same children in the same order, without the moved one (or untouched when refused)
                    let donor_after: Vec<Element> = sib.sub_elements().collect();
                    let donor_want: Vec<Element> = if r.is_ok() { donor_before.iter().filter(|e| *e != c).cloned().collect() } else { donor_before.clone() };
                    if donor_after != donor_want {
                        return Err(format!("after move_element_here_at({}, {}) from a sibling the parent the element came from has the children {:?}, expected {:?} (the old children in their order{})", n, p,
                            donor_after.iter().map(|e| e.element_name()).collect::<Vec<_>>(), donor_want.iter().map(|e| e.element_name()).collect::<Vec<_>>(), if r.is_ok() { ", without the moved one" } else { "" }));
                    }
                    let expect_ok = range.is_ok() && lo <= p && p <= hi;
                    match (&r, expect_ok) {
                        (Ok(_), false) => return Err(format!("move_element_here_at({}, {}) from a sibling succeeded although the reported range is {:?} [parent {} children {:?}]", n, p, range.as_ref().ok(), cur.element_name(), before)),
                        (Err(e), true) => return Err(format!("move_element_here_at({}, {}) from a sibling, inside the reported range {}..={}, failed: {} [parent {} children {:?}]", n, p, lo, hi, e, cur.element_name(), before)),
                        (Ok(_), true) => { let mut want = before.clone(); want.insert(p, n); if after != want { return Err(format!("after move_element_here_at({}, {}) from a sibling the children are {:?}, expected {:?}", n, p, after, want)); } }
                        (Err(_), false) => { if after != before { return Err(format!("a refused move_element_here_at({}) from a sibling changed the children", n)); } }
                    }
                }
                let _ = parent.remove_sub_element(sib);
            }
        }
    }
    // copy a child into its own parent without a position: allowed exactly when another one may be created, and lands at the range end
    {
        let kids_now: Vec<Element> = cur.sub_elements().collect();
        let copyable: Vec<&Element> = kids_now.iter().filter(|c| c.element_name() != ElementName::ShortName).collect();
        if !copyable.is_empty() && rng.below(2) == 0 {
            let c = copyable[rng.below(copyable.len())];
            let n = c.element_name();
            let range = cur.calc_element_insert_range(n, v);
            let before: Vec<ElementName> = cur.sub_elements().map(|e| e.element_name()).collect();
            let r = cur.create_copied_sub_element(c);
            stats[2] += 1;
            let after: Vec<ElementName> = cur.sub_elements().map(|e| e.element_name()).collect();
            match (&r, &range) {
                (Ok(_), Err(_)) => return Err(format!("create_copied_sub_element({}) into its own parent succeeded although calc_element_insert_range refuses another {} [parent {} children {:?}]", n, n, cur.element_name(), before)),
                (Err(e), Ok(_)) => return Err(format!("create_copied_sub_element({}) into its own parent failed ({}) although calc_element_insert_range allows another {} [parent {} children {:?}]", n, e, n, cur.element_name(), before)),
                (Ok(_), Ok((_, hi))) => { let mut want = before.clone(); want.insert(*hi, n); if after != want { return Err(format!("after create_copied_sub_element({}) into its own parent the children are {:?}, expected {:?}", n, after, want)); } }
                (Err(_), Err(_)) => { if after != before { return Err(format!("a refused create_copied_sub_element({}) changed the children", n)); } }
            }
        }
    }
    // copy the whole element into a file of another version: whatever arrives must be permitted there
    if path.len() >= 2 && rng.below(3) == 0 {
        let others = autosar_data_specification::expand_version_mask(u32::MAX);
        let v2 = others[rng.below(others.len())];
        if v2 != v {
            let model2 = AutosarModel::new();
            if let Ok(file2) = model2.create_file("f2.arxml", v2) {
                let mut cur2 = model2.root_element();
                let mut ok = true;
                for (k, (name, _)) in path.iter().enumerate().skip(1).take(path.len() - 2) {
                    let named = cur2.element_type().find_sub_element(*name, v2 as u32).map(|(t, _)| t.is_named_in_version(v2));
                    let r = match named { Some(true) => cur2.create_named_sub_element(*name, &format!("n{}", k)), Some(false) => cur2.create_sub_element(*name), None => { ok = false; break; } };
                    match r { Ok(e) => cur2 = e, Err(_) => { ok = false; break; } }
                }
                if ok {
                    let before = cur2.serialize();
                    let r = cur2.create_copied_sub_element(&cur);
                    stats[2] += 1;
                    match r {
                        Err(_) => { if cur2.serialize() != before { return Err(format!("a refused create_copied_sub_element of {} into a {} file changed the target", cur.element_name(), v2.filename())); } }
                        Ok(copy) => {
                            if cur2.element_type().find_sub_element(copy.element_name(), v2 as u32).is_none() { return Err(format!("{} copied into a {} file although the specification does not list it there", copy.element_name(), v2.filename())); }
                            // Does the copied subtree contain an element whose type depends on the version?  (deep_copy keeps the
                            // source's element types; the recorded finding F-C07-cross-version-copy is about exactly these histories)
                            fn ec_retyped(e: &Element, expect: autosar_data_specification::ElementType, v2: AutosarVersion) -> bool {
                                if e.element_type() != expect { return true; }
                                for c in e.sub_elements() {
                                    match expect.find_sub_element(c.element_name(), v2 as u32) { Some((t, _)) => if ec_retyped(&c, t, v2) { return true; }, None => {} }
                                }
                                false
                            }
                            let expect = cur2.element_type().find_sub_element(copy.element_name(), v2 as u32).map(|x| x.0).unwrap();
                            let retyped = ec_retyped(&copy, expect, v2);
                            let tag = if retyped { "cross-version copy with version-dependent element type: " } else { "" };
                            // what the copy reports as allowed can be created in it, and the loader accepts the result
                            for k in 0..3 {
                                let Some(info) = copy.list_valid_sub_elements().into_iter().filter(|i| i.is_allowed).nth(k) else { break };
                                let r = if info.is_named { copy.create_named_sub_element(info.element_name, &format!("cc{}", k)) } else { copy.create_sub_element(info.element_name) };
                                if let Err(e) = r { return Err(format!("{}an element reported as allowed cannot be created in the copy [{} copied from a {} file into a {} file reports {} as allowed but creating it fails: {}]", tag, copy.element_name(), v.filename(), v2.filename(), info.element_name, e)); }
                            }
                            let text2 = file2.serialize().map_err(|e| format!("serialize: {}", e))?;
                            match AutosarModel::new().load_buffer(text2.as_bytes(), "g2.arxml", false) {
                                Err(e) => return Err(format!("{}the target file is rejected by lenient loading [after copying {} from a {} file into a {} file: {}] :: document {}", tag, cur.element_name(), v.filename(), v2.filename(), e, hex(text2.as_bytes()))),
                                Ok((_, warnings)) => for w in &warnings {
                                    let s = w.to_string();
                                    if !s.contains("is required in element") { return Err(format!("{}lenient loading of the target file complains [after copying {} from a {} file into a {} file: {}] :: document {}", tag, cur.element_name(), v.filename(), v2.filename(), s, hex(text2.as_bytes()))); }
                                }
                            }
                        }
                    }
                }
            }
        }
    }
    // sorting keeps the children in specification order for the file's version (C14 "keeps the model valid", seen through the C07 oracle)
    {
        cur.sort();
        let mut kids: Vec<Vec<usize>> = Vec::new();
        for se in cur.sub_elements() {
            if let Some((_, idx)) = t.find_sub_element(se.element_name(), vm) { kids.push(idx); }
        }
        if !ec_conform(t, &kids) { return Err(format!("after sort() the children of {} are not in specification order for {}: {:?}", cur.element_name(), v.filename(), cur.sub_elements().map(|e| e.element_name().to_string()).collect::<Vec<_>>())); }
    }
    // serialize -> lenient load -> serialize
    let text = file.serialize().map_err(|e| format!("serialize: {}", e))?;
    stats[5] += 1;
    let m2 = AutosarModel::new();
    match m2.load_buffer(text.as_bytes(), "g.arxml", false) {
        Err(e) => return Err(format!("the file built through the API is rejected by lenient loading: {} :: document {}", e, hex(text.as_bytes()))),
        Ok((f2, warnings)) => {
            for w in &warnings {
                let s = w.to_string();
                if !s.contains("is required in element") { return Err(format!("lenient loading of the file built through the API complains: {} :: document {}", s, hex(text.as_bytes()))); }
            }
            let t2 = f2.serialize().map_err(|e| format!("serialize: {}", e))?;
            if t2 != text { return Err(format!("the file built through the API does not survive load + serialize unchanged :: document {}", hex(text.as_bytes()))); }
        }
    }
    // last step (it takes the element out of this model when it succeeds): MOVE the whole element into a file of another version.  A move
    // relinks the sub-tree as it is, nothing is filtered; whatever arrives must be permitted in the destination's version (the pinned
    // code refuses every such move: "the origin document must have exactly the same AutosarVersion as the destination")
    if path.len() >= 2 && rng.below(2) == 0 {
        let all = autosar_data_specification::expand_version_mask(u32::MAX);
        let (_, okmask) = file.check_version_compatibility(v);
        let bad: Vec<AutosarVersion> = all.iter().cloned().filter(|x| (*x as u32) & okmask == 0).collect();
        let v3 = if !bad.is_empty() && rng.below(3) != 0 { bad[rng.below(bad.len())] } else { all[rng.below(all.len())] };
        if v3 != v {
            let model3 = AutosarModel::new();
            if let Ok(file3) = model3.create_file("f3.arxml", v3) {
                let mut cur3 = model3.root_element();
                let mut ok = true;
                for (k, (name, _)) in path.iter().enumerate().skip(1).take(path.len() - 2) {
                    let named = cur3.element_type().find_sub_element(*name, v3 as u32).map(|(t, _)| t.is_named_in_version(v3));
                    let r = match named { Some(true) => cur3.create_named_sub_element(*name, &format!("n{}", k)), Some(false) => cur3.create_sub_element(*name), None => { ok = false; break; } };
                    match r { Ok(e) => cur3 = e, Err(_) => { ok = false; break; } }
                }
                if ok {
                    let before = file3.serialize().map_err(|e| format!("serialize: {}", e))?;
                    let at = rng.below(2) == 0;
                    let r = if at { cur3.move_element_here_at(&cur, 0) } else { cur3.move_element_here(&cur) };
                    let text3 = file3.serialize().map_err(|e| format!("serialize: {}", e))?;
                    match r {
                        Err(_) => { if text3 != before { return Err(format!("a refused move of {} into a {} file changed the destination", cur.element_name(), v3.filename())); } }
                        Ok(_) => {
                            let what = format!("after {}({}) from a {} file into a {} file", if at { "move_element_here_at" } else { "move_element_here" }, cur.element_name(), v.filename(), v3.filename());
                            match AutosarModel::new().load_buffer(text3.as_bytes(), "g3.arxml", false) {
                                Err(e) => return Err(format!("cross-version move: the destination file is rejected by lenient loading [{}: {}] :: document {}", what, e, hex(text3.as_bytes()))),
                                Ok((_, warnings)) => for w in &warnings {
                                    let s = w.to_string();
                                    if !s.contains("is required in element") { return Err(format!("cross-version move: lenient loading of the destination file complains [{}: {}] :: document {}", what, s, hex(text3.as_bytes()))); }
                                }
                            }
                        }
                    }
                }
            }
        }
    }
    Ok(())
}

fn ec_versions_for(mask: u32, ordinal: usize, per_type: usize) -> Vec<autosar_data::AutosarVersion> {
    let all = autosar_data_specification::expand_version_mask(mask);
    if all.len() <= per_type { return all; }
    let mut out = Vec::new();
    for k in 0..per_type {
        let v = all[(ordinal + k * all.len() / per_type) % all.len()];
        if !out.contains(&v) { out.push(v); }
    }
    let last = *all.last().unwrap();
    if !out.contains(&last) { out[0] = last; }
    out
}

fn api_sortorder(args: &[String]) {
    EC_SORT_ONLY.store(true, std::sync::atomic::Ordering::Relaxed);
    api_editconform(args);
}

fn api_editconform(args: &[String]) {
    let budget: usize = args.get(0).and_then(|s| s.parse().ok()).unwrap_or(2000);
    let seed: u64 = args.get(1).and_then(|s| s.parse().ok()).unwrap_or(1);
    let survey = args.get(2).map(|s| s == "survey").unwrap_or(false);
    let types = ec_types();
    // spread the budget: every type in at least one version while the budget lasts, then more versions
    let per_type = (budget / types.len().max(1)).clamp(1, 21);
    let step = if budget < types.len() { (types.len() / budget.max(1)).max(1) } else { 1 };
    let mut stats = [0u64; 6];
    let (mut runs, mut nfail) = (0u64, 0u64);
    let mut seen_fail: Vec<String> = Vec::new();
    for (ord, (path, mask)) in types.iter().enumerate().step_by(step) {
        for v in ec_versions_for(*mask, ord, per_type) {
            runs += 1;
            if let Err(e) = ec_one(path, v, seed.wrapping_add(ord as u64), &mut stats) {
                let head: String = e.split(" [").next().unwrap_or("").chars().take(110).collect();
                if survey { if !seen_fail.contains(&head) { seen_fail.push(head); println!("FAIL {} [type #{} {} in {}; replay: api editconform1 {} {} {}]", e, ord, path.last().unwrap().0, v.filename(), ord, v.filename(), seed.wrapping_add(ord as u64)); } nfail += 1; continue; }
                println!("FAIL {} [type #{} {} in {}] :: replay {} {} {}", e, ord, path.last().unwrap().0, v.filename(), ord, v.filename(), seed.wrapping_add(ord as u64));
                return;
            }
        }
    }
    if nfail == 0 { println!("OK {} scripts types={} of {} ranges={} listings={} creations={} values={} attributes={} reloads={}", runs, (types.len() + step - 1) / step, types.len(), stats[0], stats[1], stats[2], stats[3], stats[4], stats[5]); }
    else { println!("SURVEY failures={} kinds={} scripts={}", nfail, seen_fail.len(), runs); }
}

fn api_sortorder1(args: &[String]) {
    EC_SORT_ONLY.store(true, std::sync::atomic::Ordering::Relaxed);
    api_editconform1(args);
}

fn api_editconform1(args: &[String]) {
    use std::str::FromStr;
    let ord: usize = args.get(0).and_then(|s| s.parse().ok()).unwrap_or(0);
    let Ok(v) = autosar_data::AutosarVersion::from_str(args.get(1).map(|s| s.as_str()).unwrap_or("")) else { println!("{{\"outcome\":\"unknown-check\"}}"); return };
    let seed: u64 = args.get(2).and_then(|s| s.parse().ok()).unwrap_or(1);
    let types = ec_types();
    if ord >= types.len() { println!("{{\"outcome\":\"unknown-check\"}}"); return; }
    let mut stats = [0u64; 6];
    match ec_one(&types[ord].0, v, seed, &mut stats) { Ok(()) => println!("{{\"outcome\":\"ok\"}}"), Err(e) => println!("{{\"outcome\":\"panic\",\"message\":{:?}}}", e) }
}


/// api editprobe <name>: one fixed editing history per recorded finding (and nothing else); prints OK or FAIL <what>
fn api_editprobe(args: &[String]) {
    use autosar_data::*;
    let which = args.get(0).map(|s| s.as_str()).unwrap_or("");
    let reload = |file: &ArxmlFile| -> Result<(), String> {
        let text = file.serialize().map_err(|e| format!("serialize: {}", e))?;
        match AutosarModel::new().load_buffer(text.as_bytes(), "g.arxml", false) {
            Err(e) => Err(format!("lenient loading rejects the serialized file: {}", e)),
            Ok((_, w)) => match w.iter().map(|x| x.to_string()).find(|s| !s.contains("is required in element")) { Some(s) => Err(format!("lenient loading complains: {}", s)), None => Ok(()) },
        }
    };
    let r: Result<(), String> = match which {
        "lenient-foreign-child" => (|| {
            // POST-BUILD-VARIANT-SUPPORT does not exist in AUTOSAR_4-0-1: lenient loading keeps it and warns
            let doc = "<?xml version=\"1.0\" encoding=\"utf-8\"?>\n<AUTOSAR xsi:schemaLocation=\"http://autosar.org/schema/r4.0 AUTOSAR_4-0-1.xsd\" xmlns=\"http://autosar.org/schema/r4.0\" xmlns:xsi=\"http://www.w3.org/2001/XMLSchema-instance\"><AR-PACKAGES><AR-PACKAGE><SHORT-NAME>p</SHORT-NAME><ELEMENTS><ECUC-MODULE-DEF><SHORT-NAME>m</SHORT-NAME><POST-BUILD-VARIANT-SUPPORT>true</POST-BUILD-VARIANT-SUPPORT></ECUC-MODULE-DEF></ELEMENTS></AR-PACKAGE></AR-PACKAGES></AUTOSAR>";
            let model = AutosarModel::new();
            let Ok((_, warnings)) = model.load_buffer(doc.as_bytes(), "f.arxml", false) else { return Ok(()) };
            if warnings.is_empty() { return Ok(()); }
            let Some(m) = model.get_element_by_path("/p/m") else { return Ok(()) };
            let r = std::panic::catch_unwind(std::panic::AssertUnwindSafe(|| {
                let _ = m.calc_element_insert_range(ElementName::Desc, AutosarVersion::Autosar_4_0_1);
                let _ = m.list_valid_sub_elements();
                let _ = m.create_sub_element(ElementName::Desc);
                let _ = m.create_sub_element_at(ElementName::Category, 1);
            }));
            match r { Ok(()) => Ok(()), Err(_) => Err("after lenient loading of an AUTOSAR_4-0-1 file whose ECUC-MODULE-DEF contains POST-BUILD-VARIANT-SUPPORT (not available in 4.0.1), calc_element_insert_range / list_valid_sub_elements / create_sub_element on that element panic".to_string()) }
        })(),
        "root-header-attributes" => (|| {
            let model = AutosarModel::new();
            let file = model.create_file("f.arxml", AutosarVersion::LATEST).map_err(|e| e.to_string())?;
            model.root_element().create_sub_element(ElementName::ArPackages).map_err(|e| e.to_string())?;
            match model.root_element().set_attribute(AttributeName::xmlns, CharacterData::String("v".to_string())) {
                Err(_) => Ok(()),
                Ok(()) => reload(&file).map_err(|e| format!("after the successful call root.set_attribute(xmlns, \"v\"): {}", e)),
            }
        })(),
        "mixed-set-character-data" => (|| {
            let v = AutosarVersion::Autosar_4_0_1;
            let model = AutosarModel::new();
            let file = model.create_file("f.arxml", v).map_err(|e| e.to_string())?;
            let e = model.root_element().create_sub_element(ElementName::ArPackages)
                .and_then(|e| e.create_named_sub_element(ElementName::ArPackage, "p"))
                .and_then(|e| e.create_sub_element(ElementName::Elements))
                .and_then(|e| e.create_named_sub_element(ElementName::EcucModuleDef, "m"))
                .and_then(|e| e.create_sub_element(ElementName::Containers))
                .and_then(|e| e.create_named_sub_element(ElementName::EcucParamConfContainerDef, "c"))
                .and_then(|e| e.create_sub_element(ElementName::Parameters))
                .and_then(|e| e.create_named_sub_element(ElementName::EcucAddInfoParamDef, "a"))
                .and_then(|e| e.create_sub_element(ElementName::Derivation))
                .and_then(|e| e.create_sub_element(ElementName::EcucQuerys))
                .and_then(|e| e.create_named_sub_element(ElementName::EcucQueryExpression, "q"));
            let Ok(e) = e else { return Ok(()) };     // the scenario can no longer be built: nothing to report
            let path = e.path().map_err(|x| x.to_string())?;
            match e.set_character_data(CharacterData::String("1".to_string())) {
                Err(_) => Ok(()),
                Ok(()) => {
                    reload(&file).map_err(|x| format!("after the successful call set_character_data(\"1\") on the identifiable Mixed-content element {} (its SHORT-NAME was dropped): {}", path, x))?;
                    if model.get_element_by_path(&path).is_some() && e.item_name().is_none() { return Err(format!("after set_character_data on {}, the element has no name but is still found under its old path", path)); }
                    Ok(())
                }
            }
        })(),
        "foreign-type-move" | "foreign-type-copy" => (|| {
            // ALGORITHM-FAMILY is a free text in CRYPTO-SERVICE-KEY and an enumeration in CRYPTO-SERVICE-CERTIFICATE (same name, two element types)
            let v = AutosarVersion::Autosar_00050;
            let model = AutosarModel::new();
            let file = model.create_file("f.arxml", v).map_err(|e| e.to_string())?;
            let elements = model.root_element().create_sub_element(ElementName::ArPackages)
                .and_then(|e| e.create_named_sub_element(ElementName::ArPackage, "p"))
                .and_then(|e| e.create_sub_element(ElementName::Elements));
            let Ok(elements) = elements else { return Ok(()) };
            let Ok(key) = elements.create_named_sub_element(ElementName::CryptoServiceKey, "k") else { return Ok(()) };
            let Ok(cert) = elements.create_named_sub_element(ElementName::CryptoServiceCertificate, "c") else { return Ok(()) };
            let Ok(af) = key.create_sub_element(ElementName::AlgorithmFamily) else { return Ok(()) };
            if af.set_character_data(CharacterData::String("not an enum item".to_string())).is_err() { return Ok(()); }
            // the scenario needs the two types to differ: a value the editor refuses for an element created in the destination
            let Ok(own) = cert.create_sub_element(ElementName::AlgorithmFamily) else { return Ok(()) };
            if own.element_type() == af.element_type() || own.set_character_data(CharacterData::String("not an enum item".to_string())).is_ok() { return Ok(()); }
            cert.remove_sub_element(own).map_err(|e| e.to_string())?;
            let (call, r) = if which == "foreign-type-move" { ("move_element_here", cert.move_element_here(&af).map(|_| ())) } else { ("create_copied_sub_element", cert.create_copied_sub_element(&af).map(|_| ())) };
            match r {
                Err(_) => Ok(()),
                Ok(()) => reload(&file).map_err(|e| format!("after the successful call {}(ALGORITHM-FAMILY of a CRYPTO-SERVICE-KEY, a free text) on a CRYPTO-SERVICE-CERTIFICATE (where ALGORITHM-FAMILY is an enumeration; set_character_data refuses the same text there): {}", call, e)),
            }
        })(),
        _ => { println!("{{\"outcome\":\"unknown-check\"}}"); return; }
    };
    match r { Ok(()) => println!("OK 1 probe {}", which), Err(e) => println!("FAIL {}", e) }
}
