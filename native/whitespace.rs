// ---------------------------------------------------------------------------------------------------------------------------------
// api whitespace      C01, bounded and directed: "only insignificant whitespace removed".  The expectation is known by construction
// (the document is rendered from the pieces, the library's reading is compared with the pieces), in strict and lenient mode, and
// again after serialize + reload.
//   preserve   <SD> (a string type the schema marks xml:space="preserve"): the value is the text, padding included
//   plain      <ISSUED-BY> (an ordinary string): padding around the value may go, the two blanks inside "a  b" stay
//   mixed      <L-2>hello{w1}<TT>w</TT>{w2}world</L-2>: the whitespace between a word and an inline element is part of the text
//              ("hello w world" must not become "hellowworld")
// One line per class: "OK <class> <cases>" or "FAIL <class> <message> :: document <hex>".
// ---------------------------------------------------------------------------------------------------------------------------------
fn ws_doc(sd: &str, issued: &str, l2: &str) -> String {
    format!("<?xml version=\"1.0\" encoding=\"utf-8\"?>\n<AUTOSAR xsi:schemaLocation=\"http://autosar.org/schema/r4.0 AUTOSAR_00050.xsd\" xmlns=\"http://autosar.org/schema/r4.0\" xmlns:xsi=\"http://www.w3.org/2001/XMLSchema-instance\"><AR-PACKAGES><AR-PACKAGE><SHORT-NAME>P</SHORT-NAME><DESC><L-2 L=\"EN\">{}</L-2></DESC><ADMIN-DATA><DOC-REVISIONS><DOC-REVISION><ISSUED-BY>{}</ISSUED-BY></DOC-REVISION></DOC-REVISIONS><SDGS><SDG GID=\"g\"><SD GID=\"k\">{}</SD></SDG></SDGS></ADMIN-DATA></AR-PACKAGE></AR-PACKAGES></AUTOSAR>", l2, issued, sd)
}

/// (SD value, ISSUED-BY value, the items of L-2: Ok(text) / Err(element name))
fn ws_read(model: &autosar_data::AutosarModel) -> Result<(String, String, Vec<Result<String, String>>), String> {
    use autosar_data::*;
    let pkg = model.get_element_by_path("/P").ok_or("package /P not found")?;
    let admin = pkg.get_sub_element(ElementName::AdminData).ok_or("ADMIN-DATA missing")?;
    let sd = admin.get_sub_element(ElementName::Sdgs).and_then(|e| e.get_sub_element(ElementName::Sdg)).and_then(|e| e.get_sub_element(ElementName::Sd)).ok_or("SD missing")?;
    let issued = admin.get_sub_element(ElementName::DocRevisions).and_then(|e| e.get_sub_element(ElementName::DocRevision)).and_then(|e| e.get_sub_element(ElementName::IssuedBy)).ok_or("ISSUED-BY missing")?;
    let l2 = pkg.get_sub_element(ElementName::Desc).and_then(|e| e.get_sub_element(ElementName::L2)).ok_or("L-2 missing")?;
    let text = |e: &Element| -> String { match e.character_data() { Some(CharacterData::String(s)) => s, Some(o) => format!("<non-string {:?}>", o), None => String::new() } };
    let mut items = Vec::new();
    for c in l2.content() {
        match c {
            ElementContent::CharacterData(CharacterData::String(s)) => items.push(Ok(s)),
            ElementContent::CharacterData(o) => items.push(Ok(format!("<non-string {:?}>", o))),
            ElementContent::Element(e) => items.push(Err(e.element_name().to_string())),
        }
    }
    Ok((text(&sd), text(&issued), items))
}

fn ws_case(class: &str, sd: &str, issued: &str, l2: &str, expect: &dyn Fn(&(String, String, Vec<Result<String, String>>)) -> Result<(), String>) -> Result<(), String> {
    use autosar_data::*;
    let doc = ws_doc(sd, issued, l2);
    for strict in [true, false] {
        let mode = if strict { "strict" } else { "lenient" };
        let m = AutosarModel::new();
        let (f, w) = m.load_buffer(doc.as_bytes(), "w.arxml", strict).map_err(|e| format!("{} load fails [{}] :: document {}", mode, e, hex(doc.as_bytes())))?;
        if !w.is_empty() { return Err(format!("{} load warns [{}] :: document {}", mode, w[0], hex(doc.as_bytes()))); }
        let got = ws_read(&m).map_err(|e| format!("{} :: document {}", e, hex(doc.as_bytes())))?;
        expect(&got).map_err(|e| format!("{} load: {} :: document {}", mode, e, hex(doc.as_bytes())))?;
        // second generation: the values survive serialize + load
        let t = f.serialize().map_err(|e| e.to_string())?;
        let m2 = AutosarModel::new();
        m2.load_buffer(t.as_bytes(), "w2.arxml", strict).map_err(|e| format!("{} reload of the serialized text fails [{}] :: document {}", mode, e, hex(doc.as_bytes())))?;
        let got2 = ws_read(&m2).map_err(|e| format!("{} after reload :: document {}", e, hex(doc.as_bytes())))?;
        if got2 != got { return Err(format!("{}: the values differ after serialize + load: {:?} then {:?} :: document {}", mode, got, got2, hex(doc.as_bytes()))); }
        let _ = class;
    }
    Ok(())
}

fn ws_class(class: &str) -> Result<usize, String> {
    let pads = ["", " ", "  ", "\n", "\t ", "\n    "];
    let is_ws = |c: char| c == ' ' || c == '\t' || c == '\n' || c == '\r';
    let mut n = 0;
    match class {
        "preserve" => {
            for p1 in pads { for p2 in pads {
                let text = format!("{}x  y{}", p1, p2);
                let want = text.clone();
                ws_case(class, &text, "a", "t", &move |g| if g.0 == want { Ok(()) } else { Err(format!("the whitespace-preserving SD holds {:?} in the document and {:?} in the model", want, g.0)) })?;
                n += 1;
            } }
            // entity-encoded text with padding
            let want = "  <a> & b  ".to_string();
            ws_case(class, "  &lt;a&gt; &amp; b  ", "a", "t", &move |g| if g.0 == want { Ok(()) } else { Err(format!("the whitespace-preserving SD holds {:?} in the document and {:?} in the model", want, g.0)) })?;
            n += 1;
        }
        "plain" => {
            for p1 in pads { for p2 in pads {
                let text = format!("{}a  b{}", p1, p2);
                let full = text.clone();
                ws_case(class, "s", &text, "t", &move |g| if g.1.trim_matches(is_ws) == "a  b" && full.contains(g.1.as_str()) { Ok(()) } else { Err(format!("ISSUED-BY holds {:?} in the document and {:?} in the model", full, g.1)) })?;
                n += 1;
            } }
        }
        "mixed" => {
            let gaps = ["", " ", "  ", "\n"];
            for p0 in ["", " ", "\n  "] { for w1 in gaps { for w2 in gaps {
                let l2 = format!("{}hello{}<TT TYPE=\"SGMLTAG\">w</TT>{}world{}", p0, w1, w2, p0);
                let (w1s, w2s) = (w1.to_string(), w2.to_string());
                ws_case(class, "s", "a", &l2, &move |g| {
                    let items = &g.2;
                    let shape_ok = items.len() == 3 && items[0].is_ok() && items[1] == Err("TT".to_string()) && items[2].is_ok();
                    if !shape_ok { return Err(format!("L-2 reads as {:?}", items)); }
                    let (a, b) = (items[0].clone().unwrap(), items[2].clone().unwrap());
                    if a.trim_start_matches(is_ws) != format!("hello{}", w1s) || b.trim_end_matches(is_ws) != format!("{}world", w2s) {
                        return Err(format!("mixed content: the document has \"hello{}<TT>w</TT>{}world\", the model has {:?} <TT> {:?}: whitespace between a word and an inline element is lost", w1s.escape_debug(), w2s.escape_debug(), a, b));
                    }
                    Ok(())
                })?;
                n += 1;
            } } }
        }
        _ => return Err("unknown class".to_string()),
    }
    Ok(n)
}

fn api_whitespace(_args: &[String]) {
    for class in ["preserve", "plain", "mixed"] {
        match ws_class(class) { Ok(n) => println!("OK {} {} cases x strict/lenient x two generations", class, n), Err(e) => println!("FAIL {} {}", class, e) }
    }
    println!("DONE");
}

fn api_whitespace1(args: &[String]) {
    match args.get(0).map(|s| ws_class(s)) {
        Some(Ok(_)) => println!("{{\"outcome\":\"ok\"}}"),
        Some(Err(e)) if e == "unknown class" => println!("{{\"outcome\":\"unknown-check\"}}"),
        Some(Err(e)) => println!("{{\"outcome\":\"panic\",\"message\":{:?}}}", e.chars().take(600).collect::<String>()),
        None => println!("{{\"outcome\":\"unknown-check\"}}"),
    }
}
