// ---------------------------------------------------------------------------------------------------------------------------------
// api copycheck <budget> [seed] [survey]        C13, bounded API-level check (public API only)
// api copycheck1 <type-ordinal> <schema-file-name> <seed>      replay of one (element type, version, seed)
//
// For element types reached breadth-first from the root (ec_types of editconform.rs), in versions spread over the type's mask, an
// element of that type is built through the editing API with a few children, values and attributes, and then
//   (1) copied into its own parent (same file, same version): the copy's text equals the source's text apart from the numeric suffix
//       of its own item name, the source is unchanged, and every identifiable element of the copy is found under its path;
//   (2) copied into a fresh model of the same version: identical text, source model unchanged;
//   (3) the model is duplicated: every file serializes to the same text; a change to the duplicate is not visible in the original and
//       vice versa;
//   (4) (every second script) a second file of ANOTHER version with its own package is loaded into the model before duplicating: every
//       file of the duplicate still serializes to the same text as the original's.
// ---------------------------------------------------------------------------------------------------------------------------------

fn cc_build(path: &[(autosar_data::ElementName, autosar_data_specification::ElementType)], v: autosar_data::AutosarVersion, rng: &mut EcRng)
    -> Option<(autosar_data::AutosarModel, autosar_data::ArxmlFile, autosar_data::Element)> {
    use autosar_data::*;
    use autosar_data_specification::CharacterDataSpec;
    let vm = v as u32;
    let model = AutosarModel::new();
    let file = model.create_file("f.arxml", v).ok()?;
    let mut cur = model.root_element();
    for (k, (name, st)) in path.iter().enumerate().skip(1) {
        let r = if st.is_named_in_version(v) { cur.create_named_sub_element(*name, &format!("n{}", k)) } else { cur.create_sub_element(*name) };
        cur = r.ok()?;
    }
    if cur.element_type() != path.last().unwrap().1 { return None; }
    // a few children, whatever is allowed now
    for step in 0..(2 + rng.below(5)) {
        let allowed: Vec<ValidSubElementInfo> = cur.list_valid_sub_elements().into_iter().filter(|i| i.is_allowed).collect();
        if allowed.is_empty() { break; }
        let info = &allowed[rng.below(allowed.len())];
        let _ = if info.is_named { cur.create_named_sub_element(info.element_name, &format!("k{}", step)) } else { cur.create_sub_element(info.element_name) };
    }
    // values and one attribute where that is easy
    let mut targets: Vec<Element> = vec![cur.clone()];
    targets.extend(cur.sub_elements());
    for e in &targets {
        let et = e.element_type();
        if et.is_ref() { let _ = e.set_character_data(CharacterData::String(format!("/ref/target{}", rng.below(3)))); }
        if e.element_name() != ElementName::ShortName && !et.is_ref() && e.sub_elements().next().is_none() {
            match et.chardata_spec() {
                Some(CharacterDataSpec::Enum { items }) => { if let Some((it, _)) = items.iter().find(|(_, m)| m & vm != 0) { let _ = e.set_character_data(CharacterData::Enum(*it)); } }
                Some(CharacterDataSpec::String { .. }) => { let _ = e.set_character_data(CharacterData::String("t <&> \"q\"".to_string())); }
                Some(CharacterDataSpec::UnsignedInteger) => { let _ = e.set_character_data(CharacterData::UnsignedInteger(rng.next() % 1000)); }
                Some(CharacterDataSpec::Float) => { let _ = e.set_character_data(CharacterData::Float(1.5)); }
                Some(CharacterDataSpec::Pattern { .. }) => { for c in ec_value_candidates() { if e.set_character_data(CharacterData::String(c.to_string())).is_ok() { break; } } }
                None => {}
            }
        }
        if rng.below(3) == 0 { e.set_comment(Some(format!("comment {}", rng.below(100)))); }
        if e.element_name() == ElementName::Autosar { continue; }
        for (an, aspec, _) in et.attribute_spec_iter().take(3) {
            match aspec {
                CharacterDataSpec::String { .. } => { let _ = e.set_attribute(an, CharacterData::String("a".to_string())); }
                CharacterDataSpec::Enum { items } => { let valid: Vec<_> = items.iter().filter(|(_, m)| m & vm != 0).collect(); let narrow: Vec<_> = valid.iter().filter(|(_, m)| *m != valid.iter().fold(0u32, |a, (_, m)| a | m)).cloned().collect(); let pool = if !narrow.is_empty() && rng.below(4) != 0 { &narrow } else { &valid }; if !pool.is_empty() { let _ = e.set_attribute(an, CharacterData::Enum(pool[rng.below(pool.len())].0)); } }
                _ => {}
            }
        }
    }
    Some((model, file, cur))
}

/// every identifiable element below (and including) `top` is found under its path, every reference is registered as a referrer of its target
fn cc_registered(model: &autosar_data::AutosarModel, top: &autosar_data::Element, what: &str) -> Result<(), String> {
    use autosar_data::*;
    for (_, e) in top.elements_dfs() {
        if e.is_identifiable() {
            let Ok(p) = e.path() else { return Err(format!("an identifiable element of {} has no path", what)); };
            if model.get_element_by_path(&p).as_ref() != Some(&e) { return Err(format!("the identifiable element {} of {} is not found under its path", p, what)); }
        }
        if e.is_reference() {
            if let Some(CharacterData::String(target)) = e.character_data() {
                if !model.get_references_to(&target).iter().any(|w| w.upgrade().as_ref() == Some(&e)) {
                    return Err(format!("the reference {} -> {} inside {} is not registered as a referrer of its target (get_references_to misses it)", e.element_name(), target, what));
                }
            }
        }
    }
    Ok(())
}

fn cc_one(path: &[(autosar_data::ElementName, autosar_data_specification::ElementType)], v: autosar_data::AutosarVersion, seed: u64, stats: &mut [u64; 5]) -> Result<(), String> {
    use autosar_data::*;
    let mut rng = EcRng(seed.wrapping_mul(0x9E3779B97F4A7C15) ^ 0xA0761D6478BD642F ^ ((v as u64) << 32));
    rng.next();
    let Some((model, file, cur)) = cc_build(path, v, &mut rng) else { return Ok(()) };
    if path.len() < 2 { return Ok(()); }
    let Ok(Some(parent)) = cur.parent() else { return Ok(()) };
    let src_text = cur.serialize();
    let file_text = file.serialize().map_err(|e| e.to_string())?;
    let own_name = cur.item_name();
    let normalise = |copy: &Element| -> String {
        let t = copy.serialize();
        match (&own_name, copy.item_name()) {
            (Some(a), Some(b)) if *a != b => t.replacen(&format!(">{}</SHORT-NAME>", b), &format!(">{}</SHORT-NAME>", a), 1),
            _ => t,
        }
    };
    // (1) copy into the same parent
    if let Ok(copy) = parent.create_copied_sub_element(&cur) {
        stats[0] += 1;
        if cur.serialize() != src_text { return Err(format!("create_copied_sub_element changed the source element {}", cur.element_name())); }
        if let (Some(a), Some(b)) = (&own_name, copy.item_name()) {
            let suffix_ok = b == *a || (b.starts_with(a.as_str()) && b[a.len()..].starts_with('_') && b[a.len() + 1..].chars().all(|c| c.is_ascii_digit()) && b.len() > a.len() + 1);
            if !suffix_ok { return Err(format!("the copy of {} is called {} (expected {} or {}_<number>)", a, b, a, a)); }
        }
        let ct = normalise(&copy);
        if ct != src_text { return Err(format!("a copy of {} into its own parent (same version) differs from the source :: source {} :: copy {}", cur.element_name(), hex(src_text.as_bytes()), hex(ct.as_bytes()))); }
        cc_registered(&model, &copy, &format!("the copy of {}", cur.element_name()))?;
        // a second copy next to the first: three siblings with three different item names, each found under its own path
        if own_name.is_some() {
            if let Ok(copy2) = parent.create_copied_sub_element(&cur) {
                let names = [cur.item_name(), copy.item_name(), copy2.item_name()];
                if names[0] == names[1] || names[0] == names[2] || names[1] == names[2] { return Err(format!("after copying {} twice into its own parent two siblings have the same item name: {:?}", cur.element_name(), names)); }
                for e in [&cur, &copy, &copy2] {
                    let found = e.path().ok().and_then(|p| model.get_element_by_path(&p));
                    if found.as_ref() != Some(e) { return Err(format!("after copying {} twice into its own parent the path {:?} does not lead to its element", cur.element_name(), e.path().ok())); }
                }
                let _ = parent.remove_sub_element(copy2);
            }
        }
        // the copy is independent: removing it restores the file text
        let _ = parent.remove_sub_element(copy);
        if file.serialize().map_err(|e| e.to_string())? != file_text { return Err(format!("copying {} and removing the copy again does not restore the file text", cur.element_name())); }
    }
    // (2) copy into a fresh model of the same version
    {
        let m2 = AutosarModel::new();
        if m2.create_file("g.arxml", v).is_ok() {
            let mut p2 = m2.root_element();
            let mut ok = true;
            for (k, (name, st)) in path.iter().enumerate().skip(1).take(path.len() - 2) {
                let r = if st.is_named_in_version(v) { p2.create_named_sub_element(*name, &format!("n{}", k)) } else { p2.create_sub_element(*name) };
                match r { Ok(e) => p2 = e, Err(_) => { ok = false; break; } }
            }
            if ok {
                match p2.create_copied_sub_element(&cur) {
                    Ok(copy) => {
                        stats[1] += 1;
                        let ct = copy.serialize();
                        if ct != src_text { return Err(format!("a copy of {} into another model of the same version differs from the source :: source {} :: copy {}", cur.element_name(), hex(src_text.as_bytes()), hex(ct.as_bytes()))); }
                        if file.serialize().map_err(|e| e.to_string())? != file_text { return Err(format!("copying {} into another model changed the source model", cur.element_name())); }
                        cc_registered(&m2, &copy, &format!("the copy of {} in another model", cur.element_name()))?;
                    }
                    Err(e) => return Err(format!("a copy of {} into an empty parent of the same type and version in another model fails: {}", cur.element_name(), e)),
                }
            }
        }
    }
    // (5) copy into a fresh model of ANOTHER version: if the source file reports no incompatibility with that version, nothing may be
    //     omitted (same text); in any case the destination file must load cleanly (histories with version-dependent element types are
    //     attributed to the finding recorded under C07)
    if rng.below(2) == 0 {
        let all = autosar_data_specification::expand_version_mask(u32::MAX);
        // half of the time aim at a version the source is NOT compatible with (something has to be omitted), otherwise at a compatible one
        let (_, okmask) = file.check_version_compatibility(v);
        let bad: Vec<AutosarVersion> = all.iter().cloned().filter(|x| (*x as u32) & okmask == 0).collect();
        let good: Vec<AutosarVersion> = all.iter().cloned().filter(|x| (*x as u32) & okmask != 0 && *x != v).collect();
        let v2 = if !bad.is_empty() && (good.is_empty() || rng.below(2) == 0) { bad[rng.below(bad.len())] } else if !good.is_empty() { good[rng.below(good.len())] } else { v };
        if v2 != v {
            let m3 = AutosarModel::new();
            if let Ok(f3) = m3.create_file("h.arxml", v2) {
                let mut p3 = m3.root_element();
                let mut ok = true;
                for (k, (name, _)) in path.iter().enumerate().skip(1).take(path.len() - 2) {
                    let named = p3.element_type().find_sub_element(*name, v2 as u32).map(|(t, _)| t.is_named_in_version(v2));
                    let r = match named { Some(true) => p3.create_named_sub_element(*name, &format!("n{}", k)), Some(false) => p3.create_sub_element(*name), None => { ok = false; break; } };
                    match r { Ok(e) => p3 = e, Err(_) => { ok = false; break; } }
                }
                if ok {
                    let (errs, _) = file.check_version_compatibility(v2);
                    if let Ok(copy) = p3.create_copied_sub_element(&cur) {
                        stats[1] += 1;
                        fn cc_retyped(e: &Element, expect: autosar_data_specification::ElementType, v2: AutosarVersion) -> bool {
                            if e.element_type() != expect { return true; }
                            for c in e.sub_elements() { match expect.find_sub_element(c.element_name(), v2 as u32) { Some((t, _)) => if cc_retyped(&c, t, v2) { return true; }, None => {} } }
                            false
                        }
                        let retyped = match p3.element_type().find_sub_element(copy.element_name(), v2 as u32) { Some((t, _)) => cc_retyped(&copy, t, v2), None => true };
                        let tag = if retyped { "cross-version copy with version-dependent element type: " } else { "" };
                        if errs.is_empty() && copy.serialize() != src_text {
                            return Err(format!("{}the source file is compatible with {} but a copy of {} into a {} file differs from the source :: source {} :: copy {}", tag, v2.filename(), cur.element_name(), v2.filename(), hex(src_text.as_bytes()), hex(copy.serialize().as_bytes())));
                        }
                        let t3 = f3.serialize().map_err(|e| e.to_string())?;
                        match AutosarModel::new().load_buffer(t3.as_bytes(), "g3.arxml", false) {
                            Err(e) => return Err(format!("{}after copying {} from a {} file into a {} file the destination is rejected by lenient loading [{}] :: document {}", tag, cur.element_name(), v.filename(), v2.filename(), e, hex(t3.as_bytes()))),
                            Ok((_, w)) => if let Some(s) = w.iter().map(|x| x.to_string()).find(|s| !s.contains("is required in element")) {
                                return Err(format!("{}after copying {} from a {} file into a {} file the destination no longer validates [{}] :: document {}", tag, cur.element_name(), v.filename(), v2.filename(), s, hex(t3.as_bytes())));
                            }
                        }
                        if file.serialize().map_err(|e| e.to_string())? != file_text { return Err(format!("copying {} into a file of another version changed the source model", cur.element_name())); }
                    }
                }
            }
        }
    }
    // (3) duplicate the single-file model, (3b) the same model with a second file of the SAME version that shares the top-level package
    // and splits it below that level (an element and a sub-package that belong to the second file only), (4) then with a further file
    // of another version
    let mut extra: Vec<(ArxmlFile, String)> = Vec::new();
    for round in 0..3 {
        let mut tag = "";
        if round == 1 {
            if !(path.len() >= 3 && path[1].0 == ElementName::ArPackages && path[2].0 == ElementName::ArPackage) || rng.below(2) != 0 { continue; }
            let split = format!("<?xml version=\"1.0\" encoding=\"utf-8\"?>\n<AUTOSAR xsi:schemaLocation=\"http://autosar.org/schema/r4.0 {}\" xmlns=\"http://autosar.org/schema/r4.0\" xmlns:xsi=\"http://www.w3.org/2001/XMLSchema-instance\"><AR-PACKAGES><AR-PACKAGE><SHORT-NAME>n2</SHORT-NAME><ELEMENTS><SYSTEM><SHORT-NAME>zz_split_s</SHORT-NAME></SYSTEM></ELEMENTS><AR-PACKAGES><AR-PACKAGE><SHORT-NAME>zz_split_p</SHORT-NAME></AR-PACKAGE></AR-PACKAGES></AR-PACKAGE></AR-PACKAGES></AUTOSAR>", v.filename());
            let Ok((f2, _)) = model.load_buffer(split.as_bytes(), "split.arxml", true) else { continue };
            let t2 = f2.serialize().map_err(|e| e.to_string())?;
            extra.push((f2, t2));
        }
        if round == 2 {
            if rng.below(2) != 0 { break; }
            let all = autosar_data_specification::expand_version_mask(u32::MAX);
            let v2 = all[rng.below(all.len())];
            if v2 == v { break; }
            let other = format!("<?xml version=\"1.0\" encoding=\"utf-8\"?>\n<AUTOSAR xsi:schemaLocation=\"http://autosar.org/schema/r4.0 {}\" xmlns=\"http://autosar.org/schema/r4.0\" xmlns:xsi=\"http://www.w3.org/2001/XMLSchema-instance\"><AR-PACKAGES><AR-PACKAGE><SHORT-NAME>zz_other</SHORT-NAME><ELEMENTS><SYSTEM><SHORT-NAME>s</SHORT-NAME></SYSTEM></ELEMENTS></AR-PACKAGE></AR-PACKAGES></AUTOSAR>", v2.filename());
            let Ok((f2, _)) = model.load_buffer(other.as_bytes(), "other.arxml", true) else { break };
            let t2 = f2.serialize().map_err(|e| e.to_string())?;
            extra.push((f2, t2));
            tag = "model with files of different versions: ";
        }
        for (f2, t2) in extra.iter_mut() { *t2 = f2.serialize().map_err(|e| e.to_string())?; }
        let file_text = file.serialize().map_err(|e| e.to_string())?;
        match model.duplicate() {
            Err(e) => return Err(format!("{}duplicate() of a model built through the API fails [{}; element {} in {}]", tag, e, cur.element_name(), v.filename())),
            Ok(dup) => {
                stats[2] += 1;
                for df in dup.files() {
                    let dt = df.serialize().map_err(|e| e.to_string())?;
                    let want = if df.filename() == file.filename() { Some(&file_text) } else { extra.iter().find(|(f2, _)| f2.filename() == df.filename()).map(|(_, t)| t) };
                    match want {
                        Some(w) if *w == dt => {}
                        Some(w) => return Err(format!("{}a file of the duplicated model serializes differently from the original's [{}] :: original {} :: duplicate {}", tag, df.filename().display(), hex(w.as_bytes()), hex(dt.as_bytes()))),
                        None => return Err(format!("{}the duplicated model has a file {} the original does not have", tag, df.filename().display())),
                    }
                }
                if round == 0 { cc_registered(&dup, &dup.root_element(), "the duplicated model")?; }
                if dup.files().count() != model.files().count() { return Err(format!("{}the duplicated model has a different number of files", tag)); }
                // independence
                stats[3] += 1;
                let _ = dup.root_element().set_comment(Some("changed in the duplicate".to_string()));
                if let Some(e) = dup.root_element().sub_elements().next() { let _ = e.set_comment(Some("dup".to_string())); for s in e.sub_elements().collect::<Vec<_>>() { let _ = e.remove_sub_element(s); } }
                if file.serialize().map_err(|e| e.to_string())? != file_text { return Err(format!("{}a change to the duplicated model is visible in the original", tag)); }
                let dup_texts: Vec<String> = dup.files().map(|f| f.serialize().unwrap_or_default()).collect();
                let old_comment = cur.comment();
                let _ = cur.set_comment(Some("changed in the original".to_string()));
                let after: Vec<String> = dup.files().map(|f| f.serialize().unwrap_or_default()).collect();
                let _ = cur.set_comment(old_comment);
                if after != dup_texts { return Err(format!("{}a change to the original model is visible in the duplicate", tag)); }
            }
        }
    }
    stats[4] += 1;
    Ok(())
}

fn api_copycheck(args: &[String]) {
    let budget: usize = args.get(0).and_then(|s| s.parse().ok()).unwrap_or(20000);
    let seed: u64 = args.get(1).and_then(|s| s.parse().ok()).unwrap_or(1);
    let survey = args.get(2).map(|s| s == "survey").unwrap_or(false);
    let types = ec_types();
    let per_type = (budget / types.len().max(1)).clamp(1, 21);
    let step = if budget < types.len() { (types.len() / budget.max(1)).max(1) } else { 1 };
    let mut stats = [0u64; 5];
    let (mut runs, mut nfail) = (0u64, 0u64);
    let mut seen_fail: Vec<String> = Vec::new();
    for (ord, (path, mask)) in types.iter().enumerate().step_by(step) {
        for v in ec_versions_for(*mask, ord, per_type) {
            runs += 1;
            if let Err(e) = cc_one(path, v, seed.wrapping_add(ord as u64), &mut stats) {
                let head: String = e.split(" :: ").next().unwrap_or("").split(" [").next().unwrap_or("").chars().take(70).collect();
                if survey { if !seen_fail.contains(&head) { seen_fail.push(head); println!("FAIL {} [type #{} {} in {}; replay: api copycheck1 {} {} {}]", e, ord, path.last().unwrap().0, v.filename(), ord, v.filename(), seed.wrapping_add(ord as u64)); } nfail += 1; continue; }
                println!("FAIL {} [type #{} {} in {}; replay: api copycheck1 {} {} {}]", e, ord, path.last().unwrap().0, v.filename(), ord, v.filename(), seed.wrapping_add(ord as u64));
                return;
            }
        }
    }
    if nfail == 0 { println!("OK {} scripts types={} of {} copies-same-parent={} copies-other-model={} duplicates={} independence={} complete={}", runs, (types.len() + step - 1) / step, types.len(), stats[0], stats[1], stats[2], stats[3], stats[4]); }
    else { println!("SURVEY failures={} kinds={} scripts={}", nfail, seen_fail.len(), runs); }
}

fn api_copycheck1(args: &[String]) {
    use std::str::FromStr;
    let ord: usize = args.get(0).and_then(|s| s.parse().ok()).unwrap_or(0);
    let Ok(v) = autosar_data::AutosarVersion::from_str(args.get(1).map(|s| s.as_str()).unwrap_or("")) else { println!("{{\"outcome\":\"unknown-check\"}}"); return };
    let seed: u64 = args.get(2).and_then(|s| s.parse().ok()).unwrap_or(1);
    let types = ec_types();
    if ord >= types.len() { println!("{{\"outcome\":\"unknown-check\"}}"); return; }
    let mut stats = [0u64; 5];
    match cc_one(&types[ord].0, v, seed, &mut stats) { Ok(()) => println!("{{\"outcome\":\"ok\"}}"), Err(e) => println!("{{\"outcome\":\"panic\",\"message\":{:?}}}", e.chars().take(600).collect::<String>()) }
}
