// ---------------------------------------------------------------------------------------------------------------------------------
// api rawtexts        C02, bounded and directed: raw (possibly malformed) entity-like texts followed by characters of every UTF-8 width,
// as element text and as attribute value.  String code that slices at byte offsets panics when an offset falls inside a multi-byte
// character; this family puts a character boundary of every kind at every small offset behind every syntactic prefix of the decoder.
//   text = prefix ++ tail ++ end,  prefix in {& &# &#x &#X &#1 &#x1 &a &am &amp &lt &quot; &#x10FFFF &#1114111 &#xD800},
//   tail = up to `k` characters from {a, U+00E4 (2 bytes), U+20AC (3 bytes), U+1F600 (4 bytes)},  end in {"", ";", ";b"}
// Every document goes through lines_one: no panic (strict, lenient, check_buffer), error lines inside the input, header check agrees.
// ---------------------------------------------------------------------------------------------------------------------------------
fn api_rawtexts(args: &[String]) {
    let k: usize = args.get(0).and_then(|s| s.parse().ok()).unwrap_or(5);
    let prefixes = ["&", "&#", "&#x", "&#X", "&#1", "&#x1", "&a", "&am", "&amp", "&lt", "&quot;", "&#x10FFFF", "&#1114111", "&#xD800", "a&#x", "\u{e4}&#"];
    let chars = ["a", "\u{e4}", "\u{20ac}", "\u{1f600}"];
    let ends = ["", ";", ";b"];
    let head = "<?xml version=\"1.0\" encoding=\"utf-8\"?>\n<AUTOSAR xsi:schemaLocation=\"http://autosar.org/schema/r4.0 AUTOSAR_00050.xsd\" xmlns=\"http://autosar.org/schema/r4.0\" xmlns:xsi=\"http://www.w3.org/2001/XMLSchema-instance\"><AR-PACKAGES><AR-PACKAGE><SHORT-NAME>P</SHORT-NAME>";
    let tail_doc = "</AR-PACKAGE></AR-PACKAGES></AUTOSAR>";
    let mut n = 0u64;
    // all tails of length 0..=k
    let mut tails: Vec<String> = vec![String::new()];
    let mut layer: Vec<String> = vec![String::new()];
    for _ in 0..k {
        let mut next = Vec::new();
        for t in &layer { for c in chars { next.push(format!("{}{}", t, c)); } }
        tails.extend(next.iter().cloned());
        layer = next;
    }
    for p in prefixes { for t in &tails { for e in ends {
        let text = format!("{}{}{}", p, t, e);
        for ctx in 0..2 {
            let doc = if ctx == 0 { format!("{}<DESC><L-2 L=\"EN\">{}</L-2></DESC>{}", head, text, tail_doc) }
                      else { format!("{}<ADMIN-DATA><SDGS><SDG GID=\"{}\"></SDG></SDGS></ADMIN-DATA>{}", head, text, tail_doc) };
            n += 1;
            if let Err(e) = lines_one(doc.as_bytes()) { println!("FAIL {} [text {:?} as {}] :: document {}", e, text, if ctx == 0 { "element text" } else { "attribute value" }, hex(doc.as_bytes())); return; }
        }
    } } }
    println!("OK {} documents ({} prefixes x {} tails of up to {} characters x {} endings x 2 contexts)", n, prefixes.len(), tails.len(), k, ends.len());
}
