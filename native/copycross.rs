// ---------------------------------------------------------------------------------------------------------------------------------
// api copycross       C13, bounded and DIRECTED: "a copy into an older or newer version omits exactly the parts not permitted there and
// still validates".  Every place of the specification where one enumeration value of an attribute or of an element's text exists in
// some versions only is visited: the element is built through the editing API in a version that has the value (A), and once more
// without the offending part (B); A is copied into a file of a version that does not have the value.
//   - the copy may be refused only when the part is required (a required attribute, or the text of the copied element itself)
//   - when it succeeds, the destination file loads again without a complaint, the source file is unchanged, and
//   - when B is compatible with the destination version (the offending part was the only one), the copy's text equals B's text:
//     exactly that part was omitted.
// Cases: (type ordinal, attribute ordinal or 'text', item ordinal, source version, destination version) -- replay with copycross1.
// ---------------------------------------------------------------------------------------------------------------------------------
#[derive(Clone, Copy, PartialEq, Debug)]
enum CxWhat { Attr(usize), Text, Child(usize) }

fn cx_path_into(model: &autosar_data::AutosarModel, path: &[(autosar_data::ElementName, autosar_data_specification::ElementType)], upto: usize, v: autosar_data::AutosarVersion) -> Option<autosar_data::Element> {
    let mut cur = model.root_element();
    for (k, (name, _)) in path.iter().enumerate().skip(1).take(upto.saturating_sub(1)) {
        let named = cur.element_type().find_sub_element(*name, v as u32).map(|(t, _)| t.is_named_in_version(v))?;
        let r = if named { cur.create_named_sub_element(*name, &format!("n{}", k)) } else { cur.create_sub_element(*name) };
        cur = r.ok()?;
    }
    Some(cur)
}

/// Ok(true): the case was run; Ok(false): it could not be set up (skipped)
fn cx_one(path: &[(autosar_data::ElementName, autosar_data_specification::ElementType)], what: CxWhat, item_ord: usize, v: autosar_data::AutosarVersion, v2: autosar_data::AutosarVersion, stats: &mut [u64; 6]) -> Result<bool, String> {
    use autosar_data::*;
    use autosar_data_specification::CharacterDataSpec;
    let t = path.last().unwrap().1;
    if path.len() < 3 { return Ok(false); }
    // the two source models: A with the part, B without
    let build = |with: bool| -> Option<(AutosarModel, ArxmlFile, Element, bool, String)> {
        let model = AutosarModel::new();
        let file = model.create_file("f.arxml", v).ok()?;
        let cur = cx_path_into(&model, path, path.len(), v)?;
        if cur.element_type() != t { return None; }
        let mut required = false;
        let mut label = String::new();
        match what {
            CxWhat::Attr(k) => {
                let (an, spec, req) = t.attribute_spec_iter().nth(k)?;
                required = req;
                if t.is_ref() { cur.set_character_data(CharacterData::String("/ref/target".to_string())).ok()?; }
                if item_ord == usize::MAX {
                    // presence: the attribute itself exists in some versions only; any value that is accepted
                    label = format!("attribute {}{}", an, if req { " (required)" } else { "" });
                    if with || req {
                        let mut done = false;
                        if let CharacterDataSpec::Enum { items } = spec { if let Some((it, _)) = items.iter().find(|(_, m)| m & (v as u32) != 0) { done = cur.set_attribute(an, CharacterData::Enum(*it)).is_ok(); } }
                        else { for c in ec_value_candidates().iter() { if cur.set_attribute_string(an, c).is_ok() { done = true; break; } } }
                        if !done { return None; }
                    }
                } else {
                    let CharacterDataSpec::Enum { items } = spec else { return None };
                    let (item, _) = items.get(item_ord)?;
                    label = format!("attribute {}=\"{}\"{}", an, item, if req { " (required)" } else { "" });
                    if with || req { cur.set_attribute(an, CharacterData::Enum(*item)).ok()?; }
                }
            }
            CxWhat::Child(k) => {
                let (name, st, _, _) = t.sub_element_spec_iter().nth(k)?;
                label = format!("sub-element {}", name);
                if with {
                    let named = st.is_named_in_version(v);
                    let c = if named { cur.create_named_sub_element(name, "child") } else { cur.create_sub_element(name) }.ok()?;
                    if c.element_type() != st { return None; }
                }
            }
            CxWhat::Text => {
                let Some(CharacterDataSpec::Enum { items }) = t.chardata_spec() else { return None };
                let (item, _) = items.get(item_ord)?;
                label = format!("text {}", item);
                if with { cur.set_character_data(CharacterData::Enum(*item)).ok()?; } else {
                    let p = cur.parent().ok()??;
                    p.remove_sub_element(cur.clone()).ok()?;
                }
            }
        }
        Some((model, file, cur, required, label))
    };
    let Some((_ma, fa, cur_a, required, label)) = build(true) else { return Ok(false) };
    let Some((_mb, fb, cur_b, _, _)) = build(false) else { return Ok(false) };
    // what is copied: the element itself for an attribute, its parent for a text (so that the element is one of the copied parts)
    let (src, src_b, depth) = match what {
        CxWhat::Attr(_) | CxWhat::Child(_) => (cur_a.clone(), cur_b.clone(), path.len() - 1),
        CxWhat::Text => {
            let Ok(Some(pa)) = cur_a.parent() else { return Ok(false) };
            // B: the parent, found again through the model (cur_b was removed)
            let mut pb = _mb.root_element();
            for (name, _) in path.iter().skip(1).take(path.len() - 2) { match pb.get_sub_element(*name) { Some(e) => pb = e, None => return Ok(false) } }
            (pa, pb, path.len() - 2)
        }
    };
    if depth < 1 { return Ok(false); }
    let file_text = fa.serialize().map_err(|e| e.to_string())?;
    let m3 = AutosarModel::new();
    let Ok(f3) = m3.create_file("h.arxml", v2) else { return Ok(false) };
    let Some(p3) = cx_path_into(&m3, path, depth, v2) else { return Ok(false) };
    if p3.element_type().find_sub_element(src.element_name(), v2 as u32).is_none() { return Ok(false); }
    let (errs_b, _) = fb.check_version_compatibility(v2);
    let ctx = format!("{} in {} [{} -> {}]", label, path.last().unwrap().0, v.filename(), v2.filename());
    stats[0] += 1;
    match p3.create_copied_sub_element(&src) {
        Err(e) => {
            stats[1] += 1;
            let must_exist = !required && errs_b.is_empty() && matches!(what, CxWhat::Attr(_) | CxWhat::Child(_));
            if must_exist { return Err(format!("the copy of {} into a {} file is refused [{}] although only an optional part is not permitted there: {}", src.element_name(), v2.filename(), e, ctx)); }
        }
        Ok(copy) => {
            fn cx_retyped(e: &Element, expect: autosar_data_specification::ElementType, v2: AutosarVersion) -> bool {
                if e.element_type() != expect { return true; }
                for c in e.sub_elements() { match expect.find_sub_element(c.element_name(), v2 as u32) { Some((t, _)) => if cx_retyped(&c, t, v2) { return true; }, None => {} } }
                false
            }
            let retyped = match p3.element_type().find_sub_element(copy.element_name(), v2 as u32) { Some((t, _)) => cx_retyped(&copy, t, v2), None => true };
            let tag = if retyped { "cross-version copy with version-dependent element type: " } else { "" };
            let t3 = f3.serialize().map_err(|e| e.to_string())?;
            match AutosarModel::new().load_buffer(t3.as_bytes(), "g3.arxml", false) {
                Err(e) => return Err(format!("{}after the copy the destination file is rejected by lenient loading [{}]: {} :: document {}", tag, e, ctx, hex(t3.as_bytes()))),
                Ok((_, w)) => if let Some(s) = w.iter().map(|x| x.to_string()).find(|s| !s.contains("is required in element")) {
                    return Err(format!("{}after the copy the destination file no longer validates [{}]: {} :: document {}", tag, s, ctx, hex(t3.as_bytes())));
                }
            }
            if required {
                if let CxWhat::Attr(k) = what {
                    if let Some((an, _, _)) = t.attribute_spec_iter().nth(k) {
                        if copy.attribute_value(an).is_none() { return Err(format!("{}the copy exists but lacks the required attribute {}: {} :: document {}", tag, an, ctx, hex(t3.as_bytes()))); }
                    }
                }
            }
            if errs_b.is_empty() {
                stats[2] += 1;
                let (want, got) = (src_b.serialize(), copy.serialize());
                if want != got { return Err(format!("{}the copy does not omit exactly the part that is not permitted: {} :: expected {} :: copy {}", tag, ctx, hex(want.as_bytes()), hex(got.as_bytes()))); }
            }
            if fa.serialize().map_err(|e| e.to_string())? != file_text { return Err(format!("the copy into a file of another version changed the source model: {}", ctx)); }
        }
    }
    Ok(true)
}

fn cx_cases() -> Vec<(usize, CxWhat, usize, autosar_data::AutosarVersion, autosar_data::AutosarVersion)> {
    use autosar_data_specification::{expand_version_mask, CharacterDataSpec};
    let types = ec_types();
    let all = expand_version_mask(u32::MAX);
    let full: u32 = all.iter().fold(0u32, |a, v| a | (*v as u32));
    let mut out = Vec::new();
    for (ord, (path, mask)) in types.iter().enumerate() {
        let t = path.last().unwrap().1;
        let mut specs: Vec<(CxWhat, &'static [(autosar_data_specification::EnumItem, u32)], u32)> = Vec::new();
        for (k, (_, spec, _)) in t.attribute_spec_iter().enumerate() {
            if let CharacterDataSpec::Enum { items } = spec { specs.push((CxWhat::Attr(k), items, 4)); }
        }
        if let Some(CharacterDataSpec::Enum { items }) = t.chardata_spec() { specs.push((CxWhat::Text, items, 2)); }
        for (what, items, cap) in specs {
            let narrow: Vec<usize> = (0..items.len()).filter(|i| items[*i].1 & full != full).collect();
            // a spread of at most `cap` items per place, rotated by the type ordinal so that all items are met across types
            let picks: Vec<usize> = if narrow.len() <= cap as usize { narrow.clone() } else { (0..cap as usize).map(|k| narrow[(ord + k * narrow.len() / cap as usize) % narrow.len()]).collect() };
            for i in picks {
                let im = items[i].1;
                let src: Vec<_> = all.iter().cloned().filter(|x| (*x as u32) & im & mask != 0).collect();
                let dst: Vec<_> = all.iter().cloned().filter(|x| (*x as u32) & im == 0 && (*x as u32) & mask != 0).collect();
                if src.is_empty() || dst.is_empty() { continue; }
                let srcs = if src.len() > 1 { vec![src[0], src[src.len() - 1]] } else { vec![src[0]] };
                let dsts = if dst.len() > 2 { vec![dst[0], dst[(ord + i) % dst.len()], dst[dst.len() - 1]] } else { dst.clone() };
                for s in &srcs { for d in &dsts { if !out.iter().any(|c: &(usize, CxWhat, usize, autosar_data::AutosarVersion, autosar_data::AutosarVersion)| *c == (ord, what, i, *s, *d)) { out.push((ord, what, i, *s, *d)); } } }
            }
        }
        // attributes that exist in some of the type's versions only
        for (k, (an, _, _)) in t.attribute_spec_iter().enumerate() {
            let Some(aspec) = t.find_attribute_spec(an) else { continue };
            let m = aspec.version;
            if m & mask == *mask || m & mask == 0 { continue; }
            let src: Vec<_> = all.iter().cloned().filter(|x| (*x as u32) & m & mask != 0).collect();
            let dst: Vec<_> = all.iter().cloned().filter(|x| (*x as u32) & m == 0 && (*x as u32) & mask != 0).collect();
            if src.is_empty() || dst.is_empty() { continue; }
            let s = src[ord % src.len()];
            let dsts = if dst.len() > 2 { vec![dst[0], dst[dst.len() - 1]] } else { dst.clone() };
            for d in dsts { out.push((ord, CxWhat::Attr(k), usize::MAX, s, d)); }
        }
        // sub-elements that exist in some of the type's versions only
        let kids: Vec<(usize, u32, autosar_data::ElementName)> = t.sub_element_spec_iter().enumerate().filter(|(_, (n, _, m, _))| *n != autosar_data::ElementName::ShortName && m & mask != *mask && m & mask != 0).map(|(k, (n, _, m, _))| (k, m, n)).collect();
        let picks: Vec<(usize, u32, autosar_data::ElementName)> = if kids.len() <= 3 { kids.clone() } else { (0..3).map(|k| kids[(ord + k * kids.len() / 3) % kids.len()]).collect() };
        for (k, m, n) in picks {
            let src: Vec<_> = all.iter().cloned().filter(|x| (*x as u32) & m & mask != 0).collect();
            // destination versions in which the type has NO sub-element of that name (a same-named entry of another type is a different matter)
            let dst: Vec<_> = all.iter().cloned().filter(|x| (*x as u32) & mask != 0 && t.find_sub_element(n, *x as u32).is_none()).collect();
            if src.is_empty() || dst.is_empty() { continue; }
            let s = src[ord % src.len()];
            let dsts = if dst.len() > 2 { vec![dst[0], dst[dst.len() - 1]] } else { dst.clone() };
            for d in dsts { if !out.contains(&(ord, CxWhat::Child(k), 0, s, d)) { out.push((ord, CxWhat::Child(k), 0, s, d)); } }
        }
    }
    out
}

fn api_copycross(args: &[String]) {
    let budget: usize = args.get(0).and_then(|s| s.parse().ok()).unwrap_or(usize::MAX);
    let survey = args.get(1).map(|s| s == "survey").unwrap_or(false);
    let types = ec_types();
    let cases = cx_cases();
    let step = if budget < cases.len() { (cases.len() + budget - 1) / budget.max(1) } else { 1 };
    let mut stats = [0u64; 6];
    let (mut ran, mut skipped, mut nfail) = (0u64, 0u64, 0u64);
    let mut seen_fail: Vec<String> = Vec::new();
    for (ord, what, i, v, v2) in cases.iter().step_by(step) {
        let w = match what { CxWhat::Attr(k) => format!("a{}", k), CxWhat::Child(k) => format!("c{}", k), CxWhat::Text => "text".to_string() };
        match cx_one(&types[*ord].0, *what, *i, *v, *v2, &mut stats) {
            Ok(true) => ran += 1,
            Ok(false) => skipped += 1,
            Err(e) => {
                ran += 1; nfail += 1;
                let line = format!("FAIL {} [replay: api copycross1 {} {} {} {} {}]", e, ord, w, if *i == usize::MAX { "any".to_string() } else { i.to_string() }, v.filename(), v2.filename());
                if !survey { println!("{}", line); return; }
                let head: String = e.split(" :: ").next().unwrap_or("").split(": ").take(2).collect::<Vec<_>>().join(": ").split(" [").next().unwrap_or("").chars().take(90).collect();
                if !seen_fail.contains(&head) { seen_fail.push(head); println!("{}", line); }
            }
        }
    }
    if nfail == 0 { println!("OK {} cases of {} (skipped-not-constructible={}) copies-attempted={} refused={} exactness-compared={}", ran, cases.len(), skipped, stats[0], stats[1], stats[2]); }
    else { println!("SURVEY failures={} kinds={} cases={} of {} copies-attempted={} refused={} exactness-compared={}", nfail, seen_fail.len(), ran, cases.len(), stats[0], stats[1], stats[2]); }
}

fn api_copycross1(args: &[String]) {
    use std::str::FromStr;
    let bad = || println!("{{\"outcome\":\"unknown-check\"}}");
    let ord: usize = args.get(0).and_then(|s| s.parse().ok()).unwrap_or(usize::MAX);
    let what = match args.get(1).map(|s| s.as_str()) { Some("text") => CxWhat::Text, Some(s) if s.starts_with('a') => match s[1..].parse() { Ok(k) => CxWhat::Attr(k), Err(_) => return bad() }, Some(s) if s.starts_with('c') => match s[1..].parse() { Ok(k) => CxWhat::Child(k), Err(_) => return bad() }, _ => return bad() };
    let i: usize = args.get(2).and_then(|s| if s == "any" { Some(usize::MAX) } else { s.parse().ok() }).unwrap_or(usize::MAX);
    let (Ok(v), Ok(v2)) = (autosar_data::AutosarVersion::from_str(args.get(3).map(|s| s.as_str()).unwrap_or("")), autosar_data::AutosarVersion::from_str(args.get(4).map(|s| s.as_str()).unwrap_or(""))) else { return bad() };
    let types = ec_types();
    if ord >= types.len() { return bad(); }
    let mut stats = [0u64; 6];
    match cx_one(&types[ord].0, what, i, v, v2, &mut stats) {
        Ok(_) => println!("{{\"outcome\":\"ok\"}}"),
        Err(e) => println!("{{\"outcome\":\"panic\",\"message\":{:?}}}", e.chars().take(600).collect::<String>()),
    }
}
