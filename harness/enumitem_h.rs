// Native closed-instance evaluation for autosar-data-specification/src/enumitem.rs (C18 (b)):
// every member of the table is found by from_bytes at its own index; to_str, Display and from_str agree.
// (CBMC cannot carry this table symbolically -- DESIGN F6 -- so there is no Kani harness here.)
use super::*;
include!("vk.rs");
#[allow(unused_imports)]
use vk::*;

vk_dispatch! {
    harnesses: [];
    checks: [];
}

// pub fn ground(which) -- "names" (every member found at its own index) and "neighbours"
vk_ground_names!(EnumItem);
