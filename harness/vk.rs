// Shim shared by all harness files: under Kani the inputs are symbolic, in the native
// replay build they are popped from a queue filled from Kani's concrete playback (or from
// the witness finder).  Harness bodies are therefore the *same text* in both worlds.
#[allow(dead_code, unused_macros, unused_imports)]
pub(crate) mod vk {
    #[cfg(not(kani))]
    pub extern crate std;
    #[cfg(not(kani))]
    use std::{cell::RefCell, collections::VecDeque, vec::Vec};

    #[cfg(not(kani))]
    std::thread_local! {
        pub static QUEUE: RefCell<VecDeque<Vec<u8>>> = RefCell::new(VecDeque::new());
    }

    #[cfg(not(kani))]
    pub struct Rejected;

    #[cfg(not(kani))]
    fn pop(n: usize) -> [u8; 16] {
        let v = QUEUE.with(|q| q.borrow_mut().pop_front()).unwrap_or_default();
        let mut out = [0u8; 16];
        for i in 0..n.min(v.len()).min(16) {
            out[i] = v[i];
        }
        out
    }

    #[cfg(kani)]
    pub fn any_u8() -> u8 { kani::any() }
    #[cfg(not(kani))]
    pub fn any_u8() -> u8 { pop(1)[0] }

    #[cfg(kani)]
    pub fn any_bool() -> bool { kani::any() }
    #[cfg(not(kani))]
    pub fn any_bool() -> bool { pop(1)[0] & 1 == 1 }

    #[cfg(kani)]
    pub fn any_u16() -> u16 { kani::any() }
    #[cfg(not(kani))]
    pub fn any_u16() -> u16 { let b = pop(2); u16::from_le_bytes([b[0], b[1]]) }

    #[cfg(kani)]
    pub fn any_u32() -> u32 { kani::any() }
    #[cfg(not(kani))]
    pub fn any_u32() -> u32 { let b = pop(4); u32::from_le_bytes([b[0], b[1], b[2], b[3]]) }

    #[cfg(kani)]
    pub fn any_u64() -> u64 { kani::any() }
    #[cfg(not(kani))]
    pub fn any_u64() -> u64 { let b = pop(8); u64::from_le_bytes([b[0], b[1], b[2], b[3], b[4], b[5], b[6], b[7]]) }

    #[cfg(kani)]
    pub fn any_usize() -> usize { kani::any() }
    #[cfg(not(kani))]
    pub fn any_usize() -> usize { any_u64() as usize }

    #[cfg(kani)]
    pub fn any_f64() -> f64 { kani::any() }
    #[cfg(not(kani))]
    pub fn any_f64() -> f64 { f64::from_bits(any_u64()) }

    pub fn any_bytes<const N: usize>() -> [u8; N] {
        let mut a = [0u8; N];
        let mut i = 0;
        while i < N {
            a[i] = any_u8();
            i += 1;
        }
        a
    }

    #[cfg(kani)]
    pub fn assume(c: bool) { kani::assume(c) }
    #[cfg(not(kani))]
    pub fn assume(c: bool) { if !c { std::panic::panic_any(Rejected) } }

    #[cfg(kani)]
    macro_rules! cover { ($c:expr, $m:literal) => { kani::cover!($c, $m) }; }
    #[cfg(not(kani))]
    macro_rules! cover { ($c:expr, $m:literal) => { { let _ = $c; } }; }
    pub(crate) use cover;

    // native dispatch table: `vk_dispatch!{ harnesses: [h1, h2]; checks: [name => check_fn]; }`
    // at the end of each harness file
    macro_rules! vk_dispatch {
        (harnesses: [$($name:ident),* $(,)?]; checks: [$($cn:ident => $cf:path),* $(,)?];) => {
            #[cfg(not(kani))]
            pub fn run(name: &str, vals: vk::std::vec::Vec<vk::std::vec::Vec<u8>>) -> bool {
                vk::QUEUE.with(|q| { let mut q = q.borrow_mut(); q.clear(); q.extend(vals); });
                $( if name == stringify!($name) { $name(); return true; } )*
                false
            }
            #[cfg(not(kani))]
            pub fn check_bytes(name: &str, input: &[u8]) -> bool {
                let _ = input;
                $( if name == stringify!($cn) { $cf(input); return true; } )*
                false
            }
            #[cfg(not(kani))]
            pub const HARNESSES: &[&str] = &[$(stringify!($name)),*];
        };
    }
    pub(crate) use vk_dispatch;
}
