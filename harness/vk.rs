// Shim shared by all harness files: under Kani the inputs are symbolic, in the native
// replay build they are popped from a queue filled from Kani's concrete playback (or from
// the witness finder).  Harness bodies are therefore the *same text* in both worlds.
#[allow(dead_code, unused_macros, unused_imports)]
pub(crate) mod vk {
    #[cfg(not(kani))]
    pub extern crate std;
    #[cfg(not(kani))]
    use std::{cell::RefCell, collections::VecDeque, vec::Vec};

    #[cfg(not(kani))]
    std::thread_local! {
        pub static QUEUE: RefCell<VecDeque<Vec<u8>>> = RefCell::new(VecDeque::new());
    }

    #[cfg(not(kani))]
    pub struct Rejected;

    #[cfg(not(kani))]
    fn pop(n: usize) -> [u8; 16] {
        let v = QUEUE.with(|q| q.borrow_mut().pop_front()).unwrap_or_default();
        let mut out = [0u8; 16];
        for i in 0..n.min(v.len()).min(16) {
            out[i] = v[i];
        }
        out
    }

    #[cfg(kani)]
    pub fn any_u8() -> u8 { kani::any() }
    #[cfg(not(kani))]
    pub fn any_u8() -> u8 { pop(1)[0] }

    #[cfg(kani)]
    pub fn any_bool() -> bool { kani::any() }
    #[cfg(not(kani))]
    pub fn any_bool() -> bool { pop(1)[0] & 1 == 1 }

    #[cfg(kani)]
    pub fn any_u16() -> u16 { kani::any() }
    #[cfg(not(kani))]
    pub fn any_u16() -> u16 { let b = pop(2); u16::from_le_bytes([b[0], b[1]]) }

    #[cfg(kani)]
    pub fn any_u32() -> u32 { kani::any() }
    #[cfg(not(kani))]
    pub fn any_u32() -> u32 { let b = pop(4); u32::from_le_bytes([b[0], b[1], b[2], b[3]]) }

    #[cfg(kani)]
    pub fn any_u64() -> u64 { kani::any() }
    #[cfg(not(kani))]
    pub fn any_u64() -> u64 { let b = pop(8); u64::from_le_bytes([b[0], b[1], b[2], b[3], b[4], b[5], b[6], b[7]]) }

    #[cfg(kani)]
    pub fn any_usize() -> usize { kani::any() }
    #[cfg(not(kani))]
    pub fn any_usize() -> usize { any_u64() as usize }

    #[cfg(kani)]
    pub fn any_f64() -> f64 { kani::any() }
    #[cfg(not(kani))]
    pub fn any_f64() -> f64 { f64::from_bits(any_u64()) }

    pub fn any_bytes<const N: usize>() -> [u8; N] {
        let mut a = [0u8; N];
        let mut i = 0;
        while i < N {
            a[i] = any_u8();
            i += 1;
        }
        a
    }

    #[cfg(kani)]
    pub fn assume(c: bool) { kani::assume(c) }
    #[cfg(not(kani))]
    pub fn assume(c: bool) { if !c { std::panic::panic_any(Rejected) } }

    #[cfg(kani)]
    macro_rules! cover { ($c:expr, $m:literal) => { kani::cover!($c, $m) }; }
    #[cfg(not(kani))]
    macro_rules! cover { ($c:expr, $m:literal) => { { let _ = $c; } }; }
    pub(crate) use cover;

    // native dispatch table: `vk_dispatch!{ harnesses: [h1, h2]; checks: [name => check_fn]; }`
    // at the end of each harness file
    macro_rules! vk_dispatch {
        (harnesses: [$($name:ident),* $(,)?]; checks: [$($cn:ident => $cf:path),* $(,)?];) => {
            #[cfg(not(kani))]
            pub fn run(name: &str, vals: vk::std::vec::Vec<vk::std::vec::Vec<u8>>) -> bool {
                vk::QUEUE.with(|q| { let mut q = q.borrow_mut(); q.clear(); q.extend(vals); });
                $( if name == stringify!($name) { $name(); return true; } )*
                false
            }
            #[cfg(not(kani))]
            pub fn check_bytes(name: &str, input: &[u8]) -> bool {
                let _ = input;
                $( if name == stringify!($cn) { $cf(input); return true; } )*
                false
            }
            #[cfg(not(kani))]
            pub const HARNESSES: &[&str] = &[$(stringify!($name)),*];
        };
    }
    pub(crate) use vk_dispatch;

    // closed instances (C18 (b)) and one-edit neighbours for a name table type; used as
    // `vk_ground_names!(ElementName);` in the harness file attached to the type's module
    macro_rules! vk_ground_names {
        ($ty:ident) => {
            #[cfg(not(kani))]
            pub fn ground(which: &str) -> Option<vk::std::string::String> {
                const NAME: &str = stringify!($ty);
                use vk::std::string::{String, ToString};
                use vk::std::format;
                use core::str::FromStr;
                if which == "names" {
                    let mut n = 0u64;
                    for (i, s) in $ty::STRING_TABLE.iter().enumerate() {
                        match $ty::from_bytes(s.as_bytes()) {
                            Ok(item) => {
                                if item as usize != i { return Some(format!("FAIL {}::from_bytes({:?}) returned item {} instead of {}", NAME, s, item as usize, i)); }
                                if item.to_str() != *s { return Some(format!("FAIL {} to_str of item {} is {:?}, table has {:?}", NAME, i, item.to_str(), s)); }
                                if item.to_string() != *s { return Some(format!("FAIL {} Display of item {} differs from {:?}", NAME, i, s)); }
                                match $ty::from_str(s) { Ok(j) if j == item => {}, _ => return Some(format!("FAIL {}::from_str({:?}) differs from from_bytes", NAME, s)) }
                            }
                            Err(_) => return Some(format!("FAIL {}::from_bytes({:?}) (member {}) fails", NAME, s, i)),
                        }
                        n += 4;
                    }
                    return Some(format!("OK {}", n));
                }
                if which == "neighbours" {
                    // bounded cross-check of (a): one-edit neighbours of every member must fail unless they are members
                    let mut n = 0u64;
                    let table: vk::std::collections::HashSet<&[u8]> = $ty::STRING_TABLE.iter().map(|s| s.as_bytes()).collect();
                    let mut probe = |cand: &[u8]| -> Option<String> {
                        n += 1;
                        match $ty::from_bytes(cand) {
                            Ok(item) => {
                                if !table.contains(cand) { return Some(format!("FAIL {}::from_bytes accepts non-member {:?} as item {}", NAME, String::from_utf8_lossy(cand), item as usize)); }
                                if item.to_str().as_bytes() != cand { return Some(format!("FAIL {}::from_bytes({:?}) returned item with text {:?}", NAME, String::from_utf8_lossy(cand), item.to_str())); }
                                None
                            }
                            Err(_) => if table.contains(cand) { Some(format!("FAIL {}::from_bytes rejects member {:?}", NAME, String::from_utf8_lossy(cand))) } else { None },
                        }
                    };
                    if let Some(f) = probe(b"") { return Some(f); }
                    if let Some(f) = probe(&[0xff, 0xfe, 0x80]) { return Some(f); }
                    if let Some(f) = probe(&[b'A'; 300]) { return Some(f); }
                    for s in $ty::STRING_TABLE.iter() {
                        let b = s.as_bytes();
                        for k in 0..b.len() {
                            let mut c = b.to_vec();
                            c[k] = if c[k].is_ascii_uppercase() { c[k].to_ascii_lowercase() } else if c[k].is_ascii_lowercase() { c[k].to_ascii_uppercase() } else if c[k] == b'-' { b'_' } else if c[k] == b'_' { b'-' } else { c[k] ^ 1 };
                            if let Some(f) = probe(&c) { return Some(f); }
                            let mut d = b.to_vec(); d.remove(k);
                            if let Some(f) = probe(&d) { return Some(f); }
                        }
                        for extra in [b'S', b'-', b' ', 0u8, b'a'] {
                            let mut c = b.to_vec(); c.push(extra);
                            if let Some(f) = probe(&c) { return Some(f); }
                            let mut c = vk::std::vec![extra]; c.extend_from_slice(b);
                            if let Some(f) = probe(&c) { return Some(f); }
                        }
                    }
                    return Some(format!("OK {}", n));
                }
                None
            }
        };
    }
    pub(crate) use vk_ground_names;
}
