// Kani harnesses / native checks for autosar-data-specification/src/regex.rs (C19).
// Everything that depends on the published regexes (reference DFA tables, simulation maps, the
// harness list itself) is generated on every run from the working tree by vxlib/regexgen.py.
use super::*;
include!("vk.rs");
use vk::*;
include!(concat!(env!("VX_GEN_DIR"), "/regex_gen.rs"));
