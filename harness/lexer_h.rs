// Kani harnesses / native replays for autosar-data/src/lexer.rs (child module: sees private items).
use super::*;
include!("vk.rs");
use vk::*;

fn nl_count(b: &[u8]) -> usize {
    let mut n = 0;
    let mut i = 0;
    while i < b.len() { if b[i] == b'\n' { n += 1; } i += 1; }
    n
}

// Executable form of the contract of `next` (contracts/lexer.py): drive the real lexer over the
// whole buffer; it must reach EndOfFile or an error within 2*len+2 calls (progress), never
// panic, and every reported line must lie in 1 ..= 1 + number of '\n'.
fn check_lex(input: &[u8]) {
    let maxline = 1 + nl_count(input);
    let mut lexer = ArxmlLexer::new(input, PathBuf::new());
    let mut calls = 0usize;
    loop {
        calls += 1;
        assert!(calls <= 2 * input.len() + 2, "lexer: no progress (more than 2*len+2 calls)");
        match lexer.next() {
            Ok((line, ev)) => {
                assert!(1 <= line && line <= maxline, "lexer: token line out of range");
                if let ArxmlEvent::EndOfFile = ev { break; }
            }
            Err(AutosarDataError::LexerError { line, .. }) => {
                assert!(1 <= line && line <= maxline, "lexer: error line out of range");
                break;
            }
            Err(_) => { assert!(false, "lexer: unexpected error kind"); }
        }
    }
}

// Whole-lexer Kani harnesses are not registered: even a 1-byte symbolic buffer exceeds 400 s
// (DESIGN F8).  `check_lex` is used by the native exhaustive short-string cross-check and by the
// witness finder instead.

fn check_count_lines(input: &[u8]) {
    assert!(count_lines(input) == nl_count(input), "count_lines differs from the number of newlines");
}
macro_rules! cl_len {
    ($name:ident, $n:literal) => {
        #[cfg_attr(kani, kani::proof)]
        #[cfg_attr(kani, kani::unwind(12))]
        pub fn $name() { let a: [u8; $n] = any_bytes::<$n>(); check_count_lines(&a); }
    };
}
cl_len!(count_lines_len0, 0);
cl_len!(count_lines_len4, 4);
cl_len!(count_lines_len8, 8);

vk_dispatch! {
    harnesses: [count_lines_len0, count_lines_len4, count_lines_len8];
    checks: [lex => check_lex, count_lines => check_count_lines];
}
