// Harnesses for autosar-data-specification/src/lib.rs: hashfunc (Kani) and the closed-instance
// evaluation "lookups match the listings" (native, C18).
use super::*;
include!("vk.rs");
use vk::*;

fn check_hashfunc(input: &[u8]) {
    let (g, f1, f2) = hashfunc(input);
    assert!(g == f1 ^ f2, "hashfunc: g != f1 ^ f2");
}
macro_rules! hf_len {
    ($name:ident, $n:literal) => {
        #[cfg_attr(kani, kani::proof)]
        #[cfg_attr(kani, kani::unwind(20))]
        pub fn $name() { let a: [u8; $n] = any_bytes::<$n>(); check_hashfunc(&a); }
    };
}
hf_len!(hashfunc_len0, 0);
hf_len!(hashfunc_len1, 1);
hf_len!(hashfunc_len2, 2);
hf_len!(hashfunc_len3, 3);
hf_len!(hashfunc_len4, 4);
hf_len!(hashfunc_len5, 5);
hf_len!(hashfunc_len6, 6);
hf_len!(hashfunc_len7, 7);
hf_len!(hashfunc_len11, 11);
hf_len!(hashfunc_len16, 16);

vk_dispatch! {
    harnesses: [hashfunc_len0, hashfunc_len1, hashfunc_len2, hashfunc_len3, hashfunc_len4, hashfunc_len5, hashfunc_len6, hashfunc_len7, hashfunc_len11, hashfunc_len16];
    checks: [hashfunc => check_hashfunc];
}

#[cfg(not(kani))]
pub fn ground(which: &str) -> Option<vk::std::string::String> {
    use vk::std::collections::HashSet;
    use vk::std::format;
    use vk::std::vec::Vec;
    if which == "tables_wf" { return Some(tables_wf()); }
    if which == "tables_modes" { return Some(tables_modes()); }
    if which == "tables_crosstype" { return Some(tables_crosstype()); }
    if which != "lookups" { return None; }
    // all element types reachable from ROOT through the public listing
    let mut seen: HashSet<ElementType> = HashSet::new();
    let mut work: Vec<ElementType> = Vec::new();
    seen.insert(ElementType::ROOT);
    work.push(ElementType::ROOT);
    let mut all: Vec<ElementType> = Vec::new();
    while let Some(t) = work.pop() {
        all.push(t);
        for (_, st, _, _) in t.sub_element_spec_iter() {
            if seen.insert(st) { work.push(st); }
        }
    }
    let defs: HashSet<u16> = all.iter().map(|t| t.def).collect();
    if defs.len() != ELEMENTS.len() {
        return Some(format!("FAIL listing reaches {} element definitions, ELEMENTS has {}", defs.len(), ELEMENTS.len()));
    }
    let mut sub_inst = 0u64;
    let mut attr_inst = 0u64;
    let mut ref_inst = 0u64;
    let versions = crate::expand_version_mask(u32::MAX);
    for t in &all {
        let listing: Vec<(ElementName, ElementType, u32, u32)> = t.sub_element_spec_iter().collect();
        for (name, _st, mask, _) in &listing {
            for v in &versions {
                let bit = *v as u32;
                if mask & bit == 0 { continue; }
                sub_inst += 1;
                match t.find_sub_element(*name, bit) {
                    Some((found_t, idx)) => {
                        if !listing.iter().any(|(n2, t2, m2, _)| n2 == name && *t2 == found_t && m2 & bit != 0) {
                            return Some(format!("FAIL {:?}.find_sub_element({:?}, {:?}) returned type {:?} which is not listed for that name in that version", t, name, v, found_t));
                        }
                        match t.get_sub_element_version_mask(&idx) {
                            Some(m) if m & bit != 0 => {}
                            other => return Some(format!("FAIL {:?}.get_sub_element_version_mask({:?}) for {:?} in {:?} is {:?}", t, idx, name, v, other)),
                        }
                    }
                    None => return Some(format!("FAIL {:?}.find_sub_element({:?}, {:?}) is None although the listing has it with mask {:#x}", t, name, v, mask)),
                }
            }
        }
        // attributes: listing (with the version masks from the same tables) vs lookup
        let (a0, _a1) = ElementType::get_attributes_idx(t.typ);
        let aver = ElementType::get_attributes_ver(t.typ);
        let _ = a0;
        for (pos, (name, spec, required)) in t.attribute_spec_iter().enumerate() {
            let listed_mask = VERSION_INFO[aver + pos];
            match t.find_attribute_spec(name) {
                Some(a) => {
                    // the first listed entry of that name is the one a lookup must return
                    let first = t.attribute_spec_iter().position(|(n2, _, _)| n2 == name).unwrap();
                    if first == pos {
                        if !core::ptr::eq(a.spec, spec) || a.required != required || a.version != listed_mask {
                            return Some(format!("FAIL {:?}.find_attribute_spec({:?}) disagrees with the listing (required {} vs {}, version {:#x} vs {:#x})", t, name, a.required, required, a.version, listed_mask));
                        }
                    }
                    for v in &versions {
                        if listed_mask & (*v as u32) != 0 {
                            attr_inst += 1;
                            if first == pos && a.version & (*v as u32) == 0 {
                                return Some(format!("FAIL {:?}.find_attribute_spec({:?}) version mask {:#x} lacks {:?}", t, name, a.version, v));
                            }
                        }
                    }
                }
                None => return Some(format!("FAIL {:?}.find_attribute_spec({:?}) is None although the attribute is listed", t, name)),
            }
        }
    }
    // references: a proposed DEST value is accepted by the target and belongs to the reference's DEST enumeration
    let refs: Vec<&ElementType> = all.iter().filter(|t| t.is_ref()).collect();
    let named: Vec<&ElementType> = all.iter().filter(|t| t.is_named()).collect();
    // distinct (typ) only: the functions depend on `typ` alone
    let mut ref_typs: HashSet<u16> = HashSet::new();
    let mut named_typs: HashSet<u16> = HashSet::new();
    for r in &refs {
        if !ref_typs.insert(r.typ) { continue; }
        named_typs.clear();
        for t in &named {
            if !named_typs.insert(t.typ) { continue; }
            ref_inst += 1;
            if let Some(d) = r.reference_dest_value(t) {
                if !t.verify_reference_dest(d) {
                    return Some(format!("FAIL {:?}.reference_dest_value({:?}) = {:?} is not accepted by verify_reference_dest", r, t, d));
                }
                let ok = match r.find_attribute_spec(AttributeName::Dest) {
                    Some(AttributeSpec { spec: CharacterDataSpec::Enum { items }, .. }) => items.iter().any(|(it, _)| *it == d),
                    _ => false,
                };
                if !ok {
                    return Some(format!("FAIL {:?}.reference_dest_value({:?}) = {:?} is not in the DEST enumeration of the reference", r, t, d));
                }
            }
        }
    }
    Some(format!("OK {} types={} sub={} attr={} ref={}", sub_inst + attr_inst + ref_inst, all.len(), sub_inst, attr_inst, ref_inst))
}


/// The well-formedness predicate `wf_tables()` of the Verus unit `lookups` (contracts/lookups.py), clause by clause,
/// evaluated on the real statics.  Closed, finite statement: every stored index points inside the table it indexes,
/// version lists fit, and group nesting is well-founded (a rank exists: the nesting height, computed here).
#[cfg(not(kani))]
fn tables_wf() -> vk::std::string::String {
    use vk::std::format;
    use vk::std::vec;
    use vk::std::vec::Vec;
    let (n_el, n_sub, n_attr, n_ver, n_dt, n_cd, n_ref) = (ELEMENTS.len(), SUBELEMENTS.len(), ATTRIBUTES.len(), VERSION_INFO.len(), DATATYPES.len(), CHARACTER_DATA.len(), REF_ITEMS.len());
    let mut inst = 0u64;
    for (t, s) in DATATYPES.iter().enumerate() {
        inst += 6;
        let (a, b) = (s.sub_elements.0 as usize, s.sub_elements.1 as usize);
        if !(a <= b && b <= n_sub) { return format!("FAIL DATATYPES[{}].sub_elements = ({}, {}) is not a range inside SUBELEMENTS ({})", t, a, b, n_sub); }
        if s.sub_element_ver as usize + (b - a) > n_ver { return format!("FAIL DATATYPES[{}]: version list {}..+{} leaves VERSION_INFO ({})", t, s.sub_element_ver, b - a, n_ver); }
        let (a, b) = (s.attributes.0 as usize, s.attributes.1 as usize);
        if !(a <= b && b <= n_attr) { return format!("FAIL DATATYPES[{}].attributes = ({}, {}) is not a range inside ATTRIBUTES ({})", t, a, b, n_attr); }
        if s.attributes_ver as usize + (b - a) > n_ver { return format!("FAIL DATATYPES[{}]: attribute version list {}..+{} leaves VERSION_INFO ({})", t, s.attributes_ver, b - a, n_ver); }
        let (a, b) = (s.ref_info.0 as usize, s.ref_info.1 as usize);
        if !(a <= b && b <= n_ref) { return format!("FAIL DATATYPES[{}].ref_info = ({}, {}) is not a range inside REF_ITEMS ({})", t, a, b, n_ref); }
        if let Some(c) = s.character_data { if c as usize >= n_cd { return format!("FAIL DATATYPES[{}].character_data = {} outside CHARACTER_DATA ({})", t, c, n_cd); } }
    }
    for (i, s) in SUBELEMENTS.iter().enumerate() {
        inst += 1;
        match s {
            SubElement::Element(d) => if *d as usize >= n_el { return format!("FAIL SUBELEMENTS[{}] = Element({}) outside ELEMENTS ({})", i, d, n_el); },
            SubElement::Group(g) => if *g as usize >= n_dt { return format!("FAIL SUBELEMENTS[{}] = Group({}) outside DATATYPES ({})", i, g, n_dt); },
        }
    }
    for (d, e) in ELEMENTS.iter().enumerate() {
        inst += 1;
        if e.elemtype as usize >= n_dt { return format!("FAIL ELEMENTS[{}].elemtype = {} outside DATATYPES ({})", d, e.elemtype, n_dt); }
    }
    for (i, a) in ATTRIBUTES.iter().enumerate() {
        inst += 1;
        if a.1 as usize >= n_cd { return format!("FAIL ATTRIBUTES[{}] character data id {} outside CHARACTER_DATA ({})", i, a.1, n_cd); }
    }
    if REFERENCE_TYPE_IDX as usize >= n_cd { return format!("FAIL REFERENCE_TYPE_IDX {} outside CHARACTER_DATA", REFERENCE_TYPE_IDX); }
    // group nesting is well-founded: rank(t) = 1 + max rank of the groups directly inside t; a cycle has no rank
    let mut rank: Vec<i64> = vec![-1; n_dt];      // -1 unknown, -2 on the current path
    fn visit(t: usize, rank: &mut Vec<i64>) -> Result<i64, usize> {
        if rank[t] >= 0 { return Ok(rank[t]); }
        if rank[t] == -2 { return Err(t); }
        rank[t] = -2;
        let (a, b) = (DATATYPES[t].sub_elements.0 as usize, DATATYPES[t].sub_elements.1 as usize);
        let mut r = 0i64;
        for i in a..b {
            if let SubElement::Group(g) = &SUBELEMENTS[i] { let rg = visit(*g as usize, rank)?; if rg + 1 > r { r = rg + 1; } }
        }
        rank[t] = r;
        Ok(r)
    }
    let mut maxrank = 0;
    for t in 0..n_dt {
        inst += 1;
        match visit(t, &mut rank) { Ok(r) => if r > maxrank { maxrank = r; }, Err(c) => return format!("FAIL group nesting is cyclic through DATATYPES[{}] (no rank function exists)", c) }
    }
    // the rank found is a witness for the last clause: check it literally
    for t in 0..n_dt {
        let (a, b) = (DATATYPES[t].sub_elements.0 as usize, DATATYPES[t].sub_elements.1 as usize);
        for i in a..b { if let SubElement::Group(g) = &SUBELEMENTS[i] { inst += 1; if !(rank[*g as usize] < rank[t]) { return format!("FAIL rank({}) !< rank({})", g, t); } } }
    }
    format!("OK {} tables: ELEMENTS={} SUBELEMENTS={} ATTRIBUTES={} VERSION_INFO={} DATATYPES={} CHARACTER_DATA={} REF_ITEMS={} max-group-depth={}", inst, n_el, n_sub, n_attr, n_ver, n_dt, n_cd, n_ref, maxrank)
}


/// The predicate `wf_modes()` of the Verus units `elemcheck` / `insertrange`, evaluated on the real statics: a type whose content
/// mode is Characters lists no sub-elements, and no group entry of SUBELEMENTS names a type with content mode Characters.
/// (This is what makes `panic!("accepted a sub-element inside a character-only element")` and the `unreachable!()` on
/// ContentMode::Characters sub-groups unreachable.)
#[cfg(not(kani))]
fn tables_modes() -> vk::std::string::String {
    use vk::std::format;
    let mut inst = 0u64;
    for (t, s) in DATATYPES.iter().enumerate() {
        inst += 1;
        if s.mode == ContentMode::Characters && s.sub_elements.0 != s.sub_elements.1 {
            return format!("FAIL DATATYPES[{}] has mode Characters but lists sub-elements {}..{}", t, s.sub_elements.0, s.sub_elements.1);
        }
    }
    for (i, s) in SUBELEMENTS.iter().enumerate() {
        if let SubElement::Group(g) = s {
            inst += 1;
            if (*g as usize) < DATATYPES.len() && DATATYPES[*g as usize].mode == ContentMode::Characters {
                return format!("FAIL SUBELEMENTS[{}] = Group({}) has content mode Characters", i, g);
            }
        }
    }
    // ElementType::ROOT lies inside the tables (leaf vx_root_type of unit parseelem)
    inst += 1;
    if (ElementType::ROOT.typ as usize) >= DATATYPES.len() || (ElementType::ROOT.def as usize) >= ELEMENTS.len() {
        return format!("FAIL ElementType::ROOT = ({}, {}) lies outside ELEMENTS / DATATYPES", ElementType::ROOT.def, ElementType::ROOT.typ);
    }
    format!("OK {} instances", inst)
}


/// The table fact `axiom_crosstype` of the Verus unit `compatwalk`: if a parent type lists a sub-element name several times (with
/// different element types for different versions), then an index list found by find_sub_element in one of these types -- for a
/// declared version or for u32::MAX -- resolves to an element entry in each of the other types as well.
/// (Element::check_version_compatibility looks a child up in the type of the target version but reads the version mask through the
/// element's own type and unwraps the result.)
#[cfg(not(kani))]
fn tables_crosstype() -> vk::std::string::String {
    use vk::std::collections::HashSet;
    use vk::std::format;
    use vk::std::vec::Vec;
    let mut seen: HashSet<ElementType> = HashSet::new();
    let mut work: Vec<ElementType> = Vec::new();
    seen.insert(ElementType::ROOT);
    work.push(ElementType::ROOT);
    let mut all: Vec<ElementType> = Vec::new();
    while let Some(t) = work.pop() {
        all.push(t);
        for (_, st, _, _) in t.sub_element_spec_iter() { if seen.insert(st) { work.push(st); } }
    }
    let mut masks: Vec<u32> = crate::expand_version_mask(u32::MAX).iter().map(|v| *v as u32).collect();
    masks.push(u32::MAX);
    let (mut inst, mut pairs) = (0u64, 0u64);
    for p in &all {
        let listing: Vec<(ElementName, ElementType, u32, u32)> = p.sub_element_spec_iter().collect();
        for (n1, t_own, _, _) in &listing {
            for (n2, t_new, _, _) in &listing {
                if n1 != n2 || t_own == t_new { continue; }
                pairs += 1;
                let children: Vec<ElementName> = t_new.sub_element_spec_iter().map(|x| x.0).collect();
                for child in &children {
                    for v in &masks {
                        if let Some((_, idx)) = t_new.find_sub_element(*child, *v) {
                            inst += 1;
                            match t_own.get_sub_element_spec(&idx) {
                                Some((SubElement::Element(_), _)) => {}
                                _ => return format!("FAIL under {:?}, {:?} is listed with types {:?} and {:?}; {:?}.find_sub_element({:?}, {:#x}) = {:?} does not resolve to an element entry in {:?}", p, n1, t_own, t_new, t_new, child, v, idx, t_own),
                            }
                        }
                    }
                }
            }
        }
    }
    format!("OK {} instances type-pairs={}", inst, pairs)
}
