// Harnesses for autosar-data-specification/src/lib.rs: hashfunc (Kani) and the closed-instance
// evaluation "lookups match the listings" (native, C18).
use super::*;
include!("vk.rs");
use vk::*;

fn check_hashfunc(input: &[u8]) {
    let (g, f1, f2) = hashfunc(input);
    assert!(g == f1 ^ f2, "hashfunc: g != f1 ^ f2");
}
macro_rules! hf_len {
    ($name:ident, $n:literal) => {
        #[cfg_attr(kani, kani::proof)]
        #[cfg_attr(kani, kani::unwind(20))]
        pub fn $name() { let a: [u8; $n] = any_bytes::<$n>(); check_hashfunc(&a); }
    };
}
hf_len!(hashfunc_len0, 0);
hf_len!(hashfunc_len1, 1);
hf_len!(hashfunc_len2, 2);
hf_len!(hashfunc_len3, 3);
hf_len!(hashfunc_len4, 4);
hf_len!(hashfunc_len5, 5);
hf_len!(hashfunc_len6, 6);
hf_len!(hashfunc_len7, 7);
hf_len!(hashfunc_len11, 11);
hf_len!(hashfunc_len16, 16);

vk_dispatch! {
    harnesses: [hashfunc_len0, hashfunc_len1, hashfunc_len2, hashfunc_len3, hashfunc_len4, hashfunc_len5, hashfunc_len6, hashfunc_len7, hashfunc_len11, hashfunc_len16];
    checks: [hashfunc => check_hashfunc];
}

#[cfg(not(kani))]
pub fn ground(which: &str) -> Option<vk::std::string::String> {
    use vk::std::collections::HashSet;
    use vk::std::format;
    use vk::std::vec::Vec;
    if which != "lookups" { return None; }
    // all element types reachable from ROOT through the public listing
    let mut seen: HashSet<ElementType> = HashSet::new();
    let mut work: Vec<ElementType> = Vec::new();
    seen.insert(ElementType::ROOT);
    work.push(ElementType::ROOT);
    let mut all: Vec<ElementType> = Vec::new();
    while let Some(t) = work.pop() {
        all.push(t);
        for (_, st, _, _) in t.sub_element_spec_iter() {
            if seen.insert(st) { work.push(st); }
        }
    }
    let defs: HashSet<u16> = all.iter().map(|t| t.def).collect();
    if defs.len() != ELEMENTS.len() {
        return Some(format!("FAIL listing reaches {} element definitions, ELEMENTS has {}", defs.len(), ELEMENTS.len()));
    }
    let mut sub_inst = 0u64;
    let mut attr_inst = 0u64;
    let mut ref_inst = 0u64;
    let versions = crate::expand_version_mask(u32::MAX);
    for t in &all {
        let listing: Vec<(ElementName, ElementType, u32, u32)> = t.sub_element_spec_iter().collect();
        for (name, _st, mask, _) in &listing {
            for v in &versions {
                let bit = *v as u32;
                if mask & bit == 0 { continue; }
                sub_inst += 1;
                match t.find_sub_element(*name, bit) {
                    Some((found_t, idx)) => {
                        if !listing.iter().any(|(n2, t2, m2, _)| n2 == name && *t2 == found_t && m2 & bit != 0) {
                            return Some(format!("FAIL {:?}.find_sub_element({:?}, {:?}) returned type {:?} which is not listed for that name in that version", t, name, v, found_t));
                        }
                        match t.get_sub_element_version_mask(&idx) {
                            Some(m) if m & bit != 0 => {}
                            other => return Some(format!("FAIL {:?}.get_sub_element_version_mask({:?}) for {:?} in {:?} is {:?}", t, idx, name, v, other)),
                        }
                    }
                    None => return Some(format!("FAIL {:?}.find_sub_element({:?}, {:?}) is None although the listing has it with mask {:#x}", t, name, v, mask)),
                }
            }
        }
        // attributes: listing (with the version masks from the same tables) vs lookup
        let (a0, _a1) = ElementType::get_attributes_idx(t.typ);
        let aver = ElementType::get_attributes_ver(t.typ);
        let _ = a0;
        for (pos, (name, spec, required)) in t.attribute_spec_iter().enumerate() {
            let listed_mask = VERSION_INFO[aver + pos];
            match t.find_attribute_spec(name) {
                Some(a) => {
                    // the first listed entry of that name is the one a lookup must return
                    let first = t.attribute_spec_iter().position(|(n2, _, _)| n2 == name).unwrap();
                    if first == pos {
                        if !core::ptr::eq(a.spec, spec) || a.required != required || a.version != listed_mask {
                            return Some(format!("FAIL {:?}.find_attribute_spec({:?}) disagrees with the listing (required {} vs {}, version {:#x} vs {:#x})", t, name, a.required, required, a.version, listed_mask));
                        }
                    }
                    for v in &versions {
                        if listed_mask & (*v as u32) != 0 {
                            attr_inst += 1;
                            if first == pos && a.version & (*v as u32) == 0 {
                                return Some(format!("FAIL {:?}.find_attribute_spec({:?}) version mask {:#x} lacks {:?}", t, name, a.version, v));
                            }
                        }
                    }
                }
                None => return Some(format!("FAIL {:?}.find_attribute_spec({:?}) is None although the attribute is listed", t, name)),
            }
        }
    }
    // references: a proposed DEST value is accepted by the target and belongs to the reference's DEST enumeration
    let refs: Vec<&ElementType> = all.iter().filter(|t| t.is_ref()).collect();
    let named: Vec<&ElementType> = all.iter().filter(|t| t.is_named()).collect();
    // distinct (typ) only: the functions depend on `typ` alone
    let mut ref_typs: HashSet<u16> = HashSet::new();
    let mut named_typs: HashSet<u16> = HashSet::new();
    for r in &refs {
        if !ref_typs.insert(r.typ) { continue; }
        named_typs.clear();
        for t in &named {
            if !named_typs.insert(t.typ) { continue; }
            ref_inst += 1;
            if let Some(d) = r.reference_dest_value(t) {
                if !t.verify_reference_dest(d) {
                    return Some(format!("FAIL {:?}.reference_dest_value({:?}) = {:?} is not accepted by verify_reference_dest", r, t, d));
                }
                let ok = match r.find_attribute_spec(AttributeName::Dest) {
                    Some(AttributeSpec { spec: CharacterDataSpec::Enum { items }, .. }) => items.iter().any(|(it, _)| *it == d),
                    _ => false,
                };
                if !ok {
                    return Some(format!("FAIL {:?}.reference_dest_value({:?}) = {:?} is not in the DEST enumeration of the reference", r, t, d));
                }
            }
        }
    }
    Some(format!("OK {} types={} sub={} attr={} ref={}", sub_inst + attr_inst + ref_inst, all.len(), sub_inst, attr_inst, ref_inst))
}
