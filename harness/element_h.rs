// Kani harnesses / native checks for the pure helpers of autosar-data/src/element.rs (C14):
// compare_item_names (total order on item names) and decompose_item_name.
use super::*;
include!("vk.rs");
use vk::*;

fn ascii_str(b: &[u8]) -> &str { unsafe { core::str::from_utf8_unchecked(b) } }
fn all_ascii(b: &[u8]) -> bool { let mut i = 0; while i < b.len() { if b[i] >= 128 { return false; } i += 1; } true }

/// input = three names of equal length concatenated: the five order laws
pub fn check_name_cmp(input: &[u8]) {
    use core::cmp::Ordering::*;
    if input.len() % 3 != 0 || !all_ascii(input) { return; }
    let n = input.len() / 3;
    let (a, b, c) = (ascii_str(&input[..n]), ascii_str(&input[n..2 * n]), ascii_str(&input[2 * n..]));
    let (ab, ba, bc, ac) = (compare_item_names(a, b), compare_item_names(b, a), compare_item_names(b, c), compare_item_names(a, c));
    assert!(compare_item_names(a, a) == Equal, "name compare: cmp(a,a) != Equal");
    assert!(ab == ba.reverse(), "name compare: cmp(a,b) is not the reverse of cmp(b,a)");
    if ab != Greater && bc != Greater { assert!(ac != Greater, "name compare is not transitive"); }
    if ab == Equal { assert!(a == b, "name compare: distinct names compare Equal"); }
}

/// mixed lengths (the cycle of the property text needs lengths 2,3,3): input = a ++ 0xff ++ b ++ 0xff ++ c
pub fn check_name_cmp_sep(input: &[u8]) {
    use core::cmp::Ordering::*;
    let mut parts: [&[u8]; 3] = [&[], &[], &[]];
    let mut k = 0; let mut start = 0; let mut i = 0;
    while i <= input.len() {
        if i == input.len() || input[i] == 0xff { if k < 3 { parts[k] = &input[start..i]; } k += 1; start = i + 1; }
        i += 1;
    }
    if k != 3 || !all_ascii(parts[0]) || !all_ascii(parts[1]) || !all_ascii(parts[2]) { return; }
    let (a, b, c) = (ascii_str(parts[0]), ascii_str(parts[1]), ascii_str(parts[2]));
    let (ab, ba, bc, ac) = (compare_item_names(a, b), compare_item_names(b, a), compare_item_names(b, c), compare_item_names(a, c));
    assert!(ab == ba.reverse(), "name compare: cmp(a,b) is not the reverse of cmp(b,a)");
    if ab != Greater && bc != Greater { assert!(ac != Greater, "name compare is not transitive"); }
    if ab == Equal { assert!(a == b, "name compare: distinct names compare Equal"); }
}

/// decompose_item_name: Some((base, idx)) <=> name == base ++ digits, digits non-empty and fit u64, base has no trailing digit
pub fn check_decompose(input: &[u8]) {
    if !all_ascii(input) { return; }
    let name = ascii_str(input);
    let mut pos = input.len();
    while pos > 0 && input[pos - 1].is_ascii_digit() { pos -= 1; }
    let ndig = input.len() - pos;
    match decompose_item_name(name) {
        Some((base, idx)) => {
            assert!(ndig > 0 && base.as_bytes() == &input[..pos], "decompose: wrong base");
            let mut v: u128 = 0; let mut i = pos;
            while i < input.len() { v = v * 10 + (input[i] - b'0') as u128; i += 1; }
            assert!(v == idx as u128, "decompose: wrong index");
        }
        None => assert!(ndig == 0 || ndig > 19, "decompose: name with a trailing number that fits u64 is not decomposed"),
    }
}

macro_rules! h_len {
    ($name:ident, $check:ident, $n:literal) => {
        #[cfg_attr(kani, kani::proof)]
        #[cfg_attr(kani, kani::unwind(10))]
        pub fn $name() { let a: [u8; $n] = any_bytes::<$n>(); assume(all_ascii(&a)); $check(&a); }
    };
}
h_len!(name_cmp_len1, check_name_cmp, 3);
h_len!(name_cmp_len2, check_name_cmp, 6);
h_len!(name_cmp_len3, check_name_cmp, 9);
h_len!(decompose_len1, check_decompose, 1);
h_len!(decompose_len2, check_decompose, 2);
h_len!(decompose_len3, check_decompose, 3);
h_len!(decompose_len4, check_decompose, 4);
h_len!(decompose_len5, check_decompose, 5);

vk_dispatch! {
    harnesses: [name_cmp_len1, name_cmp_len2, name_cmp_len3, decompose_len1, decompose_len2, decompose_len3, decompose_len4, decompose_len5];
    checks: [name_cmp => check_name_cmp, name_cmp_sep => check_name_cmp_sep, decompose => check_decompose];
}
