// Kani harnesses / native replays for autosar-data/src/parser.rs (child module: sees private items).
use super::*;
include!("vk.rs");
use vk::*;

fn ws(c: u8) -> bool { c == b' ' || c == b'\t' || c == b'\n' || c == 0x0c || c == b'\r' }

// Contract of trim_byte_string, executable form (same clauses as contracts/trim.py):
// never panics; result = input[a..b]; removed bytes are whitespace; result does not start
// or end with whitespace.
fn check_trim(input: &[u8]) {
    let r = trim_byte_string(input);
    let base = input.as_ptr() as usize;
    let a = (r.as_ptr() as usize).wrapping_sub(base);
    assert!(r.len() <= input.len(), "trim: result longer than input");
    if !r.is_empty() {
        assert!(a <= input.len() && a + r.len() <= input.len(), "trim: result is not a sub-slice");
        let b = a + r.len();
        let mut k = 0;
        while k < a { assert!(ws(input[k]), "trim: removed a non-whitespace byte (front)"); k += 1; }
        let mut k = b;
        while k < input.len() { assert!(ws(input[k]), "trim: removed a non-whitespace byte (back)"); k += 1; }
        assert!(!ws(r[0]) && !ws(r[r.len() - 1]), "trim: whitespace left at an end");
    } else {
        let mut k = 0;
        while k < input.len() { assert!(ws(input[k]), "trim: empty result for non-blank input"); k += 1; }
    }
    cover!(r.len() < input.len() && !r.is_empty(), "trimmed something and kept something");
    cover!(r.is_empty() && !input.is_empty(), "all-blank input");
}

macro_rules! trim_len {
    ($name:ident, $n:literal) => {
        #[cfg_attr(kani, kani::proof)]
        #[cfg_attr(kani, kani::unwind(12))]
        pub fn $name() { let a: [u8; $n] = any_bytes::<$n>(); check_trim(&a); }
    };
}
trim_len!(trim_len0, 0);
trim_len!(trim_len1, 1);
trim_len!(trim_len2, 2);
trim_len!(trim_len3, 3);
trim_len!(trim_len4, 4);
trim_len!(trim_len5, 5);
trim_len!(trim_len6, 6);
trim_len!(trim_len7, 7);
trim_len!(trim_len8, 8);

vk_dispatch! {
    harnesses: [trim_len0, trim_len1, trim_len2, trim_len3, trim_len4, trim_len5, trim_len6, trim_len7, trim_len8];
    checks: [trim => check_trim];
}
