// Kani harnesses / native replays for autosar-data/src/parser.rs (child module: sees private items).
use super::*;
include!("vk.rs");
use vk::*;

fn ws(c: u8) -> bool { c == b' ' || c == b'\t' || c == b'\n' || c == 0x0c || c == b'\r' }

// Contract of trim_byte_string, executable form (same clauses as contracts/trim.py):
// never panics; result = input[a..b]; removed bytes are whitespace; result does not start
// or end with whitespace.
fn check_trim(input: &[u8]) {
    let r = trim_byte_string(input);
    let base = input.as_ptr() as usize;
    let a = (r.as_ptr() as usize).wrapping_sub(base);
    assert!(r.len() <= input.len(), "trim: result longer than input");
    if !r.is_empty() {
        assert!(a <= input.len() && a + r.len() <= input.len(), "trim: result is not a sub-slice");
        let b = a + r.len();
        let mut k = 0;
        while k < a { assert!(ws(input[k]), "trim: removed a non-whitespace byte (front)"); k += 1; }
        let mut k = b;
        while k < input.len() { assert!(ws(input[k]), "trim: removed a non-whitespace byte (back)"); k += 1; }
        assert!(!ws(r[0]) && !ws(r[r.len() - 1]), "trim: whitespace left at an end");
    } else {
        let mut k = 0;
        while k < input.len() { assert!(ws(input[k]), "trim: empty result for non-blank input"); k += 1; }
    }
    cover!(r.len() < input.len() && !r.is_empty(), "trimmed something and kept something");
    cover!(r.is_empty() && !input.is_empty(), "all-blank input");
}

macro_rules! trim_len {
    ($name:ident, $n:literal) => {
        #[cfg_attr(kani, kani::proof)]
        #[cfg_attr(kani, kani::unwind(12))]
        pub fn $name() { let a: [u8; $n] = any_bytes::<$n>(); check_trim(&a); }
    };
}
trim_len!(trim_len0, 0);
trim_len!(trim_len1, 1);
trim_len!(trim_len2, 2);
trim_len!(trim_len3, 3);
trim_len!(trim_len4, 4);
trim_len!(trim_len5, 5);
trim_len!(trim_len6, 6);
trim_len!(trim_len7, 7);
trim_len!(trim_len8, 8);

// ---------------------------------------------------------------------------------------------
// C08: the single funnel for recoverable findings -- optional_error / check_version / error
fn new_parser(strict: bool) -> ArxmlParser<'static> { ArxmlParser::new(PathBuf::new(), &[], strict) }

fn pick_error(k: u8) -> ArxmlParserError {
    match k % 4 {
        0 => ArxmlParserError::AdditionalDataError,
        1 => ArxmlParserError::InvalidArxmlFileHeader,
        2 => ArxmlParserError::CharacterContentForbidden { element: ElementName::Autosar },
        _ => ArxmlParserError::TooManySubElements { element: ElementName::Autosar, sub_element: ElementName::ArPackages },
    }
}
fn same_error(k: u8, e: &ArxmlParserError) -> bool {
    match (k % 4, e) {
        (0, ArxmlParserError::AdditionalDataError) => true,
        (1, ArxmlParserError::InvalidArxmlFileHeader) => true,
        (2, ArxmlParserError::CharacterContentForbidden { element: ElementName::Autosar }) => true,
        (3, ArxmlParserError::TooManySubElements { element: ElementName::Autosar, sub_element: ElementName::ArPackages }) => true,
        _ => false,
    }
}
fn is_parser_error(e: &AutosarDataError, k: u8, line: usize) -> bool {
    match e { AutosarDataError::ParserError { line: l, source, .. } => *l == line && same_error(k, source), _ => false }
}

/// optional_error: strict => Err(exactly this error at the current line), warnings untouched;
/// lenient => Ok(()) and warnings' == warnings ++ [this error at the current line]
#[cfg_attr(kani, kani::proof)]
#[cfg_attr(kani, kani::unwind(4))]
pub fn funnel_optional_error() {
    let strict = any_bool();
    let line = any_usize();
    let k = any_u8();
    let mut p = new_parser(strict);
    p.line = line;
    let n0 = p.warnings.len();
    let r = p.optional_error(pick_error(k));
    if strict {
        match r { Err(e) => assert!(is_parser_error(&e, k, line), "strict: optional_error must return exactly the given error with the current line"), Ok(()) => assert!(false, "strict: a recoverable finding was swallowed") }
        assert!(p.warnings.len() == n0, "strict: warnings must not change");
    } else {
        assert!(r.is_ok(), "lenient: optional_error must not fail");
        assert!(p.warnings.len() == n0 + 1, "lenient: exactly one warning must be recorded");
        assert!(is_parser_error(&p.warnings[n0], k, line), "lenient: the recorded warning must be the given error with the current line");
    }
    assert!(p.strict == strict && p.line == line, "the funnel must not change the mode or the line");
    cover!(strict, "strict");
    cover!(!strict, "lenient");
}

/// error(): hard errors carry the error and the current line and never depend on the mode
#[cfg_attr(kani, kani::proof)]
pub fn funnel_error() {
    let strict = any_bool();
    let line = any_usize();
    let k = any_u8();
    let mut p = new_parser(strict);
    p.line = line;
    let e = p.error(pick_error(k));
    assert!(is_parser_error(&e, k, line), "error() must wrap the given error with the current line");
    assert!(p.warnings.is_empty(), "error() must not record a warning");
}

/// check_version: raises through the funnel exactly when the file version is not in the mask, and always
/// narrows version_compatibility by the mask (all u32 masks, all declared versions, both modes)
#[cfg_attr(kani, kani::proof)]
#[cfg_attr(kani, kani::unwind(4))]
pub fn funnel_check_version() {
    let strict = any_bool();
    let mask = any_u32();
    let compat0 = any_u32();
    let k = any_u8();
    let vi = any_usize();
    assume(vi < ALL_VERSIONS.len());
    let v = ALL_VERSIONS[vi];
    let mut p = new_parser(strict);
    p.fileversion = v;
    p.version_compatibility = compat0;
    let line = any_usize();
    p.line = line;
    let r = p.check_version(mask, pick_error(k));
    assert!(p.version_compatibility == compat0 & mask, "check_version must narrow version_compatibility by the item mask");
    let finding = (v as u32) & mask == 0;
    if !finding {
        assert!(r.is_ok() && p.warnings.is_empty(), "no finding when the file version is in the mask");
    } else if strict {
        match r { Err(e) => assert!(is_parser_error(&e, k, line), "strict: version finding must be returned as the given error"), Ok(()) => assert!(false, "strict: version finding swallowed") }
        assert!(p.warnings.is_empty(), "strict: no warning");
    } else {
        assert!(r.is_ok() && p.warnings.len() == 1 && is_parser_error(&p.warnings[0], k, line), "lenient: version finding must be recorded as the given warning");
    }
    assert!(p.fileversion == v && p.strict == strict, "check_version must not change version or mode");
    cover!(finding && strict, "strict finding");
    cover!(finding && !strict, "lenient finding");
    cover!(!finding, "no finding");
}

include!(concat!(env!("VX_GEN_DIR"), "/versions_main.rs"));

vk_dispatch! {
    harnesses: [funnel_optional_error, funnel_error, funnel_check_version, trim_len0, trim_len1, trim_len2, trim_len3, trim_len4, trim_len5, trim_len6, trim_len7, trim_len8];
    checks: [trim => check_trim];
}
