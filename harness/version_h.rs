// Kani harnesses for autosar-data-specification/src/autosarversion.rs (C18: versions convert one-to-one).
use super::*;
use core::str::FromStr;
include!("vk.rs");
use vk::*;

// ALL_VERSIONS is generated on every run from the enum declaration in the working tree
// (vxlib/gen.py: every variant of `pub enum AutosarVersion`, in declaration order).
include!(concat!(env!("VX_GEN_DIR"), "/versions.rs"));

fn pick() -> AutosarVersion {
    let i = any_usize();
    assume(i < ALL_VERSIONS.len());
    ALL_VERSIONS[i]
}

/// for ALL u32 n: from_val(n) == Some(v) ==> v as u32 == n; a hit is a single bit; and a value that is
/// some version's discriminant is found.
#[cfg_attr(kani, kani::proof)]
pub fn version_from_val_all_u32() {
    let n = any_u32();
    match AutosarVersion::from_val(n) {
        Some(v) => {
            assert!(v as u32 == n, "from_val returned a version with a different value");
            assert!(n.count_ones() == 1, "version value is not a single bit");
            cover!(true, "some value converts");
        }
        None => {
            let mut k = 0;
            while k < ALL_VERSIONS.len() {
                assert!(ALL_VERSIONS[k] as u32 != n, "from_val misses the value of a declared version");
                k += 1;
            }
            cover!(true, "some value does not convert");
        }
    }
}

/// for every declared version v: value -> version, version -> file name -> version, single bit
#[cfg_attr(kani, kani::proof)]
#[cfg_attr(kani, kani::unwind(24))]
pub fn version_roundtrip_each() {
    let v = pick();
    assert!(AutosarVersion::from_val(v as u32) == Some(v), "from_val(v as u32) != Some(v)");
    assert!((v as u32).count_ones() == 1, "version value is not a single bit");
    match AutosarVersion::from_str(v.filename()) {
        Ok(w) => assert!(w == v, "from_str(filename(v)) is a different version"),
        Err(_) => assert!(false, "from_str(filename(v)) fails"),
    }
    assert!(v.compatible(v as u32) && !v.compatible(!(v as u32)), "compatible() disagrees with the version bit");
}

/// for every pair of distinct declared versions: distinct values, distinct file names
#[cfg_attr(kani, kani::proof)]
#[cfg_attr(kani, kani::unwind(24))]
pub fn version_pairwise_distinct() {
    let a = pick();
    let b = pick();
    if a != b {
        assert!(a as u32 != b as u32, "two versions share a value");
        assert!(a.filename().as_bytes() != b.filename().as_bytes(), "two versions share a file name");
    }
    cover!(a != b, "distinct pair");
}

// from_str(s) == Ok(v) ==> s == filename(v), for every ASCII/UTF-8 text of a given length
fn check_from_str(input: &[u8]) {
    // `input` is ASCII here (assumed by the harness / guaranteed by the finder alphabet)
    let s = unsafe { core::str::from_utf8_unchecked(input) };
    if let Ok(v) = AutosarVersion::from_str(s) {
        assert!(v.filename().as_bytes() == input, "from_str accepts a text that is not the version's file name");
    }
}
macro_rules! fs_len {
    ($name:ident, $n:literal) => {
        #[cfg_attr(kani, kani::proof)]
        #[cfg_attr(kani, kani::unwind(24))]
        pub fn $name() {
            let a: [u8; $n] = any_bytes::<$n>();
            let mut i = 0;
            while i < $n { assume(a[i] < 128); i += 1; }
            check_from_str(&a);
        }
    };
}
fs_len!(version_from_str_len0, 0);
fs_len!(version_from_str_len16, 16);
fs_len!(version_from_str_len17, 17);
fs_len!(version_from_str_len18, 18);

vk_dispatch! {
    harnesses: [version_from_val_all_u32, version_roundtrip_each, version_pairwise_distinct, version_from_str_len0, version_from_str_len16, version_from_str_len17, version_from_str_len18];
    checks: [from_str => check_from_str];
}
