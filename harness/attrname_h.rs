// Kani harnesses for autosar-data-specification/src/attributename.rs (C18 (a) on the unmodified
// from_bytes with the real hash and the real 101-entry table; cross-check of the Verus unit).
use super::*;
include!("vk.rs");
use vk::*;

fn check_attr_from_bytes(input: &[u8]) {
    match AttributeName::from_bytes(input) {
        Ok(item) => {
            let idx = item as usize;
            assert!(idx < AttributeName::STRING_TABLE.len(), "from_bytes returned an out-of-range item");
            assert!(AttributeName::STRING_TABLE[idx].as_bytes() == input, "from_bytes accepts a text that is not the item's text");
            assert!(item.to_str().as_bytes() == input, "to_str(from_bytes(s)) != s");
        }
        Err(_) => {}
    }
}
macro_rules! ab_len {
    ($name:ident, $n:literal) => {
        #[cfg_attr(kani, kani::proof)]
        #[cfg_attr(kani, kani::unwind(30))]
        pub fn $name() { let a: [u8; $n] = any_bytes::<$n>(); check_attr_from_bytes(&a); }
    };
}
ab_len!(attr_from_bytes_len0, 0);
ab_len!(attr_from_bytes_len1, 1);
ab_len!(attr_from_bytes_len2, 2);
ab_len!(attr_from_bytes_len3, 3);
ab_len!(attr_from_bytes_len4, 4);
ab_len!(attr_from_bytes_len5, 5);
ab_len!(attr_from_bytes_len6, 6);
ab_len!(attr_from_bytes_len7, 7);
ab_len!(attr_from_bytes_len8, 8);
ab_len!(attr_from_bytes_len12, 12);
ab_len!(attr_from_bytes_len16, 16);
ab_len!(attr_from_bytes_len24, 24);
ab_len!(attr_from_bytes_len25, 25);

vk_dispatch! {
    harnesses: [attr_from_bytes_len0, attr_from_bytes_len1, attr_from_bytes_len2, attr_from_bytes_len3, attr_from_bytes_len4, attr_from_bytes_len5,
                attr_from_bytes_len6, attr_from_bytes_len7, attr_from_bytes_len8, attr_from_bytes_len12, attr_from_bytes_len16, attr_from_bytes_len24, attr_from_bytes_len25];
    checks: [attr_from_bytes => check_attr_from_bytes];
}

// pub fn ground(which) -- "names" (every member found at its own index) and "neighbours"
vk_ground_names!(AttributeName);
