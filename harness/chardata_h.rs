// Kani harnesses / native checks for autosar-data/src/chardata.rs
//   C20: parse_integer / parse_float / parse_bool / check_value / parse
//   C14: total-preorder laws of `impl Ord for CharacterData`
//   C17: CharacterData::check_version_compatibility
use super::*;
include!("vk.rs");
use vk::*;
// reference DFAs of the published INTEGER (13), NUMERICAL (16) and BOOLEAN (6) patterns, generated from
// specification.rs of the working tree: ref_accepts_INT / ref_accepts_NUM / ref_accepts_BOOL
include!(concat!(env!("VX_GEN_DIR"), "/lexforms.rs"));
include!(concat!(env!("VX_GEN_DIR"), "/versions_main.rs"));

fn ascii_string(b: &[u8]) -> String {
    // harness inputs are assumed ASCII (non-ASCII text is outside every string-valued bounded check)
    unsafe { String::from_utf8_unchecked(b.to_vec()) }
}
fn all_ascii(b: &[u8]) -> bool { let mut i = 0; while i < b.len() { if b[i] >= 128 { return false; } i += 1; } true }

fn pick_version() -> AutosarVersion {
    let i = any_usize();
    assume(i < ALL_VERSIONS.len());
    ALL_VERSIONS[i]
}

// ---------------------------------------------------------------------------------------------
// C20 spec functions: plain arithmetic, written from the lexical forms of regex 13 / 16 / 6
fn digit_val(c: u8) -> u128 {
    match c { b'0'..=b'9' => (c - b'0') as u128, b'a'..=b'f' => (c - b'a' + 10) as u128, b'A'..=b'F' => (c - b'A' + 10) as u128, _ => 0 }
}
fn accumulate(d: &[u8], radix: u128) -> u128 {
    let mut v: u128 = 0;
    let mut i = 0;
    while i < d.len() { v = v.wrapping_mul(radix).wrapping_add(digit_val(d[i])); i += 1; }
    v
}
/// (negative, magnitude) of a text in the INTEGER lexical form (precondition: ref_accepts_INT(t), value < 2^128)
fn int_value(t: &[u8]) -> (bool, u128) {
    if t.len() == 1 && t[0] == b'0' { return (false, 0); }
    if t[0] == b'0' {
        match t[1] {
            b'x' | b'X' => (false, accumulate(&t[2..], 16)),
            b'b' | b'B' => (false, accumulate(&t[2..], 2)),
            _ => (false, accumulate(&t[1..], 8)),
        }
    } else if t[0] == b'-' { (true, accumulate(&t[1..], 10)) }
    else if t[0] == b'+' { (false, accumulate(&t[1..], 10)) }
    else { (false, accumulate(t, 10)) }
}

macro_rules! int_check {
    ($check:ident, $t:ty, signed: $signed:expr) => {
        pub fn $check(input: &[u8]) {
            if !all_ascii(input) || input.len() > 100 || !ref_accepts_INT(input) { return; }
            let (neg, mag) = int_value(input);
            let r = CharacterData::String(ascii_string(input)).parse_integer::<$t>();
            let fits = if neg { $signed && mag <= (<$t>::MAX as u128) + 1 } else { mag <= <$t>::MAX as u128 };
            if fits {
                let expect: $t = if neg { (mag as i128).wrapping_neg() as $t } else { mag as $t };
                assert!(r == Some(expect), "parse_integer returned nothing or a different number for a text that fits");
            } else {
                assert!(r.is_none(), "parse_integer returned a number for a text that does not fit the type");
            }
            cover!(fits, "a lexical text that fits");
        }
    };
}
int_check!(check_int_u8, u8, signed: false);
int_check!(check_int_i8, i8, signed: true);
int_check!(check_int_u16, u16, signed: false);
int_check!(check_int_i16, i16, signed: true);
int_check!(check_int_u32, u32, signed: false);
int_check!(check_int_i32, i32, signed: true);
int_check!(check_int_u64, u64, signed: false);
int_check!(check_int_i64, i64, signed: true);

macro_rules! int_len {
    ($name:ident, $check:ident, $n:literal) => {
        #[cfg_attr(kani, kani::proof)]
        #[cfg_attr(kani, kani::unwind(14))]
        pub fn $name() { let a: [u8; $n] = any_bytes::<$n>(); assume(all_ascii(&a)); $check(&a); }
    };
}
int_len!(int_u8_len1, check_int_u8, 1);  int_len!(int_u8_len2, check_int_u8, 2);  int_len!(int_u8_len3, check_int_u8, 3);  int_len!(int_u8_len4, check_int_u8, 4);
int_len!(int_i8_len1, check_int_i8, 1);  int_len!(int_i8_len2, check_int_i8, 2);  int_len!(int_i8_len3, check_int_i8, 3);  int_len!(int_i8_len4, check_int_i8, 4);
int_len!(int_u16_len1, check_int_u16, 1); int_len!(int_u16_len2, check_int_u16, 2); int_len!(int_u16_len3, check_int_u16, 3); int_len!(int_u16_len4, check_int_u16, 4);
int_len!(int_i16_len1, check_int_i16, 1); int_len!(int_i16_len2, check_int_i16, 2); int_len!(int_i16_len3, check_int_i16, 3); int_len!(int_i16_len4, check_int_i16, 4);
int_len!(int_u32_len1, check_int_u32, 1); int_len!(int_u32_len2, check_int_u32, 2); int_len!(int_u32_len3, check_int_u32, 3); int_len!(int_u32_len4, check_int_u32, 4);
int_len!(int_i32_len1, check_int_i32, 1); int_len!(int_i32_len2, check_int_i32, 2); int_len!(int_i32_len3, check_int_i32, 3); int_len!(int_i32_len4, check_int_i32, 4);
int_len!(int_u64_len1, check_int_u64, 1); int_len!(int_u64_len2, check_int_u64, 2); int_len!(int_u64_len3, check_int_u64, 3); int_len!(int_u64_len4, check_int_u64, 4);
int_len!(int_i64_len1, check_int_i64, 1); int_len!(int_i64_len2, check_int_i64, 2); int_len!(int_i64_len3, check_int_i64, 3); int_len!(int_i64_len4, check_int_i64, 4);
int_len!(int_u8_len5, check_int_u8, 5);  int_len!(int_i8_len5, check_int_i8, 5);

/// UnsignedInteger(v) as integer: Some(v as T) iff it fits -- all u64 values (complete)
macro_rules! uint_all {
    ($name:ident, $t:ty) => {
        #[cfg_attr(kani, kani::proof)]
        pub fn $name() {
            let v = any_u64();
            let r = CharacterData::UnsignedInteger(v).parse_integer::<$t>();
            if (v as u128) <= <$t>::MAX as u128 { assert!(r == Some(v as $t), "UnsignedInteger value that fits is not returned exactly"); }
            else { assert!(r.is_none(), "UnsignedInteger value that does not fit is returned"); }
            cover!((v as u128) > <$t>::MAX as u128 || core::mem::size_of::<$t>() == 8, "boundary reachable");
        }
    };
}
uint_all!(uint_as_u8, u8); uint_all!(uint_as_i8, i8); uint_all!(uint_as_u16, u16); uint_all!(uint_as_i16, i16);
uint_all!(uint_as_u32, u32); uint_all!(uint_as_i32, i32); uint_all!(uint_as_u64, u64); uint_all!(uint_as_i64, i64);

/// Float / Enum data is never an integer or a boolean; Float(v) and UnsignedInteger(v) as float are exact (complete)
#[cfg_attr(kani, kani::proof)]
pub fn nonstring_interpretations() {
    let v = any_u64();
    let f = any_f64();
    assert!(CharacterData::Float(f).parse_integer::<u64>().is_none(), "Float data interpreted as integer");
    assert!(CharacterData::Float(f).parse_bool().is_none() && CharacterData::UnsignedInteger(v).parse_bool().is_none(), "non-string data interpreted as boolean");
    match CharacterData::Float(f).parse_float() { Some(g) => assert!(g.to_bits() == f.to_bits(), "Float(v).parse_float() changed the value"), None => assert!(false, "Float(v).parse_float() is None") }
    match CharacterData::UnsignedInteger(v).parse_float() { Some(g) => assert!(g == v as f64, "UnsignedInteger(v).parse_float() is not v as f64"), None => assert!(false, "UnsignedInteger(v).parse_float() is None") }
    let e: EnumItem = unsafe { core::mem::transmute::<u16, EnumItem>(any_u16() % 2810) };
    assert!(CharacterData::Enum(e).parse_integer::<u64>().is_none() && CharacterData::Enum(e).parse_float().is_none() && CharacterData::Enum(e).parse_bool().is_none(), "Enum data interpreted as a number");
}

/// parse_bool on text: Some(true) <=> "true"|"1", Some(false) <=> "false"|"0"
pub fn check_bool(input: &[u8]) {
    if !all_ascii(input) { return; }
    let r = CharacterData::String(ascii_string(input)).parse_bool();
    let t = input == b"true" || input == b"1";
    let f = input == b"false" || input == b"0";
    assert!(r == (if t { Some(true) } else if f { Some(false) } else { None }), "parse_bool disagrees with the boolean lexical form");
    assert!(ref_accepts_BOOL(input) == (t || f), "harness spec disagrees with the published boolean pattern");
}
macro_rules! bool_len {
    ($name:ident, $n:literal) => {
        #[cfg_attr(kani, kani::proof)]
        #[cfg_attr(kani, kani::unwind(10))]
        pub fn $name() { let a: [u8; $n] = any_bytes::<$n>(); assume(all_ascii(&a)); check_bool(&a); }
    };
}
bool_len!(bool_len0, 0); bool_len!(bool_len1, 1); bool_len!(bool_len2, 2); bool_len!(bool_len3, 3); bool_len!(bool_len4, 4); bool_len!(bool_len5, 5); bool_len!(bool_len6, 6);

/// parse_float on the prefixed forms of the NUMERICAL pattern (0x / 0X / 0b / 0B / leading-0 octal / "0"):
/// exactly `value as f64` (one correctly rounded IEEE conversion).  Decimal/exponent/INF/NaN texts go to
/// std's parser and are not covered here.
pub fn check_float_prefixed(input: &[u8]) {
    if !all_ascii(input) || input.len() > 100 || !ref_accepts_NUM(input) { return; }
    let prefixed = input[0] == b'0' && (input.len() == 1 || matches!(input[1], b'x' | b'X' | b'b' | b'B' | b'0'..=b'7'));
    if !prefixed { return; }
    let mag = if input.len() == 1 { 0 } else { match input[1] { b'x' | b'X' => accumulate(&input[2..], 16), b'b' | b'B' => accumulate(&input[2..], 2), _ => accumulate(&input[1..], 8) } };
    // values of 2^64 and above are outside this contract (the code returns None for them although f64 could hold them: DESIGN 9, observation)
    if mag > u64::MAX as u128 { return; }
    let r = CharacterData::String(ascii_string(input)).parse_float();
    match r { Some(g) => assert!(g == (mag as u64) as f64, "parse_float returned a different number for a prefixed text"), None => assert!(false, "parse_float returned nothing for a prefixed text that fits") }
    cover!(input.len() > 2, "a prefixed form");
}
/// Non-prefixed texts of the NUMERICAL lexical form (decimal, fraction, exponent, INF / -INF / NaN): parse_float must return
/// what std's correctly rounded decimal conversion returns for the same text (native batches only).
pub fn check_float_decimal(input: &[u8]) {
    if !all_ascii(input) || input.is_empty() || input.len() > 100 || !ref_accepts_NUM(input) { return; }
    let prefixed = input[0] == b'0' && input.len() > 1 && matches!(input[1], b'x' | b'X' | b'b' | b'B' | b'0'..=b'7');
    if prefixed || input == b"0" { return; }
    let text = ascii_string(input);
    let want: Option<f64> = text.parse().ok();
    let got = CharacterData::String(text).parse_float();
    match (want, got) {
        (Some(w), Some(g)) => assert!(w.to_bits() == g.to_bits() || (w.is_nan() && g.is_nan()), "parse_float returned a different number for a decimal / exponent text"),
        (None, None) => {}
        (Some(_), None) => assert!(false, "parse_float returned nothing for a text of the numerical lexical form"),
        (None, Some(_)) => assert!(false, "parse_float returned a number although std rejects the text"),
    }
}
// std's decimal float parser is stubbed by a function returning an arbitrary result: a prefixed text must never reach it
#[cfg(kani)]
fn stub_f64_from_str(_s: &str) -> Result<f64, core::num::ParseFloatError> {
    if any_bool() { Ok(any_f64()) } else { "x".parse::<u8>().map(|_| 0.0).map_err(|_| kani_float_err()) }
}
#[cfg(kani)]
fn kani_float_err() -> core::num::ParseFloatError { unsafe { core::mem::zeroed() } }

macro_rules! float_len {
    ($name:ident, $n:literal) => {
        #[cfg_attr(kani, kani::proof)]
        #[cfg_attr(kani, kani::stub(<f64 as core::str::FromStr>::from_str, stub_f64_from_str))]
        #[cfg_attr(kani, kani::unwind(12))]
        pub fn $name() { let a: [u8; $n] = any_bytes::<$n>(); assume(all_ascii(&a)); assume(a[0] == b'0'); check_float_prefixed(&a); }
    };
}
float_len!(float_pref_len1, 1); float_len!(float_pref_len2, 2); float_len!(float_pref_len3, 3); float_len!(float_pref_len4, 4);

// ---------------------------------------------------------------------------------------------
// C20 "formatting a value and parsing the text with the same value type returns an equal value" (native batches only:
// std's float/integer formatting is out of CBMC's reach).  input = the 8 bytes of the value, little endian.
pub fn check_fmt_float(input: &[u8]) {
    if input.len() != 8 { return; }
    let v = f64::from_bits(u64::from_le_bytes([input[0], input[1], input[2], input[3], input[4], input[5], input[6], input[7]]));
    let d = CharacterData::Float(v);
    let same = |w: f64| (w.is_nan() && v.is_nan()) || w.to_bits() == v.to_bits() || (w == v && v != 0.0);
    let text = d.to_string();
    let mut ser = String::new();
    d.serialize_internal(&mut ser);
    for t in [&text, &ser] {
        match CharacterData::parse(t, &CharacterDataSpec::Float, AutosarVersion::LATEST) {
            Some(CharacterData::Float(w)) => assert!(same(w), "formatting a Float and parsing it again gives a different value"),
            _ => assert!(false, "the formatted text of a Float does not parse as Float"),
        }
        match CharacterData::String(t.clone()).parse_float() {
            Some(w) => assert!(same(w), "parse_float of the formatted text of a Float gives a different value"),
            None => assert!(false, "parse_float rejects the formatted text of a Float"),
        }
    }
}
pub fn check_fmt_uint(input: &[u8]) {
    if input.len() != 8 { return; }
    let v = u64::from_le_bytes([input[0], input[1], input[2], input[3], input[4], input[5], input[6], input[7]]);
    let d = CharacterData::UnsignedInteger(v);
    let text = d.to_string();
    let mut ser = String::new();
    d.serialize_internal(&mut ser);
    for t in [&text, &ser] {
        assert!(CharacterData::parse(t, &CharacterDataSpec::UnsignedInteger, AutosarVersion::LATEST) == Some(CharacterData::UnsignedInteger(v)), "formatting an UnsignedInteger and parsing it again gives a different value");
        assert!(CharacterData::String(t.clone()).parse_integer::<u64>() == Some(v), "parse_integer of the formatted text of an UnsignedInteger gives a different value");
    }
}

// ---------------------------------------------------------------------------------------------
// check_value / check_version_compatibility over kind x spec (complete in kinds, masks, versions, verdicts)
static mut STUB_VERDICT: bool = false;
fn stub_check(_s: &[u8]) -> bool { unsafe { STUB_VERDICT } }

fn any_enum_item() -> EnumItem { unsafe { core::mem::transmute::<u16, EnumItem>(any_u16() % 2810) } }

fn any_items() -> &'static [(EnumItem, u32)] {
    let arr: [(EnumItem, u32); 3] = [(any_enum_item(), any_u32()), (any_enum_item(), any_u32()), (any_enum_item(), any_u32())];
    let n = any_usize();
    assume(n <= 3);
    let leaked: &'static [(EnumItem, u32); 3] = Box::leak(Box::new(arr));
    &leaked[..n]
}

fn any_string_len() -> String {
    // only the length of the text matters for check_value (the pattern verdict is the stub's)
    let n = any_usize();
    assume(n <= 3);
    let b = [b'a', b'b', b'c'];
    ascii_string(&b[..n])
}

fn any_data(kind: u8) -> CharacterData {
    match kind % 4 {
        0 => CharacterData::Enum(any_enum_item()),
        1 => CharacterData::String(any_string_len()),
        2 => CharacterData::UnsignedInteger(any_u64()),
        _ => CharacterData::Float(any_f64()),
    }
}

fn any_max_length() -> Option<usize> { if any_bool() { let m = any_usize(); assume(m <= 4); Some(m) } else { None } }

/// spec of "listed with a mask containing the version": the FIRST entry for the item decides
fn first_mask(items: &[(EnumItem, u32)], e: EnumItem) -> Option<u32> {
    let mut i = 0;
    while i < items.len() { if items[i].0 == e { return Some(items[i].1); } i += 1; }
    None
}

#[cfg_attr(kani, kani::proof)]
#[cfg_attr(kani, kani::unwind(6))]
pub fn check_value_all() {
    let version = pick_version();
    let data = any_data(any_u8());
    let verdict = any_bool();
    unsafe { STUB_VERDICT = verdict; }
    let sk = any_u8() % 5;
    let (spec, expect) = match sk {
        0 => {
            let items = any_items();
            let exp = match &data { CharacterData::Enum(e) => match first_mask(items, *e) { Some(m) => m & (version as u32) != 0, None => false }, _ => false };
            (CharacterDataSpec::Enum { items }, exp)
        }
        1 => {
            let ml = any_max_length();
            let exp = match &data { CharacterData::String(s) => (match ml { Some(m) => s.len() <= m, None => true }) && verdict, _ => false };
            (CharacterDataSpec::Pattern { check_fn: stub_check, regex: "", max_length: ml }, exp)
        }
        2 => {
            let ml = any_max_length();
            let exp = match &data { CharacterData::String(s) => match ml { Some(m) => s.len() <= m, None => true }, _ => false };
            (CharacterDataSpec::String { preserve_whitespace: any_bool(), max_length: ml }, exp)
        }
        3 => (CharacterDataSpec::UnsignedInteger, matches!(data, CharacterData::UnsignedInteger(_))),
        _ => (CharacterDataSpec::Float, matches!(data, CharacterData::Float(_))),
    };
    let r = CharacterData::check_value(&data, &spec, version);
    assert!(r == expect, "check_value disagrees with: kind matches spec, within max_length, accepted by check_fn, enum item listed for the version");
    cover!(r, "accepted");
    cover!(!r, "rejected");
}

/// C17, value level: (ok, mask) of check_version_compatibility
#[cfg_attr(kani, kani::proof)]
#[cfg_attr(kani, kani::unwind(6))]
pub fn version_compat_all() {
    let target = pick_version();
    let data = any_data(any_u8());
    let enum_spec = any_bool();
    let items = any_items();
    let spec = if enum_spec { CharacterDataSpec::Enum { items } } else {
        match any_u8() % 4 { 0 => CharacterDataSpec::UnsignedInteger, 1 => CharacterDataSpec::Float, 2 => CharacterDataSpec::String { preserve_whitespace: false, max_length: None },
                             _ => CharacterDataSpec::Pattern { check_fn: stub_check, regex: "", max_length: None } }
    };
    let (ok, mask) = data.check_version_compatibility(&spec, target);
    if !enum_spec {
        assert!(ok && mask == u32::MAX, "a non-enum spec must be compatible with every version");
    } else if let CharacterData::Enum(e) = &data {
        match first_mask(items, *e) {
            Some(m) => { assert!(mask == m, "mask is not the mask of the item's entry"); assert!(ok == (m & (target as u32) != 0), "ok must hold exactly when the mask contains the target version"); }
            None => assert!(!ok && mask == 0, "an item that is not in the spec is compatible with no version"),
        }
        assert!(ok == (mask & (target as u32) != 0), "ok <=> target in mask");
        // consistency with the validator's rule (the same spec function as check_value)
        assert!(ok == CharacterData::check_value(&data, &spec, target), "compatibility check disagrees with check_value for the relabelled version");
        cover!(ok, "compatible enum value");
        cover!(!ok, "incompatible enum value");
    } else {
        assert!(!ok, "non-enum data against an enum spec must be reported incompatible");
    }
}

// ---------------------------------------------------------------------------------------------
// C14: `impl Ord for CharacterData` is a total preorder consistent with equality
// kinds: 0 = UnsignedInteger (all u64), 1 = Float (all bit patterns incl. NaN, +-0, inf), 2 = String (one fixed text; string
// contents are covered by cmp_laws_strings_*), Enum is handled by cmp_laws_with_enum (Enum x Enum compares to_str() texts
// through the 2810-entry table, which CBMC cannot carry: assumed to be str::cmp, injective by C18)
fn mk_E() -> CharacterData { CharacterData::Enum(EnumItem::default) }
fn mk_U() -> CharacterData { CharacterData::UnsignedInteger(any_u64()) }
fn mk_F() -> CharacterData { CharacterData::Float(any_f64()) }
fn mk_S() -> CharacterData { CharacterData::String(String::new()) }

fn check_cmp_laws(a: &CharacterData, b: &CharacterData, c: &CharacterData) {
    use core::cmp::Ordering::*;
    let (ab, ba, bc, ac) = (a.cmp(b), b.cmp(a), b.cmp(c), a.cmp(c));
    assert!(ab == ba.reverse(), "cmp(a,b) is not the reverse of cmp(b,a)");
    if ab != Greater && bc != Greater { assert!(ac != Greater, "cmp is not transitive (a<=b, b<=c, a>c)"); }
    if ab == Equal && bc == Equal { assert!(ac == Equal, "cmp-equality is not transitive"); }
    if a == b { assert!(ab == Equal, "a == b but cmp(a,b) != Equal"); }
}

// one harness per triple of kinds (the kinds are concrete so that CBMC does not have to carry the Enum x Enum arm,
// which compares to_str() texts through the 2810-entry table); values of U and F are fully symbolic
macro_rules! cmp3 {
    ($name:ident, $a:ident, $b:ident, $c:ident) => {
        #[cfg_attr(kani, kani::proof)]
        pub fn $name() { let (a, b, c) = ($a(), $b(), $c()); check_cmp_laws(&a, &b, &c); }
    };
}
cmp3!(cmp_laws_EEE, mk_E, mk_E, mk_E);
cmp3!(cmp_laws_EEU, mk_E, mk_E, mk_U);
cmp3!(cmp_laws_EEF, mk_E, mk_E, mk_F);
cmp3!(cmp_laws_EES, mk_E, mk_E, mk_S);
cmp3!(cmp_laws_EUE, mk_E, mk_U, mk_E);
cmp3!(cmp_laws_EUU, mk_E, mk_U, mk_U);
cmp3!(cmp_laws_EUF, mk_E, mk_U, mk_F);
cmp3!(cmp_laws_EUS, mk_E, mk_U, mk_S);
cmp3!(cmp_laws_EFE, mk_E, mk_F, mk_E);
cmp3!(cmp_laws_EFU, mk_E, mk_F, mk_U);
cmp3!(cmp_laws_EFF, mk_E, mk_F, mk_F);
cmp3!(cmp_laws_EFS, mk_E, mk_F, mk_S);
cmp3!(cmp_laws_ESE, mk_E, mk_S, mk_E);
cmp3!(cmp_laws_ESU, mk_E, mk_S, mk_U);
cmp3!(cmp_laws_ESF, mk_E, mk_S, mk_F);
cmp3!(cmp_laws_ESS, mk_E, mk_S, mk_S);
cmp3!(cmp_laws_UEE, mk_U, mk_E, mk_E);
cmp3!(cmp_laws_UEU, mk_U, mk_E, mk_U);
cmp3!(cmp_laws_UEF, mk_U, mk_E, mk_F);
cmp3!(cmp_laws_UES, mk_U, mk_E, mk_S);
cmp3!(cmp_laws_UUE, mk_U, mk_U, mk_E);
cmp3!(cmp_laws_UUU, mk_U, mk_U, mk_U);
cmp3!(cmp_laws_UUF, mk_U, mk_U, mk_F);
cmp3!(cmp_laws_UUS, mk_U, mk_U, mk_S);
cmp3!(cmp_laws_UFE, mk_U, mk_F, mk_E);
cmp3!(cmp_laws_UFU, mk_U, mk_F, mk_U);
cmp3!(cmp_laws_UFF, mk_U, mk_F, mk_F);
cmp3!(cmp_laws_UFS, mk_U, mk_F, mk_S);
cmp3!(cmp_laws_USE, mk_U, mk_S, mk_E);
cmp3!(cmp_laws_USU, mk_U, mk_S, mk_U);
cmp3!(cmp_laws_USF, mk_U, mk_S, mk_F);
cmp3!(cmp_laws_USS, mk_U, mk_S, mk_S);
cmp3!(cmp_laws_FEE, mk_F, mk_E, mk_E);
cmp3!(cmp_laws_FEU, mk_F, mk_E, mk_U);
cmp3!(cmp_laws_FEF, mk_F, mk_E, mk_F);
cmp3!(cmp_laws_FES, mk_F, mk_E, mk_S);
cmp3!(cmp_laws_FUE, mk_F, mk_U, mk_E);
cmp3!(cmp_laws_FUU, mk_F, mk_U, mk_U);
cmp3!(cmp_laws_FUF, mk_F, mk_U, mk_F);
cmp3!(cmp_laws_FUS, mk_F, mk_U, mk_S);
cmp3!(cmp_laws_FFE, mk_F, mk_F, mk_E);
cmp3!(cmp_laws_FFU, mk_F, mk_F, mk_U);
cmp3!(cmp_laws_FFF, mk_F, mk_F, mk_F);
cmp3!(cmp_laws_FFS, mk_F, mk_F, mk_S);
cmp3!(cmp_laws_FSE, mk_F, mk_S, mk_E);
cmp3!(cmp_laws_FSU, mk_F, mk_S, mk_U);
cmp3!(cmp_laws_FSF, mk_F, mk_S, mk_F);
cmp3!(cmp_laws_FSS, mk_F, mk_S, mk_S);
cmp3!(cmp_laws_SEE, mk_S, mk_E, mk_E);
cmp3!(cmp_laws_SEU, mk_S, mk_E, mk_U);
cmp3!(cmp_laws_SEF, mk_S, mk_E, mk_F);
cmp3!(cmp_laws_SES, mk_S, mk_E, mk_S);
cmp3!(cmp_laws_SUE, mk_S, mk_U, mk_E);
cmp3!(cmp_laws_SUU, mk_S, mk_U, mk_U);
cmp3!(cmp_laws_SUF, mk_S, mk_U, mk_F);
cmp3!(cmp_laws_SUS, mk_S, mk_U, mk_S);
cmp3!(cmp_laws_SFE, mk_S, mk_F, mk_E);
cmp3!(cmp_laws_SFU, mk_S, mk_F, mk_U);
cmp3!(cmp_laws_SFF, mk_S, mk_F, mk_F);
cmp3!(cmp_laws_SFS, mk_S, mk_F, mk_S);
cmp3!(cmp_laws_SSE, mk_S, mk_S, mk_E);
cmp3!(cmp_laws_SSU, mk_S, mk_S, mk_U);
cmp3!(cmp_laws_SSF, mk_S, mk_S, mk_F);
cmp3!(cmp_laws_SSS, mk_S, mk_S, mk_S);

pub fn check_cmp_strings(input: &[u8]) {
    // input = three texts of equal length concatenated
    if input.len() % 3 != 0 || !all_ascii(input) { return; }
    let n = input.len() / 3;
    let a = CharacterData::String(ascii_string(&input[..n]));
    let b = CharacterData::String(ascii_string(&input[n..2 * n]));
    let c = CharacterData::String(ascii_string(&input[2 * n..]));
    check_cmp_laws(&a, &b, &c);
}
/// mixed lengths: input = a ++ 0xff ++ b ++ 0xff ++ c (three String values)
pub fn check_cmp_strings_sep(input: &[u8]) {
    let mut parts: [&[u8]; 3] = [&[], &[], &[]];
    let mut k = 0; let mut start = 0; let mut i = 0;
    while i <= input.len() {
        if i == input.len() || input[i] == 0xff { if k < 3 { parts[k] = &input[start..i]; } k += 1; start = i + 1; }
        i += 1;
    }
    if k != 3 || !all_ascii(parts[0]) || !all_ascii(parts[1]) || !all_ascii(parts[2]) { return; }
    let a = CharacterData::String(ascii_string(parts[0]));
    let b = CharacterData::String(ascii_string(parts[1]));
    let c = CharacterData::String(ascii_string(parts[2]));
    check_cmp_laws(&a, &b, &c);
}
macro_rules! cmps_len {
    ($name:ident, $n:literal) => {
        #[cfg_attr(kani, kani::proof)]
        #[cfg_attr(kani, kani::unwind(8))]
        pub fn $name() { let a: [u8; $n] = any_bytes::<$n>(); assume(all_ascii(&a)); check_cmp_strings(&a); }
    };
}
cmps_len!(cmp_laws_strings_len1, 3); cmps_len!(cmp_laws_strings_len2, 6);

vk_dispatch! {
    harnesses: [int_u8_len1, int_u8_len2, int_u8_len3, int_u8_len4, int_u8_len5, int_i8_len1, int_i8_len2, int_i8_len3, int_i8_len4, int_i8_len5,
                int_u16_len1, int_u16_len2, int_u16_len3, int_u16_len4, int_i16_len1, int_i16_len2, int_i16_len3, int_i16_len4,
                int_u32_len1, int_u32_len2, int_u32_len3, int_u32_len4, int_i32_len1, int_i32_len2, int_i32_len3, int_i32_len4,
                int_u64_len1, int_u64_len2, int_u64_len3, int_u64_len4, int_i64_len1, int_i64_len2, int_i64_len3, int_i64_len4,
                uint_as_u8, uint_as_i8, uint_as_u16, uint_as_i16, uint_as_u32, uint_as_i32, uint_as_u64, uint_as_i64,
                nonstring_interpretations, bool_len0, bool_len1, bool_len2, bool_len3, bool_len4, bool_len5, bool_len6,
                float_pref_len1, float_pref_len2, float_pref_len3, float_pref_len4, check_value_all, version_compat_all,
                cmp_laws_EEE, cmp_laws_EEU, cmp_laws_EEF, cmp_laws_EES, cmp_laws_EUE, cmp_laws_EUU, cmp_laws_EUF, cmp_laws_EUS, cmp_laws_EFE, cmp_laws_EFU, cmp_laws_EFF, cmp_laws_EFS, cmp_laws_ESE, cmp_laws_ESU, cmp_laws_ESF, cmp_laws_ESS, cmp_laws_UEE, cmp_laws_UEU, cmp_laws_UEF, cmp_laws_UES, cmp_laws_UUE, cmp_laws_UUU, cmp_laws_UUF, cmp_laws_UUS, cmp_laws_UFE, cmp_laws_UFU, cmp_laws_UFF, cmp_laws_UFS, cmp_laws_USE, cmp_laws_USU, cmp_laws_USF, cmp_laws_USS, cmp_laws_FEE, cmp_laws_FEU, cmp_laws_FEF, cmp_laws_FES, cmp_laws_FUE, cmp_laws_FUU, cmp_laws_FUF, cmp_laws_FUS, cmp_laws_FFE, cmp_laws_FFU, cmp_laws_FFF, cmp_laws_FFS, cmp_laws_FSE, cmp_laws_FSU, cmp_laws_FSF, cmp_laws_FSS, cmp_laws_SEE, cmp_laws_SEU, cmp_laws_SEF, cmp_laws_SES, cmp_laws_SUE, cmp_laws_SUU, cmp_laws_SUF, cmp_laws_SUS, cmp_laws_SFE, cmp_laws_SFU, cmp_laws_SFF, cmp_laws_SFS, cmp_laws_SSE, cmp_laws_SSU, cmp_laws_SSF, cmp_laws_SSS, cmp_laws_strings_len1, cmp_laws_strings_len2];
    checks: [int_u8 => check_int_u8, int_i8 => check_int_i8, int_u16 => check_int_u16, int_i16 => check_int_i16, int_u32 => check_int_u32, int_i32 => check_int_i32,
             int_u64 => check_int_u64, int_i64 => check_int_i64, bool => check_bool, float_prefixed => check_float_prefixed, cmp_strings => check_cmp_strings, cmp_strings_sep => check_cmp_strings_sep, float_decimal => check_float_decimal, fmt_float => check_fmt_float, fmt_uint => check_fmt_uint];
}

