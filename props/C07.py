"""C07 -- what the editing API builds conforms to the specification the loader enforces.

Scope of the claim (level `other`: a deductive core + bounded API-level stand-ins):
  * Verus, real text: calc_element_insert_range (strongest postcondition), create_sub_element / _at / _inner, the property sentence
    "the range is exactly the set of positions that keep the specification order" as lemma_range_is_exact (unit insertrange);
    set_attribute_internal / set_attribute_string (unit attrset).
  * native, bounded: editing scripts through the public API on every element type of the specification in up to 21 versions, compared
    with an oracle computed from the specification lookups, followed by serialize -> lenient load -> serialize (api editconform).
Histories over the element graph (copy, move, remove, several files) are not under contract: the graph is out of the verifier's reach.
"""
from vxlib.common import result_line
import re

from vxlib.common import Obligation, run
from vxlib.rustsrc import Lost

PROBES = [('lenient-foreign-child', 'after lenient loading of a file that contains a sub-element of another version, calc_element_insert_range / list_valid_sub_elements / create_sub_element panic'),
          ('root-header-attributes', 'a successful set_attribute on a header attribute of the root element (xmlns) leaves a file that can no longer be loaded'),
          ('mixed-set-character-data', 'set_character_data on an identifiable element with Mixed content (ECUC-QUERY-EXPRESSION in AUTOSAR_4-0-1) drops its SHORT-NAME'),
          ('foreign-type-move', 'move_element_here accepts an element whose name the destination lists with another element type (ALGORITHM-FAMILY: free text in CRYPTO-SERVICE-KEY, enumeration in CRYPTO-SERVICE-CERTIFICATE)'),
          ('foreign-type-copy', 'create_copied_sub_element accepts an element whose name the destination lists with another element type (same scenario)')]


def _editconform(ctx, res, budget, seed, name):
    rc, out, err, secs = res
    ctx.t('native-enum', secs)
    lines = out.strip().splitlines()
    last = lines[-1] if lines else ''
    bound = ('pseudo-random editing scripts (4-13 insertions at range ends / inside / one outside, wrong-kind calls, values and attributes from inside and outside the value space, a copy of a child at a position around its range, every third script a copy of the whole element into a file of another version followed by creations in the copy) on a fresh element of '
             'every element type reached breadth-first from ElementType::ROOT, in up to 21 versions per type (budget %s scripts, seed %s)' % (budget, seed))
    fails = [l for l in lines if l.startswith('FAIL')]
    if not (last.startswith('OK') or last.startswith('SURVEY')):
        ctx.undecided.append('%s: no result (rc=%s) %s' % (name, rc, (out + err)[-300:]))
        return None
    for k, l in enumerate(fails[:20]):
        msg = l[5:]
        m = re.search(r'replay: api editconform1 (\d+) (\S+) (\d+)\]', msg)
        ob = ctx.add(Obligation(ctx.prop, '%s#%d' % (name, k), 'native-eval', 'bounded', 'failed', seconds=secs, bound=bound, detail=msg[:1500]))
        ob.witness = dict(history=msg[:1500], observed=msg.split(' [')[0][:600], via='public API: Element::{calc_element_insert_range, list_valid_sub_elements, create_*_sub_element_at, set_character_data, set_attribute}, ArxmlFile::serialize, AutosarModel::load_buffer(lenient); oracle: pairwise conformance from the specification lookups',
                          replay=['api', 'editconform1', m.group(1), m.group(2), m.group(3)] if m else None)
        ctx._record_violation(ob)
    if not fails or all(o.detail.startswith('KNOWN FINDING') for o in ctx.obligations if o.name.startswith(name + '#')):
        ctx.add(Obligation(ctx.prop, name, 'native-eval', 'bounded', 'discharged', seconds=secs, bound=bound,
                           detail=('' if not fails else '(except the histories attributed to recorded findings) ') + 'reported insertion range == positions that keep the pairwise specification order; list_valid_sub_elements agrees; creation succeeds exactly inside the range and inserts exactly there; refused calls change nothing; values/attributes outside the tables are refused; the serialized file loads leniently with no complaint other than a missing required attribute and serializes to the same text [%s]' % last))
    return last


def find_witness(ctx):
    def finder(ob):
        return None
    return finder


def check(ctx):
    thorough = ctx.tier == 'thorough'
    from contracts import insertrange, attrset, movewrap
    for mod in (insertrange, attrset, movewrap):
        try:
            ctx.verus_unit(mod.make_unit(ctx.scratch.dir), finder=None)
        except Lost as e:
            ctx.undecided.append('%s reason=lost anchor: %s' % (mod.__name__.split('.')[-1], e))
    ctx.native_ground('lib', 'tables_wf', 'complete', 'wf_tables() assumed by the lookup contracts the units insertrange / attrset call, evaluated on the real statics')
    ctx.native_ground('lib', 'tables_modes', 'complete',
                      'wf_modes() of unit insertrange evaluated on the real statics: a character-only type lists no sub-elements and no group has content mode Characters (makes the unreachable!() in calc_element_insert_range unreachable)')
    b = ctx.native()
    seeds = (1, 2, 3, 4, 5, 6, 7, 8) if thorough else (1,)
    from concurrent.futures import ThreadPoolExecutor
    with ThreadPoolExecutor(max_workers=8) as ex:
        outs = list(ex.map(lambda s: run([b, 'api', 'editconform', '200000', str(s + 1000 * ctx.seed), 'survey'], timeout=3000), seeds))
    for s, res in zip(seeds, outs):
        _editconform(ctx, res, 200000, s + 1000 * ctx.seed, 'native/api-edit-conformance/seed%d' % s)
    # one fixed history per recorded finding: reported as KNOWN-FINDING while it is listed, as a violation otherwise
    for which, what in PROBES:
        rc, out, err, secs = run([b, 'api', 'editprobe', which], timeout=300)
        ctx.t('native-enum', secs)
        line = result_line(out)
        name = 'native/api-edit-probe/%s' % which
        if line.startswith('OK'):
            ctx.add(Obligation(ctx.prop, name, 'native-eval', 'bounded', 'discharged', seconds=secs, bound='one fixed editing history', detail='the recorded history no longer fails: %s' % what))
        elif line.startswith('FAIL'):
            ob = ctx.add(Obligation(ctx.prop, name, 'native-eval', 'bounded', 'failed', seconds=secs, bound='one fixed editing history', detail=line[5:]))
            ob.witness = dict(history=what, observed=line[5:], via='public API', replay=['api', 'editprobe', which])
            ctx._record_violation(ob)
        else:
            ctx.undecided.append('%s: no result (rc=%s) %s' % (name, rc, (out + err)[-300:]))
    return ctx.finish(
        explanation='Verus proves on the real text of ElementRaw::calc_element_insert_range, for every element type, sub-element name, version, child list and any table contents satisfying wf_tables()/wf_modes(), its strongest postcondition (which children are compared, where the scan ends, when it fails) and from it lemma_range_is_exact: for children in specification order inside a sequence, inserting at p keeps the order <==> p lies in the reported range; create_sub_element_at succeeds only inside the range, inserts exactly at the position and changes nothing else, and a refused call leaves the content unchanged; set_attribute_internal / set_attribute_string succeed only for an attribute listed for the type whose version mask contains the file version and a value acceptable for its spec, and replace-or-append exactly that attribute. The specification lookups these functions call are checked against the contracts that unit lookups proves on their real text. The element graph itself (locks, parent links, path index, copy / move / remove, several files) is out of reach: the node is modelled by the fields these functions read, a child element is an opaque handle. As a bounded stand-in for the statement over histories, editing scripts run through the public API on every element type of the specification in up to 21 versions, against an oracle computed from the specification lookups, followed by serialize -> lenient load -> serialize.',
        checker_cmd='verus generated/{insertrange,attrset}.rs; vxnative ground lib {tables_wf,tables_modes}; vxnative api editconform 200000 <seed> survey; vxnative api editprobe <name>',
        trusted_base=['Verus 0.2026.09.13 + Z3', 'the reading of the node: ElementRaw as {elemname, elemtype, content: Vec, attributes: Vec}, child handles with uninterpreted name/type (the real accessors take the child lock)',
                      'Vec<usize>::cmp is the lexicographic order (vx_lex_cmp is verified against lex_cmp)',
                      'the oracle of api editconform is pairwise: it does not look at required-but-absent sub-elements (neither does the loader)'])
