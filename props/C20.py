"""C20 -- typed values format and parse consistently; numeric interpretation is exact."""

TYPES = ['u8', 'i8', 'u16', 'i16', 'u32', 'i32', 'u64', 'i64']


def check(ctx):
    thorough = ctx.tier == 'thorough'
    # Verus: check_value / parse / value-level compatibility for every value, spec and version (unbounded enumerations)
    from contracts import chardata
    from vxlib.rustsrc import Lost
    try:
        ctx.verus_unit(chardata.make_unit(ctx.scratch.dir), finder=None)
    except Lost as e:
        ctx.undecided.append('chardata reason=lost anchor: %s' % e)
    # Verus: radix / literal dispatch of parse_integer::<T>, parse_float, parse_bool for texts of every length (conversions are leaves)
    from contracts import numtext
    try:
        ctx.verus_unit(numtext.make_unit(ctx.scratch.dir), finder=None)
    except Lost as e:
        ctx.undecided.append('numtext reason=lost anchor: %s' % e)
    specs = []
    for t in TYPES:
        lens = [1, 2, 3] + ([4] if thorough else []) + ([5] if thorough and t in ('u8', 'i8') else [])
        for n in lens:
            specs.append(dict(name='int_%s_len%d' % (t, n), module='chardata', kind='bounded', bound='ASCII text of length %d in the INTEGER lexical form (regex 13), all such texts' % n, timeout=900, family='int_%s_len' % t,
                              desc='parse_integer::<%s>: Some(exact value) iff the mathematical value fits, else None (decimal with sign, 0x, 0b, leading-0 octal)' % t))
        specs.append(dict(name='uint_as_%s' % t, module='chardata', kind='complete', timeout=300, desc='UnsignedInteger(v).parse_integer::<%s>() == Some(v) iff v fits, for all u64 v' % t))
    specs.append(dict(name='nonstring_interpretations', module='chardata', kind='complete', timeout=600, covers_optional=True,
                      desc='Float/Enum data is never an integer or boolean; Float(v).parse_float() is v bit-for-bit; UnsignedInteger(v).parse_float() == v as f64 (all u64, all f64 bit patterns)'))
    for n in range(0, 7):
        specs.append(dict(name='bool_len%d' % n, module='chardata', kind='bounded', bound='ASCII text of length %d' % n, timeout=300, family='bool_len',
                          desc='parse_bool: Some(true) <=> "true"|"1", Some(false) <=> "false"|"0", and this is the published boolean pattern'))
    for n in ((1, 2, 3, 4) if thorough else (1, 2, 3)):
        specs.append(dict(name='float_pref_len%d' % n, module='chardata', kind='bounded', bound='ASCII text of length %d starting with 0 in the NUMERICAL lexical form' % n, timeout=900, family='float_pref_len', covers_optional=True,
                          desc='parse_float on 0x/0X/0b/0B/octal/"0" texts == value as f64; std decimal parser stubbed by an arbitrary result, so a prefixed text that falls through to it fails'))
    specs.append(dict(name='check_value_all', module='chardata', kind='complete', timeout=1200,
                      desc='check_value over all value kinds x all spec variants x all versions (symbolic items/masks/max_length/pattern verdict): true exactly when kind matches, within max_length, accepted by check_fn, enum item listed with a mask containing the version'))
    ctx.kani('autosar-data', specs)
    # native bounded sweeps of the same executable contracts over longer texts (reach the 8/16-bit overflow boundaries in every radix)
    for t in TYPES:
        for tag, alpha, ml in (('dec', b'+-0123456789', 4 if not thorough else 5), ('bin', b'01bB', 11 if not thorough else 12), ('hexoct', b'0137fFxX', 6 if not thorough else 7)):
            ctx.native_enum('parse-integer-%s-%s' % (t, tag), dict(module='chardata', check='int_%s' % t, alphabet=alpha, maxlen=ml),
                            'parse_integer::<%s> on every text over the alphabet that is in the INTEGER lexical form' % t)
    # boundary texts: 2^k-1, 2^k, 2^k+1 (k = 0..66) and powers of ten in every radix / prefix / sign spelling
    texts = set()
    vals = set()
    for k in range(0, 67):
        vals.update((2 ** k - 1, 2 ** k, 2 ** k + 1, 2 ** k + 2 ** (k // 2)))
    for k in range(0, 21):
        vals.update((10 ** k, 10 ** k - 1))
    for v in sorted(vals):
        if v < 0:
            continue
        texts.update(('%d' % v, '+%d' % v, '-%d' % v, '0x%x' % v, '0X%X' % v, '0x%X' % v, '0b' + bin(v)[2:], '0B' + bin(v)[2:], '0%o' % v, '00%o' % v))
    import os
    p = ctx.scratch.path('c20_boundaries.txt')
    with open(p, 'w') as f:
        f.write('\n'.join(x.encode().hex() for x in sorted(texts)) + '\n')
    import json as _json
    from vxlib.common import run as _run, Obligation as _Ob
    b = ctx.native()
    for chk in ['int_%s' % t for t in TYPES] + ['float_prefixed']:
        rc, out, err, secs = _run([b, 'batch', 'chardata', chk, p], timeout=600)
        lines = [_json.loads(x) for x in out.strip().splitlines() if x.startswith('{')]
        name = 'native/boundaries-%s' % chk
        bound = '%d boundary texts (2^k-1, 2^k, 2^k+1 for k <= 66, powers of ten; decimal with signs, 0x/0X, 0b/0B, leading-0 octal)' % len(texts)
        if not lines or 'tried' not in lines[-1]:
            ctx.undecided.append('%s: no result' % name)
        elif lines[-1]['failed']:
            s = bytes.fromhex(lines[0]['input'])
            ob = ctx.add(_Ob(ctx.prop, name, 'native-eval', 'bounded', 'failed', seconds=secs, bound=bound, detail='%s on %r: %s' % (chk, s, lines[0]['message'])))
            ob.witness = dict(input_hex=lines[0]['input'], input_text=s.decode(), observed=lines[0]['message'], via='boundary-value batch on the real function', replay=['one', 'chardata', chk, lines[0]['input']])
            ctx._record_violation(ob)
        else:
            ctx.add(_Ob(ctx.prop, name, 'native-eval', 'bounded', 'discharged', seconds=secs, bound=bound, detail='%s: exact value iff it fits, for every boundary text in the lexical form' % chk))
    # formatting <-> parsing of numbers (std formatting is out of the verifiers' reach): boundary values + pseudo-random bit patterns
    import struct
    fvals = [0.0, -0.0, float('inf'), float('-inf'), float('nan'), 5e-324, 2.2250738585072014e-308, 1.7976931348623157e308, 1.0 / 3.0, 0.1, 1e21, 1e-7, 1e16, 123456789012345680.0,
             9007199254740992.0, 9007199254740993.0, 18446744073709551615.0, -1.5, 1e300 * 10, 4.9406564584124654e-324]
    fbits = [struct.unpack('<Q', struct.pack('<d', v))[0] for v in fvals] + [0x7ff0000000000001, 0xfff8000000000000, 0x8000000000000001, 0x000fffffffffffff, 0x7fefffffffffffff]
    x = 0x9e3779b97f4a7c15
    for _ in range(100000 if thorough else 20000):
        x = (x * 6364136223846793005 + 1442695040888963407) & 0xffffffffffffffff
        fbits.append(x)
    ubits = sorted({0, 1, 9, 10, 99, 100, 255, 256, 65535, 65536, 2 ** 32 - 1, 2 ** 32, 2 ** 53, 2 ** 63 - 1, 2 ** 63, 2 ** 64 - 1} | {10 ** k for k in range(20)} | {10 ** k - 1 for k in range(1, 20)}) + fbits[-2000:]
    for chk, vals, what in (('fmt_float', fbits, 'Float'), ('fmt_uint', ubits, 'UnsignedInteger')):
        fp = ctx.scratch.path('c20_%s.txt' % chk)
        with open(fp, 'w') as f:
            f.write('\n'.join(struct.pack('<Q', v).hex() for v in vals) + '\n')
        rc, out, err, secs = _run([b, 'batch', 'chardata', chk, fp], timeout=900)
        lines = [_json.loads(z) for z in out.strip().splitlines() if z.startswith('{')]
        name = 'native/format-parse-%s' % chk
        bound = '%d %s values (boundaries, specials, pseudo-random bit patterns)' % (len(vals), what)
        if not lines or 'tried' not in lines[-1]:
            ctx.undecided.append('%s: no result' % name)
        elif lines[-1]['failed']:
            ob = ctx.add(_Ob(ctx.prop, name, 'native-eval', 'bounded', 'failed', seconds=secs, bound=bound, detail='%s on bits %s: %s' % (chk, lines[0]['input'], lines[0]['message'])))
            ob.witness = dict(input_hex=lines[0]['input'], input_text='%s value with little-endian bytes %s' % (what, lines[0]['input']), observed=lines[0]['message'], via='format/parse batch on the real functions', replay=['one', 'chardata', chk, lines[0]['input']])
            ctx._record_violation(ob)
        else:
            ctx.add(_Ob(ctx.prop, name, 'native-eval', 'bounded', 'discharged', seconds=secs, bound=bound, detail='Display / serialize_internal followed by parse with the same value type (and by parse_float / parse_integer) returns the value'))
    ctx.native_enum('parse-float-decimal', dict(module='chardata', check='float_decimal', alphabet=b'0159.eE+-', maxlen=7 if thorough else 6),
                    'parse_float on decimal / fraction / exponent texts of the numerical lexical form == std conversion of the same text')
    ctx.native_enum('parse-float-special', dict(module='chardata', check='float_decimal', alphabet=b'INFNa-', maxlen=4), 'parse_float on INF / -INF / NaN')
    ctx.native_enum('parse-float-prefixed', dict(module='chardata', check='float_prefixed', alphabet=b'0127fxXbB.', maxlen=6), 'parse_float on prefixed forms')
    ctx.native_enum('parse-bool', dict(module='chardata', check='bool', alphabet=b'truefals01TF ', maxlen=5), 'parse_bool against the boolean lexical form')
    return ctx.finish(
        explanation='Verus (real text): parse_integer::<T> / parse_float / parse_bool hand exactly the digits after the prefix to the conversion of the radix the prefix announces (0x/0X 16, 0b/0B 2, leading 0 octal, else decimal; "0" is zero; true/1, false/0), for texts of every length and every integer type -- the conversions themselves (std from_str_radix, str::parse, as f64) are leaves. Verus (all values/specs/versions): check_value == valid(value, spec, version); parse(text) == Some(d) ==> valid(d), accepted String/Pattern text is kept verbatim, and parse succeeds whenever the spec admits the text (String/Pattern/Enum). Complete (loop-free, full-domain) Kani obligations: numeric interpretation of UnsignedInteger/Float/Enum data for all u64 / all f64 bit patterns and all 8 integer widths; check_value over kind x spec. Bounded: parse_integer/parse_float/parse_bool on texts, one Kani harness per concrete length against a digit-accumulation spec guarded by the reference DFA of the published lexical form, plus native sweeps of the same executable contracts over longer texts. Not covered: decimal/exponent/INF/NaN float text (std dec2flt, assumed), Display/serialize of numbers (std to_string), string escaping (escape_text), the Enum branch of parse (C18), overflow boundaries of 64-bit types in text form (std from_str_radix, assumed).',
        checker_cmd='verus generated/chardata.rs; cargo kani --harness int_*_len* --harness uint_as_* --harness nonstring_interpretations --harness bool_len* --harness float_pref_len* --harness check_value_all; vxnative find chardata <check> ...',
        trusted_base=['Verus 0.2026.09.13 + Z3', 'Kani 0.68 + CBMC 6.11', 'leaves of the chardata unit (uninterpreted): pattern validator call, EnumItem::from_str, str::parse::<u64/f64>, string bytes', 'std: from_str_radix, str::parse::<u64/f64>, to_string, u64 as f64 (IEEE round-to-nearest)', 'regexspec DFA of the INTEGER/NUMERICAL/BOOLEAN patterns as the precondition of the text harnesses',
                      'harness strings are built with from_utf8_unchecked from bytes assumed ASCII'])
