"""C17 -- the version-compatibility check is exact (scope: the value-level mechanism)."""


def check(ctx):
    # Verus: the value-level functions for every spec (enumerations of any length) and every value
    from contracts import chardata
    from vxlib.rustsrc import Lost
    try:
        ctx.verus_unit(chardata.make_unit(ctx.scratch.dir), finder=None)
    except Lost as e:
        ctx.undecided.append('chardata reason=lost anchor: %s' % e)
    specs = [dict(name='version_compat_all', module='chardata', kind='complete', timeout=1500,
                  desc='CharacterData::check_version_compatibility over all value kinds, all 21 target versions, enum specs with up to 3 symbolic (item, mask) entries: (ok, mask) with ok <=> target in mask for enum data against an enum spec; mask is the mask of the first entry for the item, 0 if the item is not in the spec; non-enum spec => (true, u32::MAX); non-enum data against an enum spec => not ok; and ok == check_value(relabelled version)')]
    ctx.kani('autosar-data', specs)
    ctx.kani('autosar-data-specification', [dict(name='version_roundtrip_each', module='autosarversion', kind='complete', timeout=300, covers_optional=True,
                                                 desc='AutosarVersion::compatible(mask) <=> mask contains the version bit, for every declared version')])
    return ctx.finish(
        explanation='Verus proves on the real text of CharacterData::check_version_compatibility, check_value, parse and AutosarVersion::compatible, for every value, every spec (enumerations of any length) and every declared version: the check reports no incompatibility exactly when the value is valid for the spec relabelled with the target version, and for enum values the returned mask is the spec mask of the value (0 if unlisted) and contains the target exactly in that case. One of the three mechanisms of the property is pure and under contract: the value-level compatibility function. A loop-free Kani harness over all kinds, all declared versions and symbolic enum specs discharges: ok <=> target version in the returned mask (enum data, enum spec), the mask is the spec mask of the value, unknown value => (false, 0), non-enum spec => compatible with everything, and agreement with the validator rule (check_value for the relabelled version). The recursive walk over the element tree (Element::check_version_compatibility, recalc_element_type) and the gate ArxmlFile::set_version take element locks and are not reachable by either verifier (DESIGN F3); they are not covered.',
        checker_cmd='verus generated/chardata.rs; cargo kani --harness version_compat_all; cargo kani --harness version_roundtrip_each',
        trusted_base=['Verus 0.2026.09.13 + Z3', 'Kani 0.68 + CBMC 6.11', 'leaves of the chardata unit: pattern validator call (C19), EnumItem::from_str (C18), str::parse, string bytes -- uninterpreted'])
