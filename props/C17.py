"""C17 -- the version-compatibility check is exact (scope: the value-level mechanism)."""


def check(ctx):
    # Verus: the value-level functions for every spec (enumerations of any length) and every value
    from contracts import chardata
    from vxlib.rustsrc import Lost
    try:
        ctx.verus_unit(chardata.make_unit(ctx.scratch.dir), finder=None)
    except Lost as e:
        ctx.undecided.append('chardata reason=lost anchor: %s' % e)
    # the tree walk: the list of incompatibilities is empty <==> everything below the element that belongs to the file is permitted
    from contracts import compatwalk
    try:
        ctx.verus_unit(compatwalk.make_unit(ctx.scratch.dir), finder=None)
        ctx.native_ground('lib', 'tables_crosstype', 'complete',
                          'table fact assumed by unit compatwalk (axiom_crosstype) evaluated on the real statics: an index list found in one listing of a sub-element name resolves to an element entry in every other listing of that name under the same parent type (makes the unwrap in Element::check_version_compatibility safe)')
        ctx.native_ground('lib', 'tables_wf', 'complete', 'wf_tables() assumed by the lookup contracts unit compatwalk calls, evaluated on the real statics')
    except Lost as e:
        ctx.undecided.append('compatwalk reason=lost anchor: %s' % e)
    specs = [dict(name='version_compat_all', module='chardata', kind='complete', timeout=1500,
                  desc='CharacterData::check_version_compatibility over all value kinds, all 21 target versions, enum specs with up to 3 symbolic (item, mask) entries: (ok, mask) with ok <=> target in mask for enum data against an enum spec; mask is the mask of the first entry for the item, 0 if the item is not in the spec; non-enum spec => (true, u32::MAX); non-enum data against an enum spec => not ok; and ok == check_value(relabelled version)')]
    ctx.kani('autosar-data', specs)
    ctx.kani('autosar-data-specification', [dict(name='version_roundtrip_each', module='autosarversion', kind='complete', timeout=300, covers_optional=True,
                                                 desc='AutosarVersion::compatible(mask) <=> mask contains the version bit, for every declared version')])
    # API-level bounded check of the statement itself on documents generated from the specification (native)
    import re
    from vxlib.common import Obligation, run
    b = ctx.native()
    ndocs = '1000000' if ctx.tier == 'thorough' else '30000'
    rc, out, err, secs = run([b, 'api', 'compat', ndocs, 'survey'], timeout=3000)
    ctx.t('native-enum', secs)
    lines = out.strip().splitlines()
    last = lines[-1] if lines else ''
    name = 'native/api-version-compat'
    bound = 'documents generated from the specification: one minimal document per version-dependent sub-element / attribute / attribute value / character-data value found by a breadth-first walk from ElementType::ROOT (budget %s candidates), each checked against all declared target versions' % ndocs
    fails = [l for l in lines if l.startswith('FAIL')]
    if not (last.startswith('OK') or last.startswith('SURVEY')):
        ctx.undecided.append('%s: no result (rc=%s) %s' % (name, rc, (out + err)[-300:]))
    else:
        for k, l in enumerate(fails[:25]):
            msg, _, dochex = l[5:].partition(' :: document ')
            mt = re.search(r'target (AUTOSAR_[0-9-]+\.xsd)', msg)
            ob = ctx.add(Obligation(ctx.prop, '%s#%d' % (name, k), 'native-eval', 'bounded', 'failed', seconds=secs, bound=bound, detail=msg))
            ob.witness = dict(input_hex=dochex.strip(), input_text=bytes.fromhex(dochex.strip()).decode('utf-8', 'replace'), observed=msg,
                              via='public API: ArxmlFile::check_version_compatibility / set_version vs strict load_buffer of the relabelled text',
                              replay=['api', 'compat1', dochex.strip(), mt.group(1) if mt else 'AUTOSAR_00053.xsd'])
            ctx._record_violation(ob)
        if not fails or all(o.detail.startswith('KNOWN FINDING') for o in ctx.obligations if o.name.startswith(name + '#')):
            ctx.add(Obligation(ctx.prop, name, 'native-eval', 'bounded', 'discharged', seconds=secs, bound=bound,
                               detail='check_version_compatibility lists nothing <=> relabelled text loads strictly <=> mask contains the target <=> set_version succeeds (and then alters nothing) [%s]%s' % (last, ' -- except the recorded known finding(s)' if fails else '')))
    return ctx.finish(
        explanation='Unit compatwalk: Verus proves on the real text of Element::check_version_compatibility (the recursive tree walk) and recalc_element_type, over an abstract reading of the element graph (opaque handles with uninterpreted name / type / parent / attributes / content / sub-elements, tree well-founded, types consistent with the parents\' listings) and any table contents, that the returned list of incompatibilities is empty exactly when tree_compat holds: the element has a SHORT-NAME if the type used in the target version is identifiable there, every attribute is listed for that type, available in the target version and has a value valid there, all character data is valid for that type\'s spec, and every sub-element belonging to the file is permitted in the target version and compatible below; the unwrap of the cross-type mask lookup is safe by a closed table fact (ground check). Unit chardata: Verus proves on the real text of CharacterData::check_version_compatibility, check_value, parse and AutosarVersion::compatible, for every value, every spec (enumerations of any length) and every declared version: the check reports no incompatibility exactly when the value is valid for the spec relabelled with the target version, and for enum values the returned mask is the spec mask of the value (0 if unlisted) and contains the target exactly in that case. One of the three mechanisms of the property is pure and under contract: the value-level compatibility function. A loop-free Kani harness over all kinds, all declared versions and symbolic enum specs discharges: ok <=> target version in the returned mask (enum data, enum spec), the mask is the spec mask of the value, unknown value => (false, 0), non-enum spec => compatible with everything, and agreement with the validator rule (check_value for the relabelled version). The recursive walk over the element tree (Element::check_version_compatibility, recalc_element_type) and the gate ArxmlFile::set_version take element locks and are not reachable by either verifier (DESIGN F3); they are not covered.',
        checker_cmd='verus generated/chardata.rs; cargo kani --harness version_compat_all; cargo kani --harness version_roundtrip_each',
        trusted_base=['unit compatwalk: the reading of the element graph (handles, single-threaded lock success, well-founded tree = C03, type consistency of the model as a precondition); the returned version mask is not part of the tree-walk contract', 'Verus 0.2026.09.13 + Z3', 'Kani 0.68 + CBMC 6.11', 'leaves of the chardata unit: pattern validator call (C19), EnumItem::from_str (C18), str::parse, string bytes -- uninterpreted'])
