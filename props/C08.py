"""C08 -- strict and lenient validation agree; strict has no holes (scope: the funnel + call-site frame scan + API differential)."""
from vxlib.common import result_line
import os
import re

from vxlib.common import Obligation, run
from vxlib.rustsrc import Source, Lost

PARSER = 'autosar-data/src/parser.rs'

from vxlib.corpus import OWN_VALID, OWN_DEFECT, fixtures  # noqa


def frame_scan(ctx, repo_dir):
    """Frame conditions of the funnel, checked on the code text of parser.rs (comments and literals masked)."""
    src = Source(os.path.join(repo_dir, PARSER))
    i = src.text.find('#[cfg(test)]')
    end = i if i >= 0 else len(src.text)
    code = ''.join(c if src.mask[k] else ' ' for k, c in enumerate(src.text[:end]))
    s, o, c = src.impl_block(r"impl<'a>\s+ArxmlParser<'a>")
    fn_oe = src.find_fn('optional_error', within=(o, c))
    fn_cv = src.find_fn('check_version', within=(o, c))
    fn_new = src.find_fn('new', within=(o, c))

    def inside(pos, f):
        return f['start'] <= pos <= f['end']

    def line(pos):
        return '%s:%d: %s' % (PARSER, src.line_of(pos), src.text.split('\n')[src.line_of(pos) - 1].strip())

    results = []
    # F1: `strict` is read only inside optional_error and assigned only in new
    bad = [m.start() for m in re.finditer(r'\bstrict\b', code) if not inside(m.start(), fn_oe) and not inside(m.start(), fn_new)
           and not re.match(r'\s*strict\s*:\s*bool', code[code.rfind('\n', 0, m.start()) + 1:])]
    results.append(('frame/strict-read-only-in-optional_error', bad, 'undecided',
                    'the `strict` flag is mentioned outside optional_error/new: the non-interference argument no longer applies', '`strict` is read only inside optional_error and set only in new'))
    # F2: every call of optional_error / check_version propagates its result with `?` (or is the tail value of check_version)
    bad = []
    ncalls = 0
    for m in re.finditer(r'\bself\s*\.\s*(optional_error|check_version)\s*\(', code):
        ncalls += 1
        op = m.end() - 1
        depth = 0
        k = op
        while k < len(code):
            if code[k] == '(':
                depth += 1
            elif code[k] == ')':
                depth -= 1
                if depth == 0:
                    break
            k += 1
        rest = code[k + 1:k + 40].lstrip()
        if rest.startswith('?'):
            continue
        if inside(m.start(), fn_cv) and m.group(1) == 'optional_error' and re.match(r'\}\s*else', rest):
            continue   # `if .. { self.optional_error(error) } else { Ok(()) }` is the value of check_version
        bad.append(m.start())
    results.append(('frame/funnel-results-propagated', bad, 'violation',
                    'the Result of a funnel call is not propagated with `?`: in strict mode the finding is swallowed', 'every call of optional_error/check_version propagates its Result with `?`'))
    # F3: warnings is mutated only inside optional_error
    bad = [m.start() for m in re.finditer(r'\bwarnings\s*(\.\s*(push|extend|insert|clear|pop|truncate|append|drain|retain|remove)\b|=[^=])', code)
           if not inside(m.start(), fn_oe)]
    bad += [m.start() for m in re.finditer(r'&mut\s+(self\s*\.\s*)?warnings\b', code) if not inside(m.start(), fn_oe)]
    results.append(('frame/warnings-mutated-only-in-optional_error', bad, 'undecided', 'the warning list is modified outside optional_error', '`warnings` is mutated only inside optional_error'))
    # F4: `fileversion` (and `strict`) are assigned only in new / parse_file_header  [assumed frame of parse_attribute_text and
    # parse_character_data in unit parseelem]
    fn_pfh = src.find_fn('parse_file_header', within=(o, c))
    bad = [m.start() for m in re.finditer(r'\bfileversion\s*=[^=]', code) if not inside(m.start(), fn_pfh)]
    bad += [m.start() for m in re.finditer(r'\bstrict\s*=[^=]', code)]
    bad += [m.start() for m in re.finditer(r'&mut\s+(self\s*\.\s*)?(fileversion|strict)\b', code)]
    results.append(('frame/fileversion-and-strict-assigned-only-at-start', bad, 'undecided', '`fileversion` or `strict` is assigned outside new / parse_file_header: the frame assumed for parse_attribute_text / parse_character_data in unit parseelem no longer holds',
                    '`fileversion` is assigned only in parse_file_header (and initialised in new), `strict` only initialised in new'))
    for name, bad, sev, why, good in results:
        if not bad:
            ctx.add(Obligation(ctx.prop, name, 'syntactic-scan', 'complete', 'discharged', detail='%s (%d funnel call sites scanned)' % (good, ncalls)))
        elif sev == 'violation':
            ob = ctx.add(Obligation(ctx.prop, name, 'syntactic-scan', 'complete', 'failed', detail=why + ' :: ' + ' | '.join(line(p) for p in bad[:5])))
            ctx._record_violation(ob)
        else:
            ctx.add(Obligation(ctx.prop, name, 'syntactic-scan', 'complete', 'undecided', detail=why + ' :: ' + ' | '.join(line(p) for p in bad[:5])))
            ctx.undecided.append('%s: %s' % (name, line(bad[0])))
    return ncalls


def check(ctx):
    thorough = ctx.tier == 'thorough'
    specs = [dict(name='funnel_optional_error', module='parser', kind='complete', timeout=600,
                  desc='optional_error: strict => Err(exactly the given error, current line), warnings unchanged; lenient => Ok and warnings ++ [that error]; mode and line unchanged (symbolic strict, line, error variant)'),
             dict(name='funnel_error', module='parser', kind='complete', timeout=600, covers_optional=True, desc='error(): wraps the given error with the current line in both modes, records no warning'),
             dict(name='funnel_check_version', module='parser', kind='complete', timeout=900,
                  desc='check_version: for all u32 masks, all declared versions, both modes: narrows version_compatibility by the mask; raises through the funnel exactly when the file version is not in the mask')]
    # the value validation itself: strict Ok(v) ==> v is acceptable for the spec in the file version (unit valueparse)
    from contracts import valueparse
    try:
        ctx.verus_unit(valueparse.make_unit(ctx.scratch.dir), finder=None)
    except Lost as e:
        ctx.undecided.append('valueparse reason=lost anchor: %s' % e)
    # the element-structure checks of parse_element: unknown / version-foreign element, choice conflict, repeated single-occurrence element
    from contracts import elemcheck
    try:
        ctx.verus_unit(elemcheck.make_unit(ctx.scratch.dir), finder=None)
        ctx.native_ground('lib', 'tables_modes', 'complete',
                          'wf_modes() of the Verus unit `elemcheck` evaluated on the real statics: a character-only type lists no sub-elements and no group has content mode Characters (makes the panic! in check_element_conflict unreachable)')
        ctx.native_ground('lib', 'tables_wf', 'complete', 'wf_tables() assumed by the lookup contracts that unit `elemcheck` calls, evaluated on the real statics')
    except Lost as e:
        ctx.undecided.append('elemcheck reason=lost anchor: %s' % e)
    # the recursive descent itself: every start tag goes through the three checks with the right arguments; termination
    from contracts import parseelem, attrparse
    for mod in (attrparse, parseelem):
        try:
            ctx.verus_unit(mod.make_unit(ctx.scratch.dir), finder=None)
        except Lost as e:
            ctx.undecided.append('%s reason=lost anchor: %s' % (mod.__name__.split('.')[-1], e))
    # value checks run on the *trimmed* text: the trim contract (only ASCII whitespace is removed, and all of it at both ends)
    # is what keeps a defective value from slipping through; same unit as in C02
    from contracts import trim
    # the funnel itself under Verus contracts (same unit as in C02: lexer + ArxmlParser::{new,next,error,optional_error,check_version})
    import copy
    from contracts import lexer, parser_funnel
    try:
        lexer.check_decls(ctx.scratch.dir)
        parser_funnel.check_decls(ctx.scratch.dir)
        ctx.verus_unit(parser_funnel.extend(copy.copy(lexer.UNIT), ctx.scratch.dir), finder=None)
    except Lost as e:
        ctx.undecided.append('lexer+funnel reason=lost anchor: %s' % e)
    ctx.verus_unit(trim.UNIT, finder=dict(module='parser', check='trim', alphabet=b' \nA<\x0b', maxlen=5))
    specs += [dict(name='trim_len%d' % n, module='parser', kind='bounded', bound='input length == %d, all byte values' % n, timeout=120, covers_optional=(n < 2),
                   desc='unmodified trim_byte_string against the executable contract: result is the input minus leading/trailing ASCII whitespace, nothing else removed') for n in range(0, 5)]
    ctx.kani('autosar-data', specs)
    try:
        ncalls = frame_scan(ctx, ctx.scratch.dir)
        ctx.extra_cov['funnel_call_sites'] = ncalls
    except Lost as e:
        ctx.undecided.append('frame-scan reason=%s' % e)
    # API-level 2-safety differential on a corpus (bounded stand-in for the non-interference argument)
    b = ctx.native()
    docs = [(False, d.encode()) for d in OWN_VALID] + [(True, d.encode()) for d in OWN_DEFECT] + fixtures(ctx.scratch.dir)
    p = ctx.scratch.path('c08_corpus.txt')
    with open(p, 'w') as f:
        for defect, d in docs:
            f.write(('!' if defect else '') + d.hex() + '\n')
    rc, out, err, secs = run([b, 'api', 'strictlenient', p, '1'], timeout=1800)
    ctx.t('native-enum', secs)
    line = result_line(out)
    name = 'native/api-strict-vs-lenient'
    bound = '%d documents (%d violate a documented constraint) + every single-byte deletion and every duplicated tag of each' % (len(docs), sum(1 for d in docs if d[0]))
    if line.startswith('OK'):
        ctx.add(Obligation(ctx.prop, name, 'native-eval', 'bounded', 'discharged', seconds=secs, bound=bound,
                           detail='load_buffer strict vs lenient: strict Ok <=> lenient Ok without warnings (then equal models); strict Err == first lenient warning; lenient Err => strict Err; defect documents rejected by strict [%s loads compared]' % line[3:]))
    elif line.startswith('FAIL'):
        msg, _, dochex = line[5:].partition(' :: document ')
        ob = ctx.add(Obligation(ctx.prop, name, 'native-eval', 'bounded', 'failed', seconds=secs, bound=bound, detail=msg))
        ob.witness = dict(input_hex=dochex.strip(), input_text=bytes.fromhex(dochex.strip()).decode('utf-8', 'replace'), observed=msg, via='public API: AutosarModel::load_buffer(strict=true|false) on the same bytes',
                          replay=['api', 'strictlenient1', dochex.strip()])
        ctx._record_violation(ob)
    else:
        ctx.undecided.append('%s: no result (rc=%s) %s' % (name, rc, (out + err)[-300:]))
    # API-level check on documents generated from the specification: content that the tables say is not available in a version
    # must be rejected by strict loading in that version (oracle: the version masks, not the loader)
    ndocs = '1000000' if thorough else '30000'
    rc, out, err, secs = run([b, 'api', 'holes', ndocs], timeout=3000)
    ctx.t('native-enum', secs)
    line = result_line(out)
    name = 'native/api-version-holes'
    bound = 'one minimal document per version-dependent sub-element / attribute / attribute value / character-data value of the specification (budget %s candidates), relabelled to every declared version in which the tables do not list that content' % ndocs
    if line.startswith('OK'):
        ctx.add(Obligation(ctx.prop, name, 'native-eval', 'bounded', 'discharged', seconds=secs, bound=bound,
                           detail='strict loading rejects content that is not available in the file version; lenient loading warns or fails; strict error == first lenient warning [%s]' % line))
    elif line.startswith('FAIL'):
        msg, _, dochex = line[5:].partition(' :: document ')
        ob = ctx.add(Obligation(ctx.prop, name, 'native-eval', 'bounded', 'failed', seconds=secs, bound=bound, detail=msg))
        ob.witness = dict(input_hex=dochex.strip(), input_text=bytes.fromhex(dochex.strip()).decode('utf-8', 'replace'), observed=msg, via='public API: AutosarModel::load_buffer(strict=true|false); oracle: version masks of the specification tables',
                          replay=['api', 'mustfail1' if msg.startswith('strict loading accepts') else 'strictlenient1', dochex.strip()])
        ctx._record_violation(ob)
    else:
        ctx.undecided.append('%s: no result (rc=%s) %s' % (name, rc, (out + err)[-300:]))
    # API-level check on documents generated from the specification: a repeated single-occurrence element is rejected in every order
    # of the siblings (the call site of check_multiplicity in parse_element is not under contract)
    nd = '3000000' if thorough else '400000'
    rc, out, err, secs = run([b, 'api', 'dupes', nd], timeout=3000)
    ctx.t('native-enum', secs)
    line = result_line(out)
    name = 'native/api-repeated-single-occurrence'
    bound = 'for every element type reached from ElementType::ROOT (2 versions each) and every sub-element with multiplicity One/ZeroOrOne in a Sequence/Choice container: documents with the children {A, B, B} in all three orders, A the nearest sub-element listed before resp. after B (budget %s documents)' % nd
    if line.startswith('OK'):
        ctx.add(Obligation(ctx.prop, name, 'native-eval', 'bounded', 'discharged', seconds=secs, bound=bound,
                           detail='strict loading rejects every document with a repeated single-occurrence element, lenient loading warns, strict error == first lenient warning [%s]' % line))
    elif line.startswith('FAIL'):
        msg, _, dochex = line[5:].partition(' :: document ')
        ob = ctx.add(Obligation(ctx.prop, name, 'native-eval', 'bounded', 'failed', seconds=secs, bound=bound, detail=msg))
        ob.witness = dict(input_hex=dochex.strip(), input_text=bytes.fromhex(dochex.strip()).decode('utf-8', 'replace'), observed=msg, via='public API: AutosarModel::load_buffer(strict=true|false); oracle: multiplicities of the specification tables',
                          replay=['api', 'mustfail1' if msg.startswith('strict loading accepts') else 'strictlenient1', dochex.strip()])
        ctx._record_violation(ob)
    else:
        ctx.undecided.append('%s: no result (rc=%s) %s' % (name, rc, (out + err)[-300:]))
    return ctx.finish(
        explanation='The statement is a 2-safety property of the whole parser. Its mechanism is a single funnel: every recoverable finding goes through optional_error (directly or via check_version), the only reader of `strict`. Complete Kani harnesses discharge the contracts of optional_error, error and check_version (both modes, all masks, all versions). Frame conditions that need no solver are checked on the code text: `strict` is read only in optional_error, every funnel call propagates its Result with `?`, `warnings` is mutated only in optional_error. From these, "strict fails with the first lenient warning and both agree when there is none" follows by a non-interference argument that is NOT machine-checked. As a bounded stand-in for it, the public API is run strict and lenient on a corpus of defect documents and their single-byte mutations. Verus proves on the real text of find_element_in_spec_checked / check_element_conflict / check_multiplicity (unit elemcheck), against the lookup contracts that unit lookups proves, that strict mode never returns Ok for an element that is unknown or not available in the file version, for a second alternative of a choice group, or for a repeated single-occurrence element, and that the panic! in check_element_conflict is unreachable; unit valueparse does the same for values. Unit parseelem proves on the real text of parse_element (the write guard replaced by the value it guards, SHORT-NAME path bookkeeping and reference registration as block-level leaves) that in strict mode an accepted element has only children listed for the file version, no repeated single-occurrence child, no two adjacent alternatives of a choice group, a SHORT-NAME if its type is identifiable in the file version, and character data only where the type allows it -- i.e. that the checks are called for every start tag with the right arguments -- and that recursion and loop terminate. Unit attrparse proves on the real text of parse_attribute_text (lookup / validation block and required-attributes loop included) that in strict mode every accepted attribute is listed for the element type, available in the file version and has a value parse_character_data accepted for the listed spec, and that every required attribute is present. parse_arxml (the root call) is under contract in unit parseelem. Not covered: parse_file_header / parse_file_version (string layer); that the value accepted for an attribute or element is the text that was in the file (C01).',
        checker_cmd='cargo kani --harness funnel_optional_error --harness funnel_error --harness funnel_check_version; frame scan of parser.rs; vxnative api strictlenient <corpus> 1',
        trusted_base=['Kani 0.68 + CBMC 6.11', 'the non-interference argument from the funnel contracts + frame conditions to the whole-parser statement (not machine-checked)', 'syntactic frame scan (regex over code text with comments/literals masked)',
                      'unit parseelem: lexer vocabulary (inv, measure) uninterpreted; parse_file_header is a leaf (sets the version, `strict` unchanged: frame scan F4); the element-graph operations inside the descent are leaves'])
