"""C01 -- loading is faithful; load -> serialize -> load is the identity (scope: the text escaping pair, the tokenizer's slices and
byte trimming under contract; everything that touches the element graph only through a bounded API-level round trip)."""
from vxlib.common import result_line
import copy

from contracts import escape, trim, lexer, parser_funnel
from vxlib import corpus
from vxlib.common import Obligation, run
from vxlib.rustsrc import Lost


def _api(ctx, name, cmd, bound, ok_detail, replay_cmd, timeout=1800):
    b = ctx.native()
    rc, out, err, secs = run([b] + cmd, timeout=timeout)
    ctx.t('native-enum', secs)
    line = result_line(out)
    if line.startswith('OK'):
        ctx.add(Obligation(ctx.prop, name, 'native-eval', 'bounded', 'discharged', seconds=secs, bound=bound, detail='%s [%s]' % (ok_detail, line)))
    elif line.startswith('FAIL'):
        msg, _, dochex = line[5:].partition(' :: document ')
        ob = ctx.add(Obligation(ctx.prop, name, 'native-eval', 'bounded', 'failed', seconds=secs, bound=bound, detail=msg))
        ob.witness = dict(input_hex=dochex.strip(), input_text=bytes.fromhex(dochex.strip()).decode('utf-8', 'replace'), observed=msg, via='public API: load_buffer / serialize / character_data / attribute_value',
                          replay=['api', replay_cmd, dochex.strip()])
        ctx._record_violation(ob)
    else:
        ctx.undecided.append('%s: no result (rc=%s) %s' % (name, rc, (out + err)[-300:]))


def check(ctx):
    thorough = ctx.tier == 'thorough'
    # Verus: escape_text / unescape_string against esc / unesc, and the inverse lemma unesc(esc(s)) == s (property lemma)
    try:
        ctx.verus_unit(escape.make_unit(ctx.scratch.dir), finder=None)
    except Lost as e:
        ctx.undecided.append('escape reason=lost anchor: %s' % e)
    # Verus: the tokenizer returns exact slices of the buffer (Characters / EndElement / Comment) and trimming removes only ASCII whitespace
    try:
        lexer.check_decls(ctx.scratch.dir)
        parser_funnel.check_decls(ctx.scratch.dir)
        ctx.verus_unit(parser_funnel.extend(copy.copy(lexer.UNIT), ctx.scratch.dir), finder=None)
        ctx.verus_unit(trim.UNIT, finder=dict(module='parser', check='trim', alphabet=b' \nA<', maxlen=5))
    except Lost as e:
        ctx.undecided.append('lexer/trim reason=lost anchor: %s' % e)
    # bounded API-level round trips
    docs = [d.encode() for d in corpus.OWN_VALID + corpus.OWN_DEFECT + corpus.SORT_DOCS + corpus.COMMENT_DOCS] + [d for _, d in corpus.fixtures(ctx.scratch.dir)]
    p = ctx.scratch.path('c01_corpus.txt')
    with open(p, 'w') as f:
        f.write('\n'.join(d.hex() for d in docs) + '\n')
    _api(ctx, 'native/api-roundtrip-corpus', ['api', 'roundtrip', p], '%d documents (own valid + defect documents, nested documents, documents with comments, the repository\'s parser fixtures), each loaded strict and lenient' % len(docs),
         'load -> serialize -> load (same mode) -> serialize: byte-identical text, same version, element count, identifiable paths, element order, attributes, character data and comments', 'roundtrip1')
    ndocs = '1000000' if thorough else '30000'
    _api(ctx, 'native/api-roundtrip-generated', ['api', 'roundtripgen', ndocs], 'documents generated from the specification (one per version-dependent sub-element / attribute / value, budget %s candidates), built through the public API' % ndocs,
         'the same round trip on every generated document', 'roundtrip1', timeout=3000)
    ml = '4' if thorough else '3'
    _api(ctx, 'native/api-text-escaping', ['api', 'strings', ml], 'every text of length <= %s over {& < > " \' a ; # x 1 blank l t a-umlaut} without leading/trailing blank, as element content and as attribute value, escaped independently of the library' % ml,
         'the loaded value is the text (strict and lenient, no warning); the serialized file reloads to the same value and re-serializes byte-identically', 'roundtrip1')
    # directed: which whitespace is removed on loading (expectation known by construction)
    b = ctx.native()
    rc, out, err, secs = run([b, 'api', 'whitespace'], timeout=600)
    ctx.t('native-enum', secs)
    lines = out.strip().splitlines()
    if not lines or lines[-1] != 'DONE':
        ctx.undecided.append('native/api-whitespace: no result (rc=%s) %s' % (rc, (out + err)[-300:]))
    else:
        what = dict(preserve='a string type the schema marks xml:space="preserve" (SD): 6 x 6 paddings around "x  y" and one entity-encoded text; the value in the model is the text of the document, padding included',
                    plain='an ordinary string (ISSUED-BY): 6 x 6 paddings around "a  b"; only the padding may be removed, the blanks inside stay',
                    mixed='mixed content (L-2): "hello{w1}<TT>w</TT>{w2}world" for 3 outer paddings x 4 x 4 gaps; the whitespace between a word and an inline element is part of the text')
        for l in lines[:-1]:
            kind, _, rest = l.partition(' ')
            cls, _, rest = rest.partition(' ')
            name = 'native/api-whitespace/%s' % cls
            bound = what.get(cls, cls) + '; strict and lenient, and again after serialize + load'
            if kind == 'OK':
                ctx.add(Obligation(ctx.prop, name, 'native-eval', 'bounded', 'discharged', seconds=secs, bound=bound, detail='the model holds what the document holds [%s]' % rest))
            else:
                msg, _, dochex = rest.partition(' :: document ')
                ob = ctx.add(Obligation(ctx.prop, name, 'native-eval', 'bounded', 'failed', seconds=secs, bound=bound, detail=msg[:1000]))
                ob.witness = dict(input_hex=dochex.strip(), input_text=bytes.fromhex(dochex.strip()).decode('utf-8', 'replace') if dochex.strip() else None, observed=msg[:600],
                                  via='public API: load_buffer / character_data / content / serialize', replay=['api', 'whitespace1', cls])
                ctx._record_violation(ob)
    return ctx.finish(
        explanation='Of the four mechanisms the property names, one is pure: the text escaping of the writer and the decoding of the parser. Verus proves on the real text of escape_text and unescape_string that they compute esc / unesc (specifications over the character view; well-formed text is decoded in both modes without a warning; strict mode rejects every malformed entity), and the property lemma unesc(esc(s)) == s for texts of every length -- so decoding what the writer escaped gives the value back and re-escaping gives byte-identical text. The tokenizer (exact slices for character data, end tags and comments) and trim_byte_string (only ASCII whitespace removed) are the units of C02. Attribute splitting vs the attribute writer, layout rules per content type, comment placement and header emission are parse_element / serialize_internal over the element graph (Arc<RwLock>; Kani ICE, DESIGN F3) and are NOT under contract: for them the statement is run through the public API as a bounded round trip (corpus + 14 000 documents generated from the specification + all short texts with special characters).',
        checker_cmd='verus generated/{escape,lexer,trim}.rs; vxnative api roundtrip <corpus>; vxnative api roundtripgen N; vxnative api strings L; vxnative api whitespace',
        trusted_base=['Verus 0.2026.09.13 + Z3', 'the str API read over the char view: find / starts_with / slicing / push_str as leaves; byte offsets of the real code coincide with character positions because every index constant skips ASCII only (assumed)',
                      'leaves u32::from_str(_radix), char::from_u32; the funnel call is a leaf whose contract unit lexer proves', 'rustc (bounded API round trips)'])
