"""C02 -- the loader is total (scope: tokenizer, XML header, byte trimming)."""
import copy

from contracts import trim, lexer, parser_funnel

WS_ALPHA = b' \nA<'
TOK_ALPHA = b'<>?!/-="\'\n a0x'
HDR_ALPHA = b'=?>"\' av'

LEX_FINDERS = [dict(module='lexer', check='lex', alphabet=TOK_ALPHA, maxlen=5),
               dict(module='lexer', check='lex', alphabet=HDR_ALPHA, maxlen=5, prefix=b'<?xml ')]


def check(ctx):
    thorough = ctx.tier == 'thorough'
    lexer.check_decls(ctx.scratch.dir)
    ctx.verus_unit(trim.UNIT, finder=dict(module='parser', check='trim', alphabet=WS_ALPHA, maxlen=5))
    # the lexer unit carries the parser's line/funnel functions too (new, next, error, optional_error, check_version):
    # `next` is the only writer of the parser's line and copies a line the lexer proved to be in range
    unit = copy.copy(lexer.UNIT)
    parser_funnel.check_decls(ctx.scratch.dir)
    unit = parser_funnel.extend(unit, ctx.scratch.dir)
    ctx.verus_unit(unit, finder=LEX_FINDERS)
    parser_funnel.frame_scan_line(ctx, ctx.scratch.dir)
    # the recursive descent: parse_element terminates (recursion and loop decrease the lexer's measure) and reaches no panic site of its own
    from contracts import parseelem
    from vxlib.rustsrc import Lost
    try:
        ctx.verus_unit(parseelem.make_unit(ctx.scratch.dir), finder=None)
    except Lost as e:
        ctx.undecided.append('parseelem reason=lost anchor: %s' % e)
    maxlen = 8 if thorough else 6
    ctx.kani('autosar-data', [dict(name='trim_len%d' % n, module='parser', kind='bounded', bound='input length == %d, all byte values' % n,
                                  timeout=120, desc='unmodified trim_byte_string against the executable contract (cross-check of the desugared Verus text)', covers_optional=(n < 2))
                              for n in range(0, maxlen + 1)]
             + [dict(name='count_lines_len%d' % n, module='lexer', kind='bounded', bound='input length == %d, all byte values' % n, timeout=120,
                     desc='unmodified count_lines == number of newline bytes (cross-check of rule R3)') for n in (0, 4, 8)])
    # cross-check of the desugared `next` against the unmodified one: exhaustive short strings, natively
    ctx.native_enum('lexer-next-token-alphabet', dict(module='lexer', check='lex', alphabet=TOK_ALPHA, maxlen=6 if thorough else 5),
                    'real ArxmlLexer::next driven to EOF/error: no panic, <= 2*len+2 calls, line in 1..=1+newlines')
    ctx.native_enum('lexer-next-xml-header', dict(module='lexer', check='lex', alphabet=HDR_ALPHA, maxlen=7 if thorough else 6, prefix=b'<?xml '),
                    'same, on buffers starting with "<?xml "')
    # API-level (bounded) check of the statement itself: lines of errors/warnings, no panic, header probe vs loading
    from vxlib import corpus
    from vxlib.common import Obligation, run
    b = ctx.native()
    multi = [corpus.doc('<SYSTEM\n  BLA="1"\n  UUID="x"><SHORT-NAME>Sys</SHORT-NAME></SYSTEM>'), corpus.doc('<SYSTEM\n\n\nS="a" T="ASPICE"><SHORT-NAME\n>Sys</SHORT-NAME\n></SYSTEM\n>'),
             corpus.doc(corpus.SYS % '<!-- a\ncomment\n-->\n<CATEGORY\n>x</CATEGORY>')]
    docs = [d.encode() for d in corpus.OWN_VALID + corpus.OWN_DEFECT + multi + corpus.header_variants()] + [d for _, d in corpus.fixtures(ctx.scratch.dir)]
    p = ctx.scratch.path('c02_corpus.txt')
    with open(p, 'w') as f:
        for d in docs:
            f.write(d.hex() + '\n')
    rc, out, err, secs = run([b, 'api', 'lines', p, '1'], timeout=1800)
    ctx.t('native-enum', secs)
    lines_ = out.strip().splitlines() or ['']
    line = lines_[-1]
    kf = [k for k, l in enumerate(lines_) if l.startswith('FAIL')]
    if kf:
        line = ' '.join(lines_[kf[0]:])     # a panic message may contain line breaks
    name = 'native/api-load-lines-and-probe'
    bound = '%d documents + every single-byte deletion, newline insertion and truncation of each + 5000-byte fillers (comment, blanks, empty lines, 60 comments) between xml header and root' % len(docs)
    if line.startswith('OK'):
        ctx.add(Obligation(ctx.prop, name, 'native-eval', 'bounded', 'discharged', seconds=secs, bound=bound,
                           detail='load_buffer strict+lenient and check_buffer: no panic; every error/warning line in 1..=1+newlines; a buffer that loads is accepted by check_buffer [%s inputs]' % line[3:]))
    elif line.startswith('FAIL'):
        msg, _, dochex = line[5:].partition(' :: document ')
        ob = ctx.add(Obligation(ctx.prop, name, 'native-eval', 'bounded', 'failed', seconds=secs, bound=bound, detail=msg))
        ob.witness = dict(input_hex=dochex.strip(), input_text=bytes.fromhex(dochex.strip()).decode('utf-8', 'replace'), observed=msg, via='public API: AutosarModel::load_buffer / check_buffer',
                          replay=['api', 'lines1', dochex.strip()])
        ctx._record_violation(ob)
    else:
        ctx.undecided.append('%s: no result (rc=%s) %s' % (name, rc, (out + err)[-300:]))
    # directed: raw entity-like texts followed by characters of every UTF-8 width (byte-offset slicing of str code)
    k = '8' if thorough else '6'
    rc, out, err, secs = run([b, 'api', 'rawtexts', k], timeout=1800)
    ctx.t('native-enum', secs)
    lines_ = out.strip().splitlines() or ['']
    kf = [i for i, l in enumerate(lines_) if l.startswith('FAIL')]
    line = ' '.join(lines_[kf[0]:]) if kf else lines_[-1]
    name = 'native/api-raw-entity-texts'
    bound = ('texts prefix ++ tail ++ end as element text and as attribute value: 16 prefixes of the entity / character-reference syntax (& &# &#x &#X &#1 &#x1 &a &am &amp &lt &quot; &#x10FFFF &#1114111 &#xD800 a&#x U+00E4&#), '
             'every tail of up to %s characters over {a, U+00E4, U+20AC, U+1F600} (UTF-8 widths 1-4), endings "", ";", ";b"' % k)
    if line.startswith('OK'):
        ctx.add(Obligation(ctx.prop, name, 'native-eval', 'bounded', 'discharged', seconds=secs, bound=bound,
                           detail='load_buffer strict+lenient and check_buffer: no panic; every error/warning line inside the input; a buffer that loads is accepted by check_buffer [%s]' % line[3:]))
    elif line.startswith('FAIL'):
        msg, _, dochex = line[5:].partition(' :: document ')
        ob = ctx.add(Obligation(ctx.prop, name, 'native-eval', 'bounded', 'failed', seconds=secs, bound=bound, detail=msg))
        ob.witness = dict(input_hex=dochex.strip(), input_text=bytes.fromhex(dochex.strip()).decode('utf-8', 'replace'), observed=msg, via='public API: AutosarModel::load_buffer / check_buffer',
                          replay=['api', 'lines1', dochex.strip()])
        ctx._record_violation(ob)
    else:
        ctx.undecided.append('%s: no result (rc=%s) %s' % (name, rc, (out + err)[-300:]))
    return ctx.finish(
        explanation='Verus proves, on the real text of ArxmlLexer::{new,next,read_*}, count_lines and trim_byte_string, for buffers of every length: no index/slice/overflow panic, termination (decreases), the representation invariant, 1 <= line <= 1+newlines for every token and error, and progress (measure decreases on every non-EOF token). Kani and a native exhaustive enumeration cross-check the unmodified text on short inputs (bounded, listed separately). Also in the unit: the line and funnel functions of the parser, verify_end_of_input, check_arxml_header (the probe terminates) and the slicing arithmetic of parse_attribute_text (attribute splitting: no out-of-range slice and termination for every byte string; its lookup/validation block is abstracted). Not covered: parse_character_data (trim_byte_string and unescape_string are under contract separately), parse_element/parse_arxml (element graph).',
        checker_cmd='verus generated/{trim,lexer}.rs --output-json --time (regenerated from /repo working tree on every run); cargo kani --harness trim_len* --harness count_lines_len*',
        trusted_base=['Verus 0.2026.09.13 + Z3', 'Kani 0.68 + CBMC 6.11 (bounded cross-checks only)', 'extraction rules R1-R14 (DESIGN 3.3)',
                      'prelude: spec of u8::is_ascii_whitespace; verified helpers standing for slice::{iter().position, filter().count, starts_with, ends_with, ==, split}',
                      'slices are at most isize::MAX bytes long (precondition of ArxmlLexer::new; a Rust language guarantee)'])
