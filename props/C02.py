"""C02 -- the loader is total (scope: tokenizer, XML header, byte trimming)."""
from contracts import trim

WS_ALPHA = b' \nA<'


def check(ctx):
    ctx.verus_unit(trim.UNIT, finder=dict(module='parser', check='trim', alphabet=WS_ALPHA, maxlen=5))
    maxlen = 6 if ctx.tier == 'quick' else 8
    ctx.kani('autosar-data', [dict(name='trim_len%d' % n, module='parser', kind='bounded', bound='input length == %d, all byte values' % n,
                                  timeout=120, desc='unmodified trim_byte_string against the executable contract (cross-check of the desugared Verus text)', covers_optional=(n < 2))
                              for n in range(0, maxlen + 1)])
    return ctx.finish(
        explanation='Verus proves the contracts on the real text of the functions for buffers of every length; Kani cross-checks the unmodified text on short inputs.',
        checker_cmd='verus <unit>.rs --output-json (generated from /repo working tree); cargo kani --harness trim_len*',
        trusted_base=['Verus 0.2026.09.13 + Z3', 'Kani 0.68 + CBMC 6.11', 'extraction rules R1-R14 (DESIGN 3.3)', 'prelude specs of u8::is_ascii_whitespace and slice adapters'])
