"""C13 -- deep copy and model duplication are faithful and independent.

Scope of the claim (level `other`):
  * Verus, real text: ElementRaw::deep_copy against the functional specification copy_tree ("omits exactly the parts not permitted
    there"), and lemma_copy_faithful ("content identical to the source" when the destination's version permits everything) -- unit deepcopy.
  * native, bounded: copies into the own parent and into another model of the same version, duplicate() and the independence of
    original and duplicate, on every element type of the specification (api copycheck).
  Naming / index registration of the copy (create_copied_sub_element_inner, make_unique_item_name), duplicate() itself and the
  independence of the two object graphs are element-graph code: only run, bounded.
  * native, bounded and directed: "a copy into an older or newer version omits exactly the parts not permitted there and still
    validates" on every attribute / enumeration value / sub-element of the specification that exists in some versions only
    (api copycross), and on the random scripts of api copycheck (cross-version step).  Histories in which the copied element's name
    resolves to another element type in the destination version are attributed to the recorded finding (same defect as under C07).
"""
from vxlib.common import Obligation, run, result_line
from vxlib.rustsrc import Lost


def check(ctx):
    thorough = ctx.tier == 'thorough'
    from contracts import deepcopy
    try:
        ctx.verus_unit(deepcopy.make_unit(ctx.scratch.dir), finder=None)
    except Lost as e:
        ctx.undecided.append('deepcopy reason=lost anchor: %s' % e)
    ctx.native_ground('lib', 'tables_wf', 'complete', 'wf_tables() assumed by the lookup contracts unit deepcopy calls, evaluated on the real statics')
    b = ctx.native()
    budget = 200000 if thorough else 30000
    import re
    rc, out, err, secs = run([b, 'api', 'copycheck', str(budget), str(1 + ctx.seed), 'survey'], timeout=3000)
    ctx.t('native-enum', secs)
    lines = out.strip().splitlines()
    last = lines[-1] if lines else ''
    name = 'native/api-copy-and-duplicate'
    bound = ('an element of every element type reached breadth-first from ElementType::ROOT (budget %d scripts, up to 21 versions per type), built through the editing API with 2-6 children, values and attributes; '
             'copied into its own parent, into a fresh model of the same version and (every second script) into a fresh model of another version, aimed half of the time at a version the source file is not compatible with; the model duplicated (also with a second file of another version); one change on either side' % budget)
    fails = [l for l in lines if l.startswith('FAIL')]
    if not (last.startswith('OK') or last.startswith('SURVEY')):
        ctx.undecided.append('%s: no result (rc=%s) %s' % (name, rc, (out + err)[-300:]))
    else:
        for k, l in enumerate(fails[:12]):
            msg = l[5:]
            m = re.search(r'replay: api copycheck1 (\d+) (\S+) (\d+)\]', msg)
            ob = ctx.add(Obligation(ctx.prop, '%s#%d' % (name, k), 'native-eval', 'bounded', 'failed', seconds=secs, bound=bound, detail=msg[:1200]))
            ob.witness = dict(history=msg[:1200], observed=msg.split(' :: ')[0][:500], via='public API: Element::create_copied_sub_element, AutosarModel::duplicate, ArxmlFile::serialize, AutosarModel::get_element_by_path',
                              replay=['api', 'copycheck1', m.group(1), m.group(2), m.group(3)] if m else None)
            ctx._record_violation(ob)
        if not fails or all(o.detail.startswith('KNOWN FINDING') for o in ctx.obligations if o.name.startswith(name + '#')):
            ctx.add(Obligation(ctx.prop, name, 'native-eval', 'bounded', 'discharged', seconds=secs, bound=bound,
                               detail=('' if not fails else '(except the histories attributed to recorded findings) ') + 'a copy into a destination of the same version has the text of the source apart from the numeric suffix of its own item name; the source is unchanged; every identifiable element of the copy is found under its path; removing the copy restores the file text; every file of a duplicated model serializes to the original text; a change on one side is not visible on the other [%s]' % last))
    # directed cross-version cases: every attribute, enumeration value and sub-element that exists in some versions only
    rc, out, err, secs = run([b, 'api', 'copycross', '1000000', 'survey'], timeout=3000)
    ctx.t('native-enum', secs)
    lines = out.strip().splitlines()
    last = lines[-1] if lines else ''
    name = 'native/api-copy-cross-version'
    bound = ('every element type reached breadth-first from ElementType::ROOT; per type every attribute that exists in some versions only, up to 4 enumeration values per attribute (2 per element text) that exist in some versions only, '
             'up to 3 sub-elements whose name the type lists in some versions only; source version: first and last (attribute values) or one (others) that has the part, destination: up to 3 versions that do not; '
             'the element carries only that part (and a SHORT-NAME / reference text where needed)')
    fails = [l for l in lines if l.startswith('FAIL')]
    if not (last.startswith('OK') or last.startswith('SURVEY')):
        ctx.undecided.append('%s: no result (rc=%s) %s' % (name, rc, (out + err)[-300:]))
    else:
        for k, l in enumerate(fails[:12]):
            msg = l[5:]
            m = re.search(r'replay: api copycross1 (\d+) (\S+) (\S+) (\S+) (\S+)\]', msg)
            ob = ctx.add(Obligation(ctx.prop, '%s#%d' % (name, k), 'native-eval', 'bounded', 'failed', seconds=secs, bound=bound, detail=msg[:1200]))
            ob.witness = dict(history=msg[:1200], observed=msg.split(' :: ')[0][:500], via='public API: Element::create_copied_sub_element between files of two versions, ArxmlFile::serialize, AutosarModel::load_buffer, ArxmlFile::check_version_compatibility',
                              replay=['api', 'copycross1'] + list(m.groups()) if m else None)
            ctx._record_violation(ob)
        if not fails or all(o.detail.startswith('KNOWN FINDING') for o in ctx.obligations if o.name.startswith(name + '#')):
            ctx.add(Obligation(ctx.prop, name, 'native-eval', 'bounded', 'discharged', seconds=secs, bound=bound,
                               detail=('' if not fails else '(except the histories attributed to recorded findings) ') + 'an element that carries one part the destination version does not permit is copied into a file of that version: the copy is refused only when the part is required (a required attribute); otherwise the destination file loads again without a complaint, a required attribute is still there, the source file is unchanged, and -- whenever the same element without that part is compatible with the destination version -- the text of the copy equals the text of the element without the part: exactly that part was omitted [%s]' % last))
    return ctx.finish(
        explanation='Verus proves on the real text of ElementRaw::deep_copy, for every node, version and any table contents, that the result is exactly copy_tree(node, version): attributes are kept iff listed for the type, available in the target version and valid there (a required one that cannot be kept, or one the type does not list, fails the copy of that element); texts are kept, a text not valid for the type\'s spec in the target version fails the copy; a sub-element is kept iff the type lists its name for the target version and its own copy succeeds; an element that must be identifiable in the target version but whose copy does not start with a SHORT-NAME fails. lemma_copy_faithful: if everything below the source is permitted in the version, copy_tree is the identity -- the copy is identical to the source. The node is read as in unit insertrange (the fields deep_copy reads; children are opaque handles; the new element is built as a value and wrapped at the end). Unique naming, index registration, parent links, duplicate() and the independence of the two graphs are only run through the public API (bounded).',
        checker_cmd='verus generated/deepcopy.rs; vxnative ground lib tables_wf; vxnative api copycheck <budget> <seed> survey; vxnative api copycross 1000000 survey',
        trusted_base=['Verus 0.2026.09.13 + Z3', 'the reading of the node and of handles (node_of / tree_of uninterpreted; wrap = the value that was built); tree well-founded (C03); every node below has a type inside the tables',
                      'CharacterData::check_version_compatibility: clause of the contract proved in unit chardata; lookups: contracts proved in unit lookups'])
