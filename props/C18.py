"""C18 -- specification tables are exact: names round-trip, versions convert one-to-one, lookups match the listings."""
from contracts import names, lookups
from vxlib.common import Undecided


def check(ctx):
    thorough = ctx.tier == 'thorough'
    # (a) for all byte strings: Ok(i) => text(i) == s, i < N, no panic  [Verus, parametric in the table contents]
    for key in ('attribute', 'enumitem', 'element'):
        facts = names.table_facts(ctx.scratch.dir, key)
        if not facts['discriminants_ok'] or facts['table_entries'] != facts['N']:
            # side condition of rule R9 (transmute validity) -- the enum no longer matches the table
            raise Undecided('names_' + key, 'enum discriminants / table length side condition does not hold: %r' % facts)
        ctx.extra_cov.setdefault('table_facts', {})[key] = facts
        ctx.verus_unit(names.make_unit(key, facts), finder=dict(ground=({'attribute': 'attributename', 'enumitem': 'enumitem', 'element': 'elementname'}[key], 'neighbours')))
    # (a') the lookups of lib.rs for all element types, names, version masks and index lists  [Verus, parametric in the
    # table contents; the one assumption wf_tables() is the closed fact discharged by `ground lib tables_wf` below]
    from vxlib.rustsrc import Lost
    try:
        lu = lookups.make_unit(ctx.scratch.dir)
        ctx.verus_unit(lu, finder=dict(ground=('lib', 'lookups')))
        ctx.extra_cov['lookup_tables'] = {k: v[1] for k, v in lu.sizes.items() if isinstance(v, tuple)}
    except Lost as e:
        ctx.undecided.append('lookups reason=lost anchor: %s' % e)
    from contracts import versions
    try:
        ctx.verus_unit(versions.make_unit(ctx.scratch.dir), finder=None)
    except Lost as e:
        ctx.undecided.append('versions reason=lost anchor: %s' % e)
    from contracts import hashfn
    ctx.verus_unit(hashfn.UNIT, finder=dict(module='lib', check='hashfunc', alphabet=b'aB-', maxlen=7))
    ctx.native_ground('lib', 'tables_wf', 'complete',
                      'wf_tables() of the Verus unit `lookups` evaluated on the real statics: every stored index/range/version list lies inside the table it points into; group nesting is well-founded (rank = nesting height)')
    # (b) closed instances on the real code  [native, exhaustive]
    for mod, ty in (('attributename', 'AttributeName'), ('enumitem', 'EnumItem'), ('elementname', 'ElementName')):
        ctx.native_ground(mod, 'names', 'complete', 'for every member i of %s: from_bytes(text(i)) == Ok(i), to_str, Display and from_str agree' % ty)
    ctx.native_ground('lib', 'lookups', 'complete',
                      'for every element type reachable from ROOT (== all of ELEMENTS), every listed sub-element and attribute, every version bit of its mask: find_sub_element / get_sub_element_version_mask / find_attribute_spec agree with the listing; for every reference type x named type: reference_dest_value is accepted by verify_reference_dest and belongs to the DEST enumeration')
    for mod in ('attributename', 'enumitem', 'elementname'):
        ctx.native_ground(mod, 'neighbours', 'bounded', 'one-edit neighbours (case flip, -/_ swap, deletion, extension), empty, non-UTF-8 and very long strings: accepted iff member')
    # versions
    kspecs = [dict(name='version_from_val_all_u32', module='autosarversion', kind='complete', timeout=300, desc='for all u32 n: from_val(n)==Some(v) => v as u32 == n and single bit; no declared version is missed'),
              dict(name='version_roundtrip_each', module='autosarversion', kind='complete', timeout=300, covers_optional=True, desc='for every declared version v: from_val(v as u32)==Some(v), from_str(filename(v))==Ok(v), single bit, compatible()'),
              dict(name='version_pairwise_distinct', module='autosarversion', kind='complete', timeout=300, desc='for every pair of distinct declared versions: distinct values and distinct file names')]
    lens = (0, 16, 17, 18)
    kspecs += [dict(name='version_from_str_len%d' % n, module='autosarversion', kind='bounded', bound='ASCII text of length %d' % n, timeout=300, family='version_from_str_len',
                    desc='from_str(s)==Ok(v) => s == filename(v)') for n in lens]
    alens = (0, 1, 2, 3, 4, 5, 6, 7, 8, 12, 16, 24, 25) if thorough else (0, 1, 2, 3, 4, 5, 6, 7, 8)
    kspecs += [dict(name='attr_from_bytes_len%d' % n, module='attributename', kind='bounded', bound='input length == %d, all byte values' % n, timeout=400, family='attr_from_bytes_len',
                    desc='unmodified AttributeName::from_bytes, real hash and real table: Ok(i) => table[i]==s (cross-check of the Verus unit)') for n in alens]
    kspecs += [dict(name='hashfunc_len%d' % n, module='lib', kind='bounded', bound='input length == %d, all byte values' % n, timeout=120, family='hashfunc_len',
                    desc='hashfunc never panics (all tail branches: >=4, 2-3, 1 bytes) and g == f1^f2') for n in (0, 1, 2, 3, 4, 5, 6, 7, 11, 16)]
    ctx.kani('autosar-data-specification', kspecs)
    return ctx.finish(
        explanation='(a\') Verus proves on the real text of 24 lookup/listing functions of lib.rs (find_sub_element(_internal), get_sub_element_spec/_version_mask/_multiplicity, find_attribute_spec, reference_dest_value, verify_reference_dest, is_ref, is_named, short_name_version_mask, accessors, both listing iterators) for every element type, name, version mask and index list and for any table contents satisfying wf_tables(): a successful lookup returns a listed entry with that name, a mask meeting the version and exactly its type; None means no index list resolves to such an entry (lemma_listed_is_found states the property sentence); every yielded listing item is a resolvable entry; no out-of-bounds access; recursion terminates. wf_tables() itself is a closed fact evaluated on the real statics (ground lib tables_wf). hashfunc is panic-free and terminating for every input. AutosarVersion::from_str(s) == Ok(v) implies that s is byte for byte filename(v), for texts of every length (unit versions). (a) Verus proves on the real text of the three from_bytes functions, for every byte string, any hash triple and any table contents: no panic, Ok(i) => i < N and table[i] == input (so every non-member fails and the transmute is in range). (b) the finite half (every member is found at its own index; every listed sub-element/attribute is found in every version of its mask; DEST values) is a conjunction of closed instances, each evaluated on the real compiled code (backend native-eval, exhaustive). Versions: loop-free Kani harnesses over all u32 / all declared versions (complete).',
        checker_cmd='verus generated/{names_attribute,names_enumitem,names_element,lookups,hashfn}.rs; vxnative ground lib tables_wf; vxnative ground {attributename,enumitem,elementname} names; vxnative ground lib lookups; cargo kani --harness version_* --harness attr_from_bytes_len* --harness hashfunc_len*',
        trusted_base=['Verus 0.2026.09.13 + Z3', 'Kani 0.68 + CBMC 6.11', 'rustc (native evaluation of closed instances)', 'rule R9 (DESIGN 3.3): DISPLACEMENTS/STRING_TABLE accesses abstracted with their declared lengths as preconditions; enum represented by its discriminant (side condition discriminants == 0..N-1 checked mechanically)',
                      'hashfunc has contract `true` in the from_bytes units (their postcondition holds for any hash); its own unit proves panic freedom and termination',
                      'unit lookups: table contents uninterpreted; wf_tables() assumed in the unit and discharged by `ground lib tables_wf` (native, exhaustive); name enums opaque'],
        extra=dict(exhaustive=True))
