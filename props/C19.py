"""C19 -- pattern validators accept exactly the language of their published regex."""
import json
import os

from contracts import regex_tables, regex_hand
from vxlib import gen, regexgen, regexspec
from vxlib.common import Obligation, Undecided, VERIF, run

# hand-written validators: Kani bounds (one harness per concrete length)
SIMPLE = [1, 4, 5, 6, 7, 8, 10, 11, 19, 20, 23, 27]


def eq_lengths(thorough):
    L = {}
    for n in SIMPLE:
        L[n] = list(range(0, 9 if thorough else 6))
    L[5] = sorted(set(L[5] + [6]))                  # "STRING" has 6 bytes
    L[17] = [0, 1, 2, 3, 4, 16, 18] + ([17] if thorough else [])   # 17 is the interesting length but needs ~5 min of CBMC: thorough tier only
    L[24] = [0, 1, 2, 3] + ([4] if thorough else [])
    L[23] = sorted(set(L[23]))
    return L


def known_dfa(kf):
    if kf.get('snapshot'):
        js = json.load(open(os.path.join(VERIF, kf['snapshot'])))
        rows = [[v for v, k in row for _ in range(k)] for row in js['rows_rle']]
        return regexgen.snapshot_dfa(rows, js['start'], [tuple(r) for r in js['ranges']])
    if kf.get('impl_regex'):
        return regexspec.compile_regex(kf['impl_regex'])
    return None


def check(ctx):
    thorough = ctx.tier == 'thorough'
    gen.CONFIG['regex_eq_lengths'] = eq_lengths(thorough)
    known = {k['validator']: k for k in ctx.known if k.get('status') == 'known' and 'validator' in k}
    infos = regexgen.load(ctx.scratch.dir)
    ctx.extra_cov['validators'] = {str(n): dict(kind=i['kind'], regex=i['regex'], reference_states=i['dfa'].n) for n, i in infos.items()}

    # oracle self-check (bounded sanity check of the trusted regex compiler against Python's re)
    total = 0
    for n, i in infos.items():
        cnt, bad = regexspec.selfcheck(i['regex'], i['dfa'], maxlen=5 if thorough else 4)
        total += cnt
        if bad is not None:
            raise Undecided('regexspec', 'oracle disagrees with python re on %r for regex %d' % (bad, n))
    ctx.extra_cov['oracle_selfcheck_strings'] = total

    # --- table validators: language comparison by product automaton; decides which reference the step lemma uses
    overrides = {}
    table_status = {}
    for n, i in infos.items():
        if i['kind'] != 'table':
            continue
        w, sim = regexspec.product(i['dfa'], i['table'], regexgen.table_accept(i), start=i['start'])
        if w is None:
            table_status[n] = 'agrees'
            continue
        name = 'regex_table_%d/language-equals-published-regex' % n
        kf = known.get(n)
        impl = regexgen.table_dfa(i)
        if kf:
            kd = known_dfa(kf)
            nw = regexgen.new_witness(i['dfa'], impl, kd)
            if nw is None:
                ctx.known_hits.append((kf, Obligation(ctx.prop, name, 'regexspec', 'complete', 'failed')))
                ctx.add(Obligation(ctx.prop, name, 'regexspec+kani', 'complete', 'failed', detail='KNOWN FINDING %s: shortest disagreement %r' % (kf['id'], w)))
                if regexgen.equivalent(impl, kd) is None:
                    overrides[n] = kd      # prove "table == language recorded in the known finding" so that any other change is caught
                    table_status[n] = 'known-finding (step lemma against the recorded language)'
                else:
                    table_status[n] = 'known-finding, partially repaired (no step lemma)'
                continue
            w = nw
        ob = ctx.add(Obligation(ctx.prop, name, 'regexspec+kani', 'complete', 'failed',
                                detail='product of REGEX_%d_TABLE with the DFA of %r: verdicts differ on %r (table says %s)' % (n, i['regex'], w, not i['dfa'].accepts(w))))
        ob.witness = dict(input_hex=w.hex(), input_text=w.decode('latin-1'), observed='validate_regex_%d(%r) == %s but the published regex says %s' % (n, w, not i['dfa'].accepts(w), i['dfa'].accepts(w)),
                          via='shortest distinguishing string of the product automaton', replay=['one', 'regex', 'regex_%d' % n, w.hex()])
        ctx._record_violation(ob, classify=False)
        table_status[n] = 'VIOLATION'
    ctx.extra_cov['table_status'] = {str(k): v for k, v in table_status.items()}
    gen.CONFIG['regex_overrides'] = overrides

    # --- a validator that is published with two different languages cannot be right for both spec entries
    alt_jobs = []
    for n, i in infos.items():
        for k, alt in enumerate(i.get('alts', [])):
            w = regexgen.equivalent(i['dfa'], alt['dfa'])
            alt_jobs.append((n, k, alt, w))

    # --- Verus: the 13 loops (parametric in the reference automaton)
    ctx.verus_unit(regex_tables.make_unit(infos), finder=None)

    # --- Verus: the 15 hand-written validators (1,4,5,6,7,8,10,11,17,19,20,23,27 via a generated closed form of the DFA run; 24 and 15 piece by piece):
    # the same contract, with a *concrete* reference automaton and a generated, Verus-proved closed form of its run
    def hand_finder(ob):
        import re as _re
        m = _re.search(r'validate_regex_(\d+)', ob.fn or ob.name)
        if not m or int(m.group(1)) not in infos:
            return None
        n = int(m.group(1))
        return dict(module='regex', check='regex_%d' % n, alphabet=infos[n]['dfa'].live_alphabet(), maxlen=5, timeout=120)
    from contracts import regex_split
    proved = {}
    for mk in (regex_hand.make_unit, regex_split.make_unit_24, regex_split.make_unit_15):
        try:
            hu = mk(infos)
            if hu is None:
                continue
            ctx.verus_unit(hu, finder=hand_finder)
            proved.update({str(n): sh for n, sh in hu.shapes.items()})
        except Exception as e:   # Lost: DFA shape outside the generated lemma -> undecided, the bounded checks below still run
            ctx.undecided.append('%s reason=%s' % (mk.__name__, e))
    ctx.extra_cov['hand_validators_proved_unbounded'] = proved

    # --- Kani: step lemmas (complete) and equality harnesses for hand-written validators (bounded)
    ctx.attach()
    from vxlib import kani as kn
    kn.gen_dir(ctx.scratch)
    _, meta = gen.RESULT['regex']
    specs = []
    for n, m in meta.items():
        if m['kind'] == 'table' and m.get('sim') is not None:
            specs.append(dict(name='regex_step_%d' % n, module='regex', kind='complete', timeout=300,
                              desc='step lemma on the real REGEX_%d_TABLE: all %d states x 256 bytes simulate the DFA of %s; accept sets and initial state correspond'
                              % (n, m['N'], 'the language recorded in known finding ' + known[n]['id'] if n in overrides else repr(m['regex']))))
    for n, lens in gen.CONFIG['regex_eq_lengths'].items():
        if n not in infos:
            continue
        for L in lens:
            specs.append(dict(name='regex_eq_%d_len%d' % (n, L), module='regex', kind='bounded', bound='input length == %d, all byte values' % L, timeout=900 if (n == 24 or (n == 17 and L == 17)) else 240,
                              family='regex_eq_%d_len' % n, desc='unmodified validate_regex_%d == DFA of %r' % (n, infos[n]['regex'])))
    ctx.kani('autosar-data-specification', specs)
    # a failing table step lemma means the simulation map is wrong for the *current* table, which the product above would
    # have reported; keep both

    # --- native cross-checks on the real functions (bounded): W-method conformance sets + short strings
    b = ctx.native()
    for n, k, alt, w in alt_jobs:
        name = 'regex_pair_%d_alt%d/validator-matches-every-regex-it-is-published-with' % (n, k)
        fail = None
        for chk, rx in (('regex_%d_alt%d' % (n, k), alt['regex']), ('regex_%d' % n, infos[n]['regex'])):
            rc, out, err, secs = run([b, 'one', 'regex', chk, w.hex()], timeout=60)
            if '"panic"' in out:
                fail = (chk, rx)
                break
        ob = ctx.add(Obligation(ctx.prop, name, 'regexspec+native', 'complete', 'failed',
                                detail='validate_regex_%d is the check_fn of spec entries with two different languages: %r and %r (they differ on %r)' % (n, infos[n]['regex'], alt['regex'], w)))
        if fail:
            ob.witness = dict(input_hex=w.hex(), input_text=w.decode('latin-1'), observed='validate_regex_%d(%r) disagrees with the regex %r published with it' % (n, w, fail[1]),
                              via='string distinguishing the two published regexes, evaluated on the real validator', replay=['one', 'regex', fail[0], w.hex()])
        ctx._record_violation(ob, classify=False)
    wdir = ctx.scratch.path('wsets')
    os.makedirs(wdir, exist_ok=True)
    for n, i in infos.items():
        tests = regexgen.wmethod(i['dfa'], extra=1 if thorough else 0)
        p = os.path.join(wdir, 'w_%d.txt' % n)
        with open(p, 'w') as f:
            f.write('\n'.join(t.hex() for t in tests) + '\n')
        rc, out, err, secs = run([b, 'batch', 'regex', 'regex_%d' % n, p], timeout=600)
        ctx.t('native-enum', secs)
        lines = [json.loads(x) for x in out.strip().splitlines() if x.startswith('{')]
        summ = lines[-1] if lines and 'tried' in lines[-1] else None
        name = 'native/regex_%d/w-method' % n
        if summ is None:
            ctx.undecided.append('%s: no result %s' % (name, (out + err)[-200:]))
            continue
        fails = [bytes.fromhex(x['input']) for x in lines[:-1]]
        kd = known_dfa(known[n]) if n in known else None
        new = [s for s in fails if kd is None or kd.accepts(s) == i['dfa'].accepts(s)]
        bound = 'W-method test set of the minimal DFA (%d states), %d extra state(s) assumed, reduced alphabet %r' % (i['dfa'].n, 1 if thorough else 0, i['dfa'].live_alphabet())
        if new:
            s = min(new, key=lambda x: (len(x), x))
            ob = ctx.add(Obligation(ctx.prop, name, 'native-eval', 'bounded', 'failed', seconds=secs, bound=bound, detail='validate_regex_%d disagrees with %r on %r' % (n, i['regex'], s)))
            ob.witness = dict(input_hex=s.hex(), input_text=s.decode('latin-1'), observed='validate_regex_%d(%r) != regex verdict %s' % (n, s, i['dfa'].accepts(s)), via='W-method conformance set run on the real function',
                              replay=['one', 'regex', 'regex_%d' % n, s.hex()])
            ctx._record_violation(ob, classify=False)
        else:
            if fails and n in known and not any(k is known[n] for k, _ in ctx.known_hits):
                ctx.known_hits.append((known[n], Obligation(ctx.prop, name, 'native-eval', 'bounded', 'failed')))
            ctx.add(Obligation(ctx.prop, name, 'native-eval', 'bounded', 'discharged', seconds=secs, bound=bound,
                               detail='%d test strings%s' % (summ['tried'], ' (%d failures, all inside the known-bad set of %s)' % (len(fails), known[n]['id']) if fails else '')))
    return ctx.finish(
        explanation='For the 13 table-driven validators: Verus proves on the real loop that the verdict equals accept(run(s)) of a reference automaton given the step lemma, and the step lemma (every state x every byte of the real static simulates the minimal DFA compiled from the published regex text; accept sets and initial state correspond) is discharged by loop-free full-domain Kani harnesses -- together: language equality for strings of every length. For two tables with a recorded known finding the step lemma is proved against the recorded (defective) language, so any other change is still caught. The 15 hand-written validators carry the same contract against the concrete minimal DFA: 13 through a generated closed form of the automaton run that Verus proves by induction, validate_regex_24 and validate_regex_15 (built on split) piece by piece with concatenation lemmas. Kani at fixed lengths and W-method conformance sets on the real functions remain as bounded cross-checks (listed separately).',
        checker_cmd='verus generated/regex_tables.rs; cargo kani --harness regex_step_* --harness regex_eq_*; vxnative batch regex regex_n <w-method set>',
        trusted_base=['Verus 0.2026.09.13 + Z3', 'Kani 0.68 + CBMC 6.11', 'regexspec (regex text -> minimal DFA), cross-checked against Python re.fullmatch on every run (%d strings)' % total,
                      'dialect: byte-wise, `.` = any byte but 0x0A, \\d = [0-9] (DESIGN F11)', 'rule R8: table contents enter the Verus unit only through step_ok_n/axiom_ref_n, discharged by Kani on the same static'])
