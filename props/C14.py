"""C14 -- sorting is a content-preserving, idempotent canonicalization (scope: the comparators `sort` is built on)."""
from vxlib.common import result_line
import json

from vxlib.common import Obligation, run

KINDS = 'EUFS'


def cmp_harnesses(thorough):
    out = []
    for x in KINDS:
        for y in KINDS:
            for z in KINDS:
                t = x + y + z
                ne, ns = t.count('E'), t.count('S')
                if ns > 1 or (ne and ns):
                    continue        # CBMC timeouts (> 200 s) -- not registered; covered by the native enumeration only
                if ne > 1 and not thorough:
                    continue        # Enum x Enum goes through the 2810-entry text table: 50-170 s each, thorough tier
                out.append(t)
    return out


def check(ctx):
    thorough = ctx.tier == 'thorough'
    # Verus: the three pure comparison links, each with its spec twin; the order laws are lemmas over the twins
    from contracts import cmp as cmpunit
    from vxlib.rustsrc import Lost
    try:
        ctx.verus_unit(cmpunit.make_unit(ctx.scratch.dir), finder=None)
        from contracts import itemname
        ctx.verus_unit(itemname.UNIT, finder=dict(module='element', check='decompose', alphabet=b'a0195', maxlen=5))
    except Lost as e:
        ctx.undecided.append('cmp reason=lost anchor: %s' % e)
    specs = [dict(name='cmp_laws_' + t, module='chardata', kind='complete', timeout=400, family='cmp_laws_' + t,
                  desc='CharacterData::cmp over kinds %s (E=Enum(default), U=all u64, F=all f64 bit patterns, S=""): antisymmetry, transitivity of <= and of ==, consistency with ==' % t)
             for t in cmp_harnesses(thorough)]
    for n in ((1, 2, 3) if thorough else (1, 2)):
        specs.append(dict(name='name_cmp_len%d' % n, module='element', kind='bounded', bound='three ASCII names of length %d, all byte values' % n, timeout=900, family='name_cmp_len',
                          desc='compare_item_names (the item-name link of Element::cmp): reflexive, antisymmetric, transitive, Equal only for equal names'))
    for n in ((1, 2, 3, 4, 5) if thorough else (1, 2, 3)):
        specs.append(dict(name='decompose_len%d' % n, module='element', kind='bounded', bound='ASCII name of length %d' % n, timeout=300, family='decompose_len',
                          desc='decompose_item_name: Some((base, idx)) <=> name == base ++ digits, digits non-empty, base without trailing digit; never panics'))
    ctx.kani('autosar-data', specs)
    ctx.native_enum('name-compare-mixed-lengths', dict(module='element', check='name_cmp_sep', alphabet=b'ab012\xff', maxlen=10 if thorough else 9),
                    'compare_item_names laws on three names of different lengths over {a,b,0,1,2} (contains a2 / a10 / a1b)')
    ctx.native_enum('value-compare-string-triples', dict(module='chardata', check='cmp_strings_sep', alphabet=b'0129.\xff', maxlen=9 if thorough else 8),
                    'CharacterData::cmp laws on three String values of different lengths over {0,1,2,9,.} (numeric-looking and other texts)')
    # the comparison sort is keyed by: <Element as Ord>::cmp against its documented chain; order laws as a lemma over the chain
    from contracts import elemcmp
    try:
        ctx.verus_unit(elemcmp.make_unit(ctx.scratch.dir), finder=None)
    except Exception as e:
        from vxlib.rustsrc import Lost as _Lost
        if isinstance(e, _Lost):
            ctx.undecided.append('elemcmp reason=lost anchor: %s' % e)
        else:
            raise
    # the sort of one node: unchanged where reordering is not permitted, otherwise a permutation of the element children in the order of
    # the file version (unit sortnode = ElementRaw::sort over the node reading of unit insertrange)
    from contracts import insertrange
    from vxlib.rustsrc import Lost
    try:
        ctx.verus_unit(insertrange.make_unit(ctx.scratch.dir, which='sort'), finder=None)
        ctx.native_ground('lib', 'tables_wf', 'complete', 'wf_tables() assumed by the lookup contracts unit sortnode calls, evaluated on the real statics')
    except Lost as e:
        ctx.undecided.append('sortnode reason=lost anchor: %s' % e)
    # API-level bounded check of the statement itself on small sibling sets (native)
    b = ctx.native()
    rc, out, err, secs = run([b, 'api', 'sort3', '3'], timeout=900)
    ctx.t('native-enum', secs)
    line = result_line(out)
    name = 'native/api-sort3'
    bound = 'all sets of 3 distinct AR-PACKAGE names [ab][ab012]{0,2} x 6 insertion orders'
    if line.startswith('OK'):
        ctx.add(Obligation(ctx.prop, name, 'native-eval', 'bounded', 'discharged', seconds=secs, bound=bound,
                           detail='AutosarModel::sort on three siblings: result independent of the previous order, idempotent, no element lost, no panic [%s]' % line))
    elif line.startswith('FAIL'):
        ob = ctx.add(Obligation(ctx.prop, name, 'native-eval', 'bounded', 'failed', seconds=secs, bound=bound, detail=line))
        ob.witness = dict(instance=line[5:], observed=line, via='public API: create three AR-PACKAGEs, AutosarModel::sort, serialize', replay=['api', 'sort3', '3'])
        ctx._record_violation(ob)
    else:
        ob = ctx.add(Obligation(ctx.prop, name, 'native-eval', 'bounded', 'failed', seconds=secs, bound=bound, detail='crashed: rc=%s %s' % (rc, err[-500:])))
        ob.witness = dict(instance='(panic inside sort)', observed=err[-500:], via='public API', replay=['api', 'sort3', '3'])
        ctx._record_violation(ob)
    # API-level bounded check on nested documents: adjacent-sibling swaps must not change the sorted text
    from vxlib import corpus
    docs = [d.encode() for d in corpus.SORT_DOCS + corpus.OWN_VALID] + [d for defect, d in corpus.fixtures(ctx.scratch.dir) if not defect]
    p = ctx.scratch.path('c14_corpus.txt')
    with open(p, 'w') as f:
        for d in docs:
            f.write(d.hex() + '\n')
    rc, out, err, secs = run([b, 'api', 'sortdocs', p], timeout=1800)
    ctx.t('native-enum', secs)
    line = result_line(out)
    name = 'native/api-sort-nested-documents'
    bound = '%d documents (own + repository fixtures that load strictly); every adjacent pair of sub-elements of every element whose type is not order-relevant is swapped once' % len(docs)
    if line.startswith('OK'):
        ctx.add(Obligation(ctx.prop, name, 'native-eval', 'bounded', 'discharged', seconds=secs, bound=bound,
                           detail='sort: idempotent, keeps the element count and every identifiable path, and gives the same text after any single adjacent swap [%s sorts compared]' % line[3:]))
    elif line.startswith('FAIL'):
        msg, _, dochex = line[5:].partition(' :: document ')
        ob = ctx.add(Obligation(ctx.prop, name, 'native-eval', 'bounded', 'failed', seconds=secs, bound=bound, detail=msg))
        ob.witness = dict(input_hex=dochex.strip(), input_text=bytes.fromhex(dochex.strip()).decode('utf-8', 'replace'), observed=msg, via='public API: load_buffer, Element::move_element_here_at, AutosarModel::sort, serialize',
                          replay=['api', 'sortdocs1', dochex.strip()])
        ctx._record_violation(ob)
    else:
        ob = ctx.add(Obligation(ctx.prop, name, 'native-eval', 'bounded', 'failed', seconds=secs, bound=bound, detail='crashed: rc=%s %s' % (rc, err[-500:])))
        ob.witness = dict(instance='(panic inside sort)', observed=err[-500:], via='public API', replay=['api', 'sortdocs', 'corpus'])
        ctx._record_violation(ob)
    # API-level bounded check of the whole comparison chain of Element::cmp: triples of siblings with and without INDEX, item name,
    # DEFINITION-REF and DEST, in all six orders
    rc, out, err, secs = run([b, 'api', 'sortperm'], timeout=1800)
    ctx.t('native-enum', secs)
    line = result_line(out)
    name = 'native/api-sort-sibling-permutations'
    bound = 'all triples of siblings from three pools -- named ECUC-CONTAINER-VALUEs (name x DEFINITION-REF x INDEX), unnamed ECUC-NUMERICAL-PARAM-VALUEs (DEFINITION-REF x INDEX x VALUE), ECUC-REFERENCE-VALUEs (DEFINITION-REF x DEST x target) -- each loaded in all six orders (4873 triples, 29 238 sorts)'
    if line.startswith('OK'):
        ctx.add(Obligation(ctx.prop, name, 'native-eval', 'bounded', 'discharged', seconds=secs, bound=bound,
                           detail='the sorted text does not depend on the order the siblings had before; sorting twice equals sorting once [%s]' % line))
    elif line.startswith('FAIL'):
        msg, _, dochex = line[5:].partition(' :: document ')
        ob = ctx.add(Obligation(ctx.prop, name, 'native-eval', 'bounded', 'failed', seconds=secs, bound=bound, detail=msg))
        ob.witness = dict(input_hex=dochex.strip(), input_text=bytes.fromhex(dochex.strip()).decode('utf-8', 'replace'), observed=msg, via='public API: load_buffer, AutosarModel::sort, serialize; the same three siblings in another order sort to a different text',
                          replay=['api', 'sortperm1', dochex.strip()])
        ctx._record_violation(ob)
    else:
        ctx.undecided.append('%s: no result (rc=%s) %s' % (name, rc, (out + err)[-300:]))
    # API-level bounded check: sorting keeps the children in the specification order of the file's version, for every element type
    rc, out, err, secs = run([b, 'api', 'sortorder', '200000', str(1 + ctx.seed), 'survey'], timeout=1800)
    ctx.t('native-enum', secs)
    lines = out.strip().splitlines()
    last = lines[-1] if lines else ''
    name = 'native/api-sort-keeps-specification-order'
    bound = 'children created through the editing API (4-13 pseudo-random insertions) on a fresh element of every element type reached breadth-first from ElementType::ROOT, in up to 21 versions per type (98 205 elements)'
    fails = [l for l in lines if l.startswith('FAIL')]
    if not (last.startswith('OK') or last.startswith('SURVEY')):
        ctx.undecided.append('%s: no result (rc=%s) %s' % (name, rc, (out + err)[-300:]))
    else:
        import re as _re
        for k, l in enumerate(fails[:10]):
            m = _re.search(r'replay: api editconform1 (\d+) (\S+) (\d+)\]', l)
            ob = ctx.add(Obligation(ctx.prop, '%s#%d' % (name, k), 'native-eval', 'bounded', 'failed', seconds=secs, bound=bound, detail=l[5:1200]))
            ob.witness = dict(history=l[5:1200], observed=l[5:].split(' [')[0][:600], via='public API: create_*_sub_element_at, Element::sort, sub_elements; oracle: pairwise specification order for the file version from the specification lookups',
                              replay=['api', 'sortorder1', m.group(1), m.group(2), m.group(3)] if m else None)
            ctx._record_violation(ob)
        if not fails:
            ctx.add(Obligation(ctx.prop, name, 'native-eval', 'bounded', 'discharged', seconds=secs, bound=bound,
                               detail='after Element::sort the children are in the specification order of the file version (pairwise oracle), and sorting twice equals sorting once [%s]' % last))
    return ctx.finish(
        explanation='Unit elemcmp: Verus proves on the real text of <Element as Ord>::cmp that it computes the documented chain ecmp (element name, INDEX, item name, definition reference, DEST, then content and attributes) over an abstract key of the handle, and proves lemma_ecmp_laws: on elements with the same presence of item name and definition reference the chain is reflexive, antisymmetric and transitive, given that the content/attribute comparison is a total preorder (induction hypothesis, assumed), str::cmp is a total order and compare_item_names obeys the laws proved in unit cmp; without the presence condition the chain is not transitive in general (items 3 and 4 are skipped unless both sides have the key). Unit sortnode: Verus proves on the real text of ElementRaw::sort, over the node reading of unit insertrange (content as a Vec of handles, the recursive sort of a child and std sort_by as leaves -- sort_by ASSUMED to return a permutation ordered by the key) that nothing moves where reordering is not permitted (character / mixed content, ordered containers, fewer than two children), and that otherwise the new content consists of exactly the old element children, permuted, in the order of their positions in the specification of the file version (the property whose violation was defect 992d4fd). `sort` is sort_by over Element::cmp, a lexicographic chain; "result independent of the previous order" and "never fails" need every link to be a total preorder consistent with equality. Complete Kani harnesses (all u64 / all f64 bit patterns, concrete kinds) discharge the laws for CharacterData::cmp on every kind triple CBMC can carry; the item-name link and the API-level statement are checked on small sibling sets natively (bounded). That sort only permutes, skips ordered containers and keeps indexes intact is element-graph code and not under contract.',
        checker_cmd='cargo kani --harness cmp_laws_*; vxnative api sort3 3',
        trusted_base=['Kani 0.68 + CBMC 6.11', 'str::cmp / String::cmp of std (Enum x Enum and String x String arms)', 'EnumItem::to_str injective (C18)'])
