"""C01 / unit `escape`: the one pure mechanism of "load -> serialize -> load is the identity":

    chardata.rs::escape_text            r.view() == esc(input)            (the writer's text escaping)
    parser.rs::unescape_string          well-formed text: Ok(unesc(input)), in both modes, without a warning;
                                        strict mode rejects every malformed entity / character reference
    lemma_unesc_esc (property lemma)    unesc(esc(s)) == Some(s)  for every text s

so: unescape_string(escape_text(s)) == s for texts of every length, in strict and in lenient mode, with no warning -- and hence
escape(unescape(escape(s))) == escape(s), the "serializing once more yields byte-identical text" clause for character data.

The str API is read over the *char view* (Seq<char>): `find` / `starts_with` / slicing / `push_str` are leaves whose specs speak about
characters. The real code uses byte offsets; all its index constants (1, 2, 3, 4, 5, 6, endpos + 1) only ever skip ASCII prefixes or
reach a position found by `find`, which is why the two readings coincide -- this correspondence is assumed, not proved. Numeric
character references rest on the leaves u32::from_str(_radix) and char::from_u32. The funnel call
`self.optional_error(InvalidXmlEntity{..})?` is the leaf vx_invalid_entity with the funnel contract that unit `lexer` proves.

Rules: R34 `X.contains([..])` / `X.contains('c')`, `String::with_capacity(..)`, `for c in X.chars()` -> index loop over vx_chars(X),
`S.push_str("lit")` -> vx_push_lit (the rule spells the literal's characters), `S.push_str(E)`, `S.push(c)`, `&X[a..b]` forms,
`X.find(c)`, `X.starts_with("lit")`, `u32::from_str(_radix)`, `char::from_u32`, `while let Some(p) = E {` -> loop + match,
`Cow` -> the stand-in enum VxCow.
"""
import os
import re

from vxlib.verusunit import Unit, FnSpec
from vxlib.rustsrc import Lost

F_CD = 'autosar-data/src/chardata.rs'
F_P = 'autosar-data/src/parser.rs'
IMPL_P = r"impl<'a>\s+ArxmlParser<'a>"


def _chars(lit):
    out = []
    for ch in lit:
        out.append("'\\''" if ch == "'" else "'\\\\'" if ch == '\\' else "'%s'" % ch)
    return '&[' + ', '.join(out) + ']'


R34 = [
    (r'(\w+)\.contains\(\[([^\]]*)\]\)', lambda m: 'vx_contains_any(%s, &[%s])' % (m.group(1), m.group(2)), 'R34'),
    (r"(\w+)\.contains\(('(?:[^'\\]|\\.)')\)", lambda m: 'vx_contains_char(%s, %s)' % (m.group(1), m.group(2)), 'R34'),
    (r'String::with_capacity\((?:[^()]|\([^()]*\))*\)', lambda m: 'vx_string_new()', 'R34'),
    (r'for (\w+) in (\w+)\.chars\(\) \{', lambda m: 'let vx_cs = vx_chars(%s); let mut vx_ci: usize = 0; while vx_ci < vx_cs.len() { let %s = vx_cs[vx_ci]; vx_ci += 1;' % (m.group(2), m.group(1)), 'R34'),
    (r'(\w+)\.push_str\("([^"]*)"\)', lambda m: 'vx_push_lit(&mut %s, "%s", %s)' % (m.group(1), m.group(2), _chars(m.group(2))), 'R34'),
    (r'(\w+)\.push_str\(&(\w+)\[\.\.(\w+)\]\)', lambda m: 'vx_push_str(&mut %s, vx_to(%s, %s))' % (m.group(1), m.group(2), m.group(3)), 'R34'),
    (r'(\w+)\.push_str\((\w+)\)', lambda m: 'vx_push_str(&mut %s, %s)' % (m.group(1), m.group(2)), 'R34'),
    (r"(\w+)\.push\((\w+|'(?:[^'\\]|\\.)')\)", lambda m: 'vx_push(&mut %s, %s)' % (m.group(1), m.group(2)), 'R34'),
    (r'while let Some\((\w+)\) = (\w+)\.find\((\'(?:[^\'\\]|\\.)\')\) \{', lambda m: 'loop { let %s = match vx_find(%s, %s) { Some(vx_p) => vx_p, None => { break; } };' % (m.group(1), m.group(2), m.group(3)), 'R34'),
    (r"(\w+)\.find\(('(?:[^'\\]|\\.)')\)", lambda m: 'vx_find(%s, %s)' % (m.group(1), m.group(2)), 'R34'),
    (r'&(\w+)\[(\w+)\.\.(\w+)\]', lambda m: 'vx_slice(%s, %s, %s)' % (m.group(1), m.group(2), m.group(3)), 'R34'),
    (r'&(\w+)\[((?:\w+ \+ )?\w+)\.\.\]', lambda m: 'vx_from(%s, %s)' % (m.group(1), m.group(2)), 'R34'),
    (r'(\w+)\.starts_with\("([^"]*)"\)', lambda m: 'vx_str_starts_with(%s, "%s", %s)' % (m.group(1), m.group(2), _chars(m.group(2))), 'R34'),
    (r'u32::from_str_radix\((\w+), (\d+)\)', lambda m: 'vx_u32_radix(%s, %s)' % (m.group(1), m.group(2)), 'R34'),
    (r'u32::from_str\((\w+)\)', lambda m: 'vx_u32_radix(%s, 10)' % m.group(1), 'R34'),
    (r'char::from_u32\((\w+)\)', lambda m: 'vx_char_from_u32(%s)' % m.group(1), 'R34'),
    (r'self\.optional_error\(ArxmlParserError::InvalidXmlEntity \{\s*input: input\.to_owned\(\),\s*\}\)\?;', lambda m: 'self.vx_invalid_entity(input)?;', 'R34'),
    (r'\bCow::(Owned|Borrowed)\(', lambda m: 'VxCow::%s(' % m.group(1), 'R34'),
]

P_END = '''proof {
    let rem1 = tail(rem0, pos as int);
    let pre = rem0.subrange(0, pos as int);
    if entity(rem1) is Some {
        let ch = entity(rem1).unwrap().0;
        let n = entity(rem1).unwrap().1;
        assert(tail(rem1, n) =~= tail(rem0, pos + n));
        if unesc(tail(rem0, pos + n)) is Some {
            let u = unesc(tail(rem0, pos + n)).unwrap();
            assert(out0 + (pre.push(ch) + u) =~= (out0 + pre).push(ch) + u);
        }
    }
}'''

INV = ['self.strict == old(self).strict',
       'unesc(input@) is Some ==> unesc(rem@) is Some && unesc(input@).unwrap() == unescaped@ + unesc(rem@).unwrap() && self.nwarn == old(self).nwarn',
       '(old(self).strict && unesc(input@) is None) ==> unesc(rem@) is None']


def make_unit(repo_dir):
    lib = open(os.path.join(os.path.dirname(os.path.abspath(__file__)), 'escape_lib.rs')).read()
    fns = [
        FnSpec('escape_text', F_CD, ret='r', body_sub=R34, sig_sub=[(r'-> Cow<str>', "-> VxCow<'_>")],
               ensures=['r.view() == esc(input@)'],
               loops={0: dict(invariant=['vx_ci <= vx_cs.len()', 'vx_cs@ == input@', 'escaped@ == esc(input@.subrange(0, vx_ci as int))'], decreases='vx_cs.len() - vx_ci')},
               proofs=[dict(after=r'vx_ci \+= 1;', text='proof { assert(input@.subrange(0, vx_ci as int).drop_last() =~= input@.subrange(0, vx_ci - 1)); }'),
                       dict(before=r'^\s*VxCow::Owned\(escaped\)', text='proof { assert(input@.subrange(0, vx_ci as int) =~= input@); }'),
                       dict(before=r'^\s*VxCow::Borrowed\(input\)', text='proof { lemma_esc_plain(input@); }')]),
        FnSpec('unescape_string', F_P, impl=IMPL_P, ret='r', body_sub=R34,
               sig_sub=[(r"Result<Cow<'b, str>, AutosarDataError>", "Result<VxCow<'b>, AutosarDataError>")],
               ensures=['final(self).strict == old(self).strict',
                        'unesc(input@) matches Some(u) ==> (r matches Ok(c) && c.view() == u) && final(self).nwarn == old(self).nwarn',
                        'old(self).strict && unesc(input@) is None ==> r is Err'],
               loops={0: dict(invariant=INV, ensures=['first_amp(rem@, \'&\', 0) >= rem@.len()'] + INV, decreases='rem@.len()')},
               proofs=[dict(after=r'loop \{ let pos = match vx_find', text='let ghost rem0 = rem@;\nlet ghost out0 = unescaped@;\nproof { lemma_first(rem0, \'&\', 0); }'),
                       dict(after=r'rem = vx_from\(rem, pos\);', text='proof { assert(rem@ == tail(rem0, pos as int)); }'),
                       dict(after=r"if let Some\(endpos\) = vx_find\(rem, ';'\) \{", nth=0, indent=True, text="proof { lemma_first(rem@, ';', 0); }"),
                       dict(after=r"if let Some\(endpos\) = vx_find\(rem, ';'\) \{", nth=1, indent=True, text="proof { lemma_first(rem@, ';', 0); }"),
                       dict(at='loop_end', loop=0, text=P_END)]),
    ]
    u = Unit(name='escape', prop='C01', spec=lib, fns=fns, wrap={IMPL_P: 'impl ArxmlParser'},
             dropped=['`Cow<str>` is the stand-in enum VxCow; ArxmlParser is reduced to {strict, number of warnings}; the funnel call is the leaf vx_invalid_entity (contract proved in unit lexer)',
                      'the str API is specified over the char view; byte offsets of the real code coincide with it because every index constant skips ASCII only (assumed)'])
    u.property_lemmas = {'lemma_unesc_esc': 'unesc(esc(s)) == Some(s) for every text s: decoding what escape_text wrote gives the text back'}
    return u
