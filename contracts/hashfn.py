"""C18 / unit `hashfn`: lib.rs::hashfunc, the hash behind the three from_bytes lookups, for inputs of every length:
no index out of range, no failing `try_into().unwrap()`, termination, and g == f1 ^ f2.  (The from_bytes units hold for *any*
hash value, so nothing else about the hash matters for C18; that every member is found is the closed-instance half.)

Rules: R32 `u32::from_ne_bytes(X[..4].try_into().unwrap())` -> vx_u32_ne(&X[..4]) (precondition: exactly 4 bytes -- the unwrap cannot
fail); likewise 2 bytes; `a.rotate_left(k).bitxor(v).wrapping_mul(C)` -> vx_mix(a, k, v, C) (total arithmetic, value irrelevant);
`a.bitxor(b)` -> vx_xor; `const N: u32 = ..` inside the body -> `let`; `mut data` parameter -> shadowing `let mut`.
"""
from vxlib.verusunit import Unit, FnSpec

F = 'autosar-data-specification/src/lib.rs'

SPEC = r'''
#[verifier::external_body]
pub fn vx_u32_ne(b: &[u8]) -> (r: u32) requires b.len() == 4 { u32::from_ne_bytes(b.try_into().unwrap()) }
#[verifier::external_body]
pub fn vx_u16_ne(b: &[u8]) -> (r: u16) requires b.len() == 2 { u16::from_ne_bytes(b.try_into().unwrap()) }
#[verifier::external_body]
pub fn vx_mix(a: u32, k: u32, v: u32, c: u32) -> (r: u32) { (a.rotate_left(k) ^ v).wrapping_mul(c) }
pub fn vx_xor(a: u32, b: u32) -> (r: u32) ensures r == a ^ b { a ^ b }
'''

R32 = [
    (r'u32::from_ne_bytes\((\w+)\[\.\.4\]\.try_into\(\)\.unwrap\(\)\)', lambda m: 'vx_u32_ne(&%s[..4])' % m.group(1), 'R32'),
    (r'u16::from_ne_bytes\((\w+)\[\.\.2\]\.try_into\(\)\.unwrap\(\)\)', lambda m: 'vx_u16_ne(&%s[..2])' % m.group(1), 'R32'),
    (r'(\w+)\.rotate_left\((\d+)\)\.bitxor\(((?:[^()]|\([^()]*\))+)\)\.wrapping_mul\((\w+)\)', lambda m: 'vx_mix(%s, %s, %s, %s)' % (m.group(1), m.group(2), m.group(3), m.group(4)), 'R32'),
    (r'(\w+)\.bitxor\((\w+)\)', lambda m: 'vx_xor(%s, %s)' % (m.group(1), m.group(2)), 'R32'),
    (r'\bconst (\w+): u32 = ', lambda m: 'let %s: u32 = ' % m.group(1), 'R32'),
    (r'!(\w+)\.is_empty\(\)', lambda m: '!(%s.len() == 0)' % m.group(1), 'R16'),
]

UNIT = Unit(
    name='hashfn', prop='C18', spec=SPEC,
    fns=[FnSpec('hashfunc', F, ret='r', body_sub=R32,
                sig_sub=[(r'pub\(crate\) fn', 'pub fn'), (r'\(mut data: &\[u8\]\)', '(data0: &[u8])')],
                ensures=['r.0 == r.1 ^ r.2'],
                loops={0: dict(decreases='data.len()')},
                proofs=[dict(at='body_start', text='let mut data = data0;')])],
    dropped=['doc comments; the hash value itself is not specified (irrelevant for C18: the from_bytes contracts hold for any hash)'])
