"""C14 / unit `elemcmp`: <Element as Ord>::cmp (element.rs) -- the comparison `sort` is keyed by.

The postcondition is the documented chain of the function ("1. element name  2. INDEX  3. item name  4. definition reference  5. DEST
6. content  7. attributes"), written as the spec function ecmp over an abstract key of a handle:

    ename(e)  element name text         eindex(e)  Option<u64>     iname(e)  Option<item name>      edef(e)  Option<definition ref text>
    edest(e)  Option<DEST item>         rest_ord(a, b)   the comparison of content, then attributes (the recursive part: Vec / enum Ord of std
                                                         over Element::cmp and CharacterData::cmp / Attribute::cmp)

    ensures  r == ecmp(a, b)

and the order laws are a lemma about ecmp (lemma_ecmp_laws): for any three elements whose *presence pattern* of item name and definition
reference is the same (all three have an item name or none has; likewise the definition reference -- what a valid model guarantees for
siblings of one kind), ecmp is reflexive, antisymmetric and transitive, provided rest_ord is a total preorder (the induction hypothesis
over the tree; ASSUMED here), str::cmp is a total order (std), and compare_item_names is a total order that is Equal only for equal names
(proved in unit cmp: lemma_name_cmp_laws).  Without the presence condition the chain is *not* transitive in general (items 3 and 4
are skipped unless both sides have the key) -- stated, not hidden.

Rules R49: the `.get_sub_element(..).and_then(..).and_then(..)` / `.attribute_value(..).and_then(..)` chains (closures) -> leaves
vx_index / vx_definition / vx_dest returning the uninterpreted keys; `X.to_str().cmp(Y.to_str())` -> vx_cmp_str; `idx1.cmp(&idx2)` ->
vx_cmp_u64; `def1.cmp(&def2)` -> vx_cmp_string; `X.0.read()` -> X.vx_read(): a guard whose `content` / `attributes` are opaque vectors
of that element with leaf `cmp` methods (content_ord / attr_ord uninterpreted; `.then` is Ordering::then, verified); `other => return other` arm kept.
"""
import re

from vxlib.verusunit import Unit, FnSpec
from vxlib.rustsrc import Lost

F = 'autosar-data/src/element.rs'
IMPL_O = r'impl Ord for Element'

SPEC = r'''
use core::cmp::Ordering;
#[derive(Clone, Copy)]
pub struct Element { pub opaque: u64 }
#[derive(Clone, Copy, PartialEq, Eq, Structural)]
pub struct EnumItem { pub id: u16 }
#[derive(Clone, Copy, PartialEq, Eq, Structural)]
pub enum ElementName { Index, DefinitionRef, VxOther(u16) }
#[derive(Clone, Copy, PartialEq, Eq, Structural)]
pub enum AttributeName { Dest, VxOther(u16) }

pub open spec fn rev(o: Ordering) -> Ordering { match o { Ordering::Less => Ordering::Greater, Ordering::Equal => Ordering::Equal, Ordering::Greater => Ordering::Less } }
pub open spec fn laws3(ab: Ordering, ba: Ordering, bc: Ordering, ac: Ordering, aa: Ordering) -> bool {
    &&& aa == Ordering::Equal
    &&& ab == rev(ba)
    &&& (ab != Ordering::Greater && bc != Ordering::Greater ==> ac != Ordering::Greater)
    &&& (ab == Ordering::Equal && bc == Ordering::Equal ==> ac == Ordering::Equal)
}
// ---- the abstract key of a handle
pub uninterp spec fn ename(e: Element) -> Seq<char>;
pub uninterp spec fn eindex(e: Element) -> Option<u64>;
pub uninterp spec fn iname(e: Element) -> Option<Seq<char>>;
pub uninterp spec fn edef(e: Element) -> Option<Seq<char>>;
pub uninterp spec fn edest(e: Element) -> Option<EnumItem>;
pub uninterp spec fn content_ord(a: Element, b: Element) -> Ordering;     // std Ord of the two content vectors (recursive: Element::cmp, CharacterData::cmp)
pub uninterp spec fn attr_ord(a: Element, b: Element) -> Ordering;        // std Ord of the two attribute vectors
pub open spec fn rest_ord(a: Element, b: Element) -> Ordering { if content_ord(a, b) == Ordering::Equal { attr_ord(a, b) } else { content_ord(a, b) } }
// ---- leaf orders
pub uninterp spec fn str_ord(a: Seq<char>, b: Seq<char>) -> Ordering;        // std str / String cmp
pub uninterp spec fn name_ord(a: Seq<char>, b: Seq<char>) -> Ordering;       // compare_item_names (laws proved in unit cmp)
pub uninterp spec fn item_text(d: EnumItem) -> Seq<char>;                     // EnumItem::to_str
pub open spec fn u64_ord(a: u64, b: u64) -> Ordering { if a < b { Ordering::Less } else if a == b { Ordering::Equal } else { Ordering::Greater } }

#[verifier::external_body]
pub proof fn axiom_str_ord(a: Seq<char>, b: Seq<char>, c: Seq<char>)
    ensures laws3(str_ord(a, b), str_ord(b, a), str_ord(b, c), str_ord(a, c), str_ord(a, a)), (str_ord(a, b) == Ordering::Equal) == (a == b) {}
// proved for compare_item_names in unit cmp (lemma_name_cmp_laws)
#[verifier::external_body]
pub proof fn axiom_name_ord(a: Seq<char>, b: Seq<char>, c: Seq<char>)
    ensures laws3(name_ord(a, b), name_ord(b, a), name_ord(b, c), name_ord(a, c), name_ord(a, a)), (name_ord(a, b) == Ordering::Equal) == (a == b) {}
// ASSUMED: the comparison of content and attributes is a total preorder (induction hypothesis over the tree; CharacterData::cmp and
// Attribute::cmp are proved total preorders in unit cmp, Vec / enum Ord of std are lexicographic)
#[verifier::external_body]
pub proof fn axiom_rest_ord(a: Element, b: Element, c: Element)
    ensures laws3(rest_ord(a, b), rest_ord(b, a), rest_ord(b, c), rest_ord(a, c), rest_ord(a, a)) {}

// ---- the documented chain
pub open spec fn idx_step(a: Option<u64>, b: Option<u64>) -> Ordering {
    match (a, b) { (Some(x), Some(y)) => u64_ord(x, y), (Some(_), None) => Ordering::Less, (None, Some(_)) => Ordering::Greater, (None, None) => Ordering::Equal }
}
pub open spec fn name_step(a: Option<Seq<char>>, b: Option<Seq<char>>) -> Ordering {
    match (a, b) { (Some(x), Some(y)) => name_ord(x, y), _ => Ordering::Equal }
}
pub open spec fn def_step(a: Option<Seq<char>>, b: Option<Seq<char>>) -> Ordering {
    match (a, b) { (Some(x), Some(y)) => str_ord(x, y), _ => Ordering::Equal }
}
pub open spec fn dest_step(a: Option<EnumItem>, b: Option<EnumItem>) -> Ordering {
    match (a, b) { (Some(x), Some(y)) => str_ord(item_text(x), item_text(y)), (Some(_), None) => Ordering::Less, (None, Some(_)) => Ordering::Greater, (None, None) => Ordering::Equal }
}
pub open spec fn then(a: Ordering, b: Ordering) -> Ordering { if a == Ordering::Equal { b } else { a } }
pub open spec fn ecmp(a: Element, b: Element) -> Ordering {
    then(str_ord(ename(a), ename(b)), then(idx_step(eindex(a), eindex(b)), then(name_step(iname(a), iname(b)),
        then(def_step(edef(a), edef(b)), then(dest_step(edest(a), edest(b)), rest_ord(a, b))))))
}
// same presence of the optional keys that the chain skips unless both sides have them
pub open spec fn same_shape(a: Element, b: Element) -> bool { (iname(a) is Some) == (iname(b) is Some) && (edef(a) is Some) == (edef(b) is Some) }

// C14: the comparison is a total preorder on elements of one shape
pub proof fn lemma_ecmp_laws(a: Element, b: Element, c: Element)
    requires same_shape(a, b), same_shape(b, c)
    ensures laws3(ecmp(a, b), ecmp(b, a), ecmp(b, c), ecmp(a, c), ecmp(a, a))
{
    axiom_str_ord(ename(a), ename(b), ename(c)); axiom_str_ord(ename(b), ename(a), ename(c)); axiom_str_ord(ename(a), ename(c), ename(b));
    axiom_rest_ord(a, b, c); axiom_rest_ord(b, a, c); axiom_rest_ord(a, c, b);
    if iname(a) is Some {
        let (x, y, z) = (iname(a).unwrap(), iname(b).unwrap(), iname(c).unwrap());
        axiom_name_ord(x, y, z); axiom_name_ord(y, x, z); axiom_name_ord(x, z, y);
    }
    if edef(a) is Some {
        let (x, y, z) = (edef(a).unwrap(), edef(b).unwrap(), edef(c).unwrap());
        axiom_str_ord(x, y, z); axiom_str_ord(y, x, z); axiom_str_ord(x, z, y);
    }
    match (edest(a), edest(b), edest(c)) {
        (Some(x), Some(y), Some(z)) => { axiom_str_ord(item_text(x), item_text(y), item_text(z)); axiom_str_ord(item_text(y), item_text(x), item_text(z)); axiom_str_ord(item_text(x), item_text(z), item_text(y)); }
        (Some(x), Some(y), None) => { axiom_str_ord(item_text(x), item_text(y), item_text(x)); }
        (Some(x), None, Some(z)) => { axiom_str_ord(item_text(x), item_text(z), item_text(x)); }
        (None, Some(y), Some(z)) => { axiom_str_ord(item_text(y), item_text(z), item_text(y)); }
        _ => {}
    }
    if edest(a) is Some { axiom_str_ord(item_text(edest(a).unwrap()), item_text(edest(a).unwrap()), item_text(edest(a).unwrap())); }
}

// ---- exec leaves
impl ElementName {
    #[verifier::external_body]
    pub fn to_str(&self) -> (r: &'static str) { unimplemented!() }
}
impl EnumItem {
    #[verifier::external_body]
    pub fn to_str(&self) -> (r: &'static str) ensures r@ == item_text(*self) { unimplemented!() }
}
impl Element {
    #[verifier::external_body]
    pub fn vx_name_text(&self) -> (r: &'static str) ensures r@ == ename(*self) { unimplemented!() }
    #[verifier::external_body]
    pub fn vx_index(&self) -> (r: Option<u64>) ensures r == eindex(*self) { unimplemented!() }
    #[verifier::external_body]
    pub fn item_name(&self) -> (r: Option<String>) ensures (r is Some) == (iname(*self) is Some), r matches Some(s) ==> s@ == iname(*self).unwrap() { unimplemented!() }
    #[verifier::external_body]
    pub fn vx_definition(&self) -> (r: Option<String>) ensures (r is Some) == (edef(*self) is Some), r matches Some(s) ==> s@ == edef(*self).unwrap() { unimplemented!() }
    #[verifier::external_body]
    pub fn vx_dest(&self) -> (r: Option<EnumItem>) ensures r == edest(*self) { unimplemented!() }
    // `self.0.read()`: the read guard, through which the content and attribute vectors of this element are reached
    #[verifier::external_body]
    pub fn vx_read(&self) -> (r: VxGuard) ensures r.content.of == *self, r.attributes.of == *self { unimplemented!() }
}
pub struct VxContent { pub of: Element }
pub struct VxAttrs { pub of: Element }
pub struct VxGuard { pub content: VxContent, pub attributes: VxAttrs }
pub struct VxOrd { pub o: Ordering }
impl VxContent {
    #[verifier::external_body]
    pub fn cmp(&self, other: &VxContent) -> (r: VxOrd) ensures r.o == content_ord(self.of, other.of) { unimplemented!() }
}
impl VxAttrs {
    #[verifier::external_body]
    pub fn cmp(&self, other: &VxAttrs) -> (r: Ordering) ensures r == attr_ord(self.of, other.of) { unimplemented!() }
}
impl VxOrd {
    // Ordering::then
    pub fn then(self, other: Ordering) -> (r: Ordering) ensures r == (if self.o == Ordering::Equal { other } else { self.o }) {
        match self.o { Ordering::Equal => other, Ordering::Less => Ordering::Less, Ordering::Greater => Ordering::Greater }
    }
}
#[verifier::external_body]
pub fn vx_cmp_str(a: &str, b: &str) -> (r: Ordering) ensures r == str_ord(a@, b@) { unimplemented!() }
#[verifier::external_body]
pub fn vx_cmp_string(a: &String, b: &String) -> (r: Ordering) ensures r == str_ord(a@, b@) { unimplemented!() }
pub fn vx_cmp_u64(a: &u64, b: &u64) -> (r: Ordering) ensures r == u64_ord(*a, *b) {
    if *a < *b { Ordering::Less } else if *a == *b { Ordering::Equal } else { Ordering::Greater }
}
#[verifier::external_body]
pub fn compare_item_names(a: &String, b: &String) -> (r: Ordering) ensures r == name_ord(a@, b@) { unimplemented!() }
pub fn vx_ne_equal(o: Ordering) -> (r: bool) ensures r == (o != Ordering::Equal) { match o { Ordering::Equal => false, _ => true } }
'''

CH = r'\s*\.get_sub_element\(ElementName::%s\)\s*\.and_then\(\|\w+\| \w+\.character_data\(\)\)\s*\.and_then\(\|cdata\| cdata\.%s\)'
R49 = [
    (r'self\.element_name\(\)\.to_str\(\)\.cmp\(other\.element_name\(\)\.to_str\(\)\)', lambda m: 'vx_cmp_str(self.vx_name_text(), other.vx_name_text())', 'R49'),
    (r'self' + CH % ('Index', r'parse_integer::<u64>\(\)'), lambda m: 'self.vx_index()', 'R49'),
    (r'other' + CH % ('Index', r'parse_integer::<u64>\(\)'), lambda m: 'other.vx_index()', 'R49'),
    (r'self' + CH % ('DefinitionRef', r'string_value\(\)'), lambda m: 'self.vx_definition()', 'R49'),
    (r'other' + CH % ('DefinitionRef', r'string_value\(\)'), lambda m: 'other.vx_definition()', 'R49'),
    (r'self\s*\.attribute_value\(AttributeName::Dest\)\s*\.and_then\(\|cdata\| cdata\.enum_value\(\)\)', lambda m: 'self.vx_dest()', 'R49'),
    (r'other\s*\.attribute_value\(AttributeName::Dest\)\s*\.and_then\(\|cdata\| cdata\.enum_value\(\)\)', lambda m: 'other.vx_dest()', 'R49'),
    (r'idx1\.cmp\(&idx2\)', lambda m: 'vx_cmp_u64(&idx1, &idx2)', 'R49'),
    (r'def1\.cmp\(&def2\)', lambda m: 'vx_cmp_string(&def1, &def2)', 'R49'),
    (r'dest1\.to_str\(\)\.cmp\(dest2\.to_str\(\)\)', lambda m: 'vx_cmp_str(dest1.to_str(), dest2.to_str())', 'R49'),
    (r'\b(\w+) != (?:std::cmp::)?Ordering::Equal\b', lambda m: 'vx_ne_equal(%s)' % m.group(1), 'R49'),
    (r'\b(\w+) == (?:std::cmp::)?Ordering::Equal\b', lambda m: '!vx_ne_equal(%s)' % m.group(1), 'R49'),
    (r'let locked_self = self\.0\.read\(\);', lambda m: 'let locked_self = self.vx_read();', 'R49'),
    (r'let locked_other = other\.0\.read\(\);', lambda m: 'let locked_other = other.vx_read();', 'R49'),
    (r'return std::cmp::Ordering::(Less|Greater)', lambda m: 'return Ordering::%s' % m.group(1), 'R49'),
]


def make_unit(repo_dir):
    fn = FnSpec('cmp', F, impl=IMPL_O, ret='r', body_sub=R49, sig_sub=[(r'std::cmp::Ordering', 'Ordering')], label='Element.cmp',
                ensures=['r == ecmp(*self, *other)'])
    u = Unit(name='elemcmp', prop='C14', spec=SPEC, fns=[fn], wrap={IMPL_O: 'impl Element'},
             dropped=['`impl Ord for Element { fn cmp }` is emitted as an inherent function; an Element is an opaque handle with uninterpreted keys (element name text, INDEX, item name, definition reference, DEST) -- the real accessors take locks and walk sub-elements; the comparisons of the content vectors and of the attribute vectors (std Vec / enum Ord over the element tree) are the leaves content_ord / attr_ord, reached through the two read guards',
                      'ASSUMED: rest_ord is a total preorder (induction hypothesis over the tree); str::cmp is a total order; compare_item_names laws as proved in unit cmp'])
    u.property_lemmas = {'lemma_ecmp_laws': 'Element::cmp (the documented chain) is reflexive, antisymmetric and transitive on elements with the same presence of item name and definition reference'}
    return u
