"""C19 / units `regex_split24` and `regex_split15`: the two validators built on `split` whose automata are not chains.

Same contract as every validator: ensures r == ref_accept_n(ref_run_n(0, s@)) against the concrete minimal DFA of the
published regex (compressed case analysis, re-checked against the DFA table when it is emitted).  The proofs work piece
by piece: a lemma gives the state after one separator-free piece, a concatenation lemma glues pieces together, and the
loop over the pieces carries "state after the text consumed so far".  The templates name a few states of the DFA (after a
separator, segment/group states, dead); the numbers are read off the automaton on every run and the shape the template
assumes is checked; the lemmas themselves are proved by Verus against the concrete automaton, so a wrong reading fails.

Each validator sits in a unit of its own (with the functions it calls) to keep the solver context small.

Rules: R25 `X.split(|c| *c == SEP).all(|p| E)` -> loop over the verified lazy splitter VxSplit;
R26 `X.split(|c| *c == SEP).collect::<Vec<&[u8]>>()` -> vx_split_collect (verified: all pieces in order), and
`V.iter().all(|p| E)` -> index loop that stops at the first piece failing E.
"""
import os

from vxlib.verusunit import Unit, FnSpec
from vxlib.rustsrc import Lost
from contracts.regex_hand import (F, R15, R25, _BAL, EXTRA_PROOF, Shape, ref_text, ref_text_compressed, tree_lemma, split24)


def _tree_fn(n, infos):
    d = infos[n]['dfa']
    try:
        lem, sh = tree_lemma(n, d)
    except Shape as e:
        raise Lost('regex %d: minimal DFA of %r is outside the shape the generated lemma handles (%s)' % (n, infos[n]['regex'], e))
    fn = FnSpec('validate_regex_%d' % n, F, ret='r', body_sub=R15, sig_sub=[(r'pub\(crate\) fn', 'pub fn')],
                ensures=['r == ref_accept_%d(ref_run_%d(0, s@))' % (n, n)],
                proofs=[dict(at='body_start', text='proof { lemma_run_%d(s@); %s }' % (n, EXTRA_PROOF.get(n, '')))])
    return ref_text(n, d) + '\n' + lem, fn, sh


def make_unit_24(infos):
    """validate_regex_24 (+ validate_regex_8, which it calls)"""
    if 24 not in infos or infos[24]['kind'] != 'hand' or 8 not in infos or infos[8]['kind'] != 'hand':
        return None
    spec8, fn8, sh8 = _tree_fn(8, infos)
    sp, loops, proofs, sh = split24(infos)
    fn24 = FnSpec('validate_regex_24', F, ret='r', body_sub=R25 + R15, sig_sub=[(r'pub\(crate\) fn', 'pub fn')],
                  ensures=['r == ref_accept_24(ref_run_24(0, s@))'], loops=loops, proofs=proofs)
    u = Unit(name='regex_split24', prop='C19', spec=spec8 + sp, fns=[fn8, fn24], dropped=['doc comments; `pub(crate)` -> `pub`'])
    u.shapes = {24: sh}
    return u


R26 = [
    (r"let (\w+): Vec<&\[u8\]> = (\w+)\.split\(\|c\| \*c == (b'.')\)\.collect\(\);",
     lambda m: 'let %s: Vec<&[u8]> = vx_split_collect(%s, %s);' % (m.group(1), m.group(2), m.group(3)), 'R26'),
    (r'(\w+)\s*\.iter\(\)\s*\.all\(\|(\w+)\| ' + _BAL + r'\)',
     lambda m: ('{ let mut vx_k: usize = 0; let mut vx_ok = true;\n            while vx_k < %s.len() {\n                let %s = &%s[vx_k];\n'
                '                if !(%s) { vx_ok = false; break; }\n                vx_k += 1;\n            }\n            vx_ok }')
     % (m.group(1), m.group(2), m.group(1), ' '.join(m.group(3).split())), 'R26'),
]
R16N = [(r'!(\w+)\.is_empty\(\)', lambda m: '!(%s.len() == 0)' % m.group(1), 'R16')]
# inside the closure of `parts.iter().all(..)` the inner `part.iter().all(u8::is_ascii_hexdigit)` must be rewritten first
R15_FIRST = [r for r in R15 if 'hexdigit' in r[0]]

P_ANY = '''proof {
    assert((s@ =~= any_lit()) == (s.len() == 3 && s@[0] == 65 && s@[1] == 78 && s@[2] == 89));
    if s@ =~= any_lit() { lemma_any_15(); }
}'''
P_PART = '''proof {
    assert(part@ == piece(s@, 58u8, vx_k as nat));
    if allgood15(s@, 8) { lemma_allgood_mono(s@, (vx_k + 1) as nat, 8); }
}'''


def make_unit_15(infos):
    """validate_regex_15: [0-9A-Fa-f]{1,4}(:[0-9A-Fa-f]{1,4}){7,7}|ANY"""
    if 15 not in infos or infos[15]['kind'] != 'hand':
        return None
    d = infos[15]['dfa']
    rows = []
    for c in range(8):
        for k in range(0, 5):
            rows.append((c, k, d.start if (c == 0 and k == 0) else d.run(b'1:' * c + b'1' * k)))
    qA, qAN, qANY = d.run(b'A'), d.run(b'AN'), d.run(b'ANY')
    ok = d.start == 0 and d.dead is not None and d.n == 43 and qANY in d.accept and d.dead not in {q for _, _, q in rows} \
        and all((q in d.accept) == (c == 7 and k >= 1) for c, k, q in rows) and d.run(b'1:' * 8) == d.dead and d.run(b'11111') == d.dead
    if not ok:
        raise Lost('regex 15: the minimal DFA no longer has the shape (group 0..7) x (digits 0..4) + A / AN / ANY + dead that the proof template assumes')
    s15 = 'pub open spec fn s15(c: int, d: int) -> int {\n    ' + ' else '.join('if c == %d && d == %d { %d }' % r for r in rows) + ' else { %d }\n}\n' % d.dead
    lib = open(os.path.join(os.path.dirname(os.path.abspath(__file__)), 'regex15_lib.rs')).read() % dict(qA=qA, qAN=qAN, qANY=qANY, DEAD=d.dead)
    fn = FnSpec('validate_regex_15', F, ret='r', body_sub=R15_FIRST + R26 + R16N + R15, sig_sub=[(r'pub\(crate\) fn', 'pub fn')],
                ensures=['r == ref_accept_15(ref_run_15(0, s@))'],
                loops={0: dict(invariant_except_break=['vx_ok', 'allgood15(s@, vx_k as nat)'],
                               invariant=['vx_k <= parts.len()', 'parts@.len() == 8', 'forall|j: int| 0 <= j < parts@.len() ==> (#[trigger] parts@[j])@ == piece(s@, 58u8, j as nat)'],
                               ensures=['vx_ok == allgood15(s@, 8)'], decreases='parts.len() - vx_k')},
                proofs=[dict(at='body_start', text=P_ANY),
                        dict(after=r'let parts: Vec<&\[u8\]> = vx_split_collect\(s, b.:.\);', text='proof { lemma_final_15(s@, parts@.len() as nat); }'),
                        dict(after=r'let part = &parts\[vx_k\];', text=P_PART)])
    u = Unit(name='regex_split15', prop='C19', spec=ref_text_compressed(15, d) + '\n' + s15 + lib, fns=[fn], dropped=['doc comments; `pub(crate)` -> `pub`'])
    u.shapes = {15: dict(states=d.n, piece_states='s15(group 0..7, digits 0..4)')}
    return u
