"""C13 / unit `deepcopy`: ElementRaw::deep_copy (elementraw.rs), the recursive copy with version filter.

The copy is specified as a *function*: copy_tree(node, version) -> Option<Tree>, where Tree is a ghost datatype
(name, type, attributes, items = sub-trees and texts) and a node is read as in units insertrange / parseelem (ElementRaw as
{elemname, elemtype, content, attributes}; a child Element is an opaque handle, node_of(handle) is the node behind its lock, tree_of(handle)
the tree of a handle; the tree is well-founded: rank).  copy_tree says what "omits exactly the parts not permitted there" means:

    attributes   kept iff listed for the element type, available in the target version and valid there; a required attribute that
                 cannot be kept (or an attribute the type does not list at all) makes the copy of this element fail
    text         kept; text that is not valid for the type's character-data spec in the target version makes the copy fail
    sub-elements kept iff the type lists the name for the target version and the sub-element's own copy succeeds
    an element that must be identifiable in the target version but whose copy does not start with a SHORT-NAME fails

Contract of deep_copy, for every node, version and table contents:   Ok(c)  ==>  copy_tree(node, v) == Some(tree_of(c));
                                                                      Err    ==>  copy_tree(node, v) is None
Property lemma lemma_copy_validates (deepcopy_validates.rs; C13 "and still validates"): whatever copy_tree returns satisfies tree_ok -- every kept
attribute is listed / available / valid in the target version, every kept text is valid, every kept sub-element is listed for the target
version and itself tree_ok, and the tree starts with a SHORT-NAME where the type is identifiable there (all with the element types of the
source: see the recorded finding on version-dependent element types).
Property lemma lemma_copy_faithful (C13 "content identical to the source" for a destination of the same version): if everything in the
subtree is compatible with the version (all_compat), then copy_tree(node, v) == Some(tree_of_node(node)) -- the copy is the source.

Leaves: find_attribute_spec, find_sub_element, chardata_spec, is_named_in_version, compatible (unit lookups);
CharacterData::check_version_compatibility (clause of unit chardata's contract; `valid` uninterpreted); wrap / set parent (graph).
Rules R48: the `ElementRaw { .. }.wrap()` literal + write guard -> a local ElementRaw value wrapped at the end (vx_wrap: tree_of(handle) is
the tree of the value); `for x in &self.F {` -> index loop; `sub_elem.0.read().deep_copy(v)` -> `sub_elem.vx_node().deep_copy(v)`;
`let AttributeSpec {..} = E.ok_or(ERR)?;` -> match with early return; the `matches!(copy.content.first(), ..)` test -> verified helper;
error payloads opaque.
"""
import copy
import os
import re

from vxlib.verusunit import Unit, FnSpec
from vxlib.rustsrc import Source, Lost
from contracts import parser_funnel, lookups

F = 'autosar-data/src/elementraw.rs'
IMPL_R = r'impl ElementRaw'

TYPES = r'''
%(version_enum)s

pub enum AutosarDataError { VxOther(u64) }
#[derive(Clone, Copy)]
pub struct Element { pub opaque: u64 }
#[derive(Clone, Copy)]
pub struct CharacterData { pub opaque: u64 }
#[derive(Clone, Copy)]
pub struct Attribute { pub attrname: AttributeName, pub content: CharacterData }
pub enum ElementContent { Element(Element), CharacterData(CharacterData) }
pub struct VxComment { pub opaque: u64 }
pub struct ElementRaw { pub elemname: ElementName, pub elemtype: ElementType, pub content: Vec<ElementContent>, pub attributes: Vec<Attribute>, pub comment: VxComment }

// ---- ghost trees
pub enum Item { Sub(Box<Tree>), Text(CharacterData) }
pub struct Tree { pub name: ElementName, pub ty: ElementType, pub attrs: Seq<Attribute>, pub items: Seq<Item> }

pub uninterp spec fn name_of(e: Element) -> ElementName;
pub uninterp spec fn node_of(e: Element) -> ElementRaw;
pub uninterp spec fn tree_of(e: Element) -> Tree;
pub uninterp spec fn rank(n: ElementRaw) -> nat;
pub uninterp spec fn valid(v: CharacterData, spec: CharacterDataSpec, ver: u32) -> bool;
// ASSUMED: the element tree is well-founded (property C03)
#[verifier::external_body]
pub proof fn axiom_rank(n: ElementRaw, i: int)
    requires 0 <= i < n.content@.len(), n.content@[i] is Element
    ensures rank(node_of(n.content@[i]->Element_0)) < rank(n)
{}

impl CharacterData {
    #[verifier::external_body]
    pub fn check_version_compatibility(&self, data_spec: &CharacterDataSpec, target_version: AutosarVersion) -> (r: (bool, u32))
        ensures r.0 == valid(*self, *data_spec, target_version as u32)
    { unimplemented!() }
    pub fn clone(&self) -> (r: Self) ensures r == *self { *self }
}
impl Attribute { pub fn clone(&self) -> (r: Self) ensures r == *self { *self } }
pub struct WeakElement { pub opaque: u64 }
pub struct AutosarModel { pub opaque: u64 }
pub struct VxPath { pub opaque: u64 }
// two trees that differ at most in the text of their own SHORT-NAME (the item name of the element itself)
pub open spec fn same_but_item_name(a: Tree, b: Tree) -> bool {
    a.name == b.name && a.ty == b.ty && a.attrs == b.attrs && a.items.len() == b.items.len()
    && (forall|i: int| 1 <= i < a.items.len() ==> #[trigger] a.items[i] == b.items[i])
    && (a.items.len() > 0 ==> (a.items[0] == b.items[0] || (a.items[0] matches Item::Sub(x) && b.items[0] matches Item::Sub(y)
            && x.name == ElementName::ShortName && y.name == ElementName::ShortName && x.ty == y.ty && x.attrs == y.attrs)))
}
impl ElementRaw {
    // the walk up the parent chain (`while let ElementOrModel::Element(weak_parent) = wrapped_parent`): graph code
    #[verifier::external_body]
    pub fn vx_check_not_below(&self, other: &Element) -> (r: Result<(), AutosarDataError>) { unimplemented!() }
    #[verifier::external_body]
    pub fn path_unchecked(&self) -> (r: Result<VxPath, AutosarDataError>) { unimplemented!() }
}
// `newelem.0.read().make_unique_item_name(model, &path)?`: the rename goes through the write lock of the SHORT-NAME child; the handle is read
// again afterwards (r is the same handle, read after the call)
#[verifier::external_body]
pub fn vx_make_unique_item_name(e: Element, model: &AutosarModel, path: &VxPath) -> (r: Result<Element, AutosarDataError>)
    ensures r matches Ok(h) ==> name_of(h) == name_of(e) && same_but_item_name(tree_of(e), tree_of(h))
{ unimplemented!() }
// ---- make_unique_item_name: texts are read through uninterpreted functions of their character sequences
pub uninterp spec fn joined(parent: Seq<char>, name: Seq<char>) -> Seq<char>;        // format!("{parent_path}/{name}")
pub uninterp spec fn suffixed(orig: Seq<char>, counter: int) -> Seq<char>;           // format!("{orig_name}_{counter}")
pub uninterp spec fn path_found(model: AutosarModel, path: Seq<char>) -> bool;       // model.get_element_by_path(path).is_some()
pub uninterp spec fn item_name_of(n: ElementRaw) -> Option<Seq<char>>;
#[verifier::external_body]
pub fn vx_format_path(parent_path: &str, name: &String) -> (r: String) ensures r@ == joined(parent_path@, name@) { unimplemented!() }
#[verifier::external_body]
pub fn vx_format_suffix(orig: &String, counter: i32) -> (r: String) ensures r@ == suffixed(orig@, counter as int) { unimplemented!() }
#[verifier::external_body]
pub fn vx_clone_string(s: &String) -> (r: String) ensures r@ == s@ { unimplemented!() }
impl AutosarModel {
    #[verifier::external_body]
    pub fn vx_path_found(&self, path: &String) -> (r: bool) ensures r == path_found(*self, path@) { unimplemented!() }
}
impl ElementRaw {
    #[verifier::external_body]
    pub fn item_name(&self) -> (r: Option<String>) ensures (match r { Some(s) => item_name_of(*self) == Some(s@), None => item_name_of(*self) is None }) { unimplemented!() }
}
impl Element {
    // `let mut sn = short_name_elem.0.write(); sn.content.clear(); sn.content.push(CharacterData::String(name.clone()))`: a write through the child's lock
    #[verifier::external_body]
    pub fn vx_overwrite_text(&self, name: &String) { unimplemented!() }
}
pub fn vx_first(c: &Vec<ElementContent>) -> (r: Option<&ElementContent>)
    ensures (match r { Some(x) => c@.len() > 0 && *x == c@[0], None => c@.len() == 0 })
{ if c.len() == 0 { None } else { Some(&c[0]) } }
// registration of the copy's identifiable elements and references in the model's indexes (hash maps; elements_dfs): not modelled
#[verifier::external_body]
pub fn vx_register_copy(model: &AutosarModel, e: &Element, path: VxPath) { unimplemented!() }
impl Element {
    #[verifier::external_body]
    pub fn element_name(&self) -> (r: ElementName) ensures r == name_of(*self) { unimplemented!() }
    // what `self.0.read()` shows
    #[verifier::external_body]
    pub fn vx_node(&self) -> (r: ElementRaw) ensures r == node_of(*self) { unimplemented!() }
    // `copied.0.write().parent = ..`: the parent link of the copy (graph; not part of the tree)
    #[verifier::external_body]
    pub fn vx_set_parent(&self) { unimplemented!() }
    #[verifier::external_body]
    pub fn is_identifiable(&self) -> (r: bool) { unimplemented!() }
    pub fn clone(&self) -> (r: Self) ensures r == *self { *self }
}
pub open spec fn items_of(c: Seq<ElementContent>) -> Seq<Item> {
    c.map(|i: int, x: ElementContent| match x { ElementContent::Element(h) => Item::Sub(Box::new(tree_of(h))), ElementContent::CharacterData(cd) => Item::Text(cd) })
}
// `ElementRaw { .. }.wrap()` ... `Ok(copy_wrapped)`: the handle stands for the value that was built
#[verifier::external_body]
pub fn vx_wrap(n: ElementRaw) -> (r: Element)
    ensures name_of(r) == n.elemname, tree_of(r) == (Tree { name: n.elemname, ty: n.elemtype, attrs: n.attributes@, items: items_of(n.content@) }),
        tree_of(r).name == n.elemname
{ unimplemented!() }
#[verifier::external_body]
pub fn vx_clone_comment(c: &VxComment) -> (r: VxComment) { unimplemented!() }
pub fn vx_first_is_short_name(c: &Vec<ElementContent>) -> (r: bool)
    ensures r == (c@.len() > 0 && (c@[0] matches ElementContent::Element(h) && name_of(h) == ElementName::ShortName))
{
    if c.len() == 0 { return false; }
    match &c[0] { ElementContent::Element(first) => first.element_name() == ElementName::ShortName, ElementContent::CharacterData(_) => false }
}

// ---- the copy as a function
pub open spec fn attr_listed(a: Attribute, t: int) -> bool { exists|k: int| attr_at(t, k, a.attrname) }
pub open spec fn attr_required(a: Attribute, t: int) -> bool { exists|k: int| attr_at(t, k, a.attrname) && attrs_of(t)[k].2 }
pub open spec fn attr_keep(a: Attribute, t: int, v: u32) -> bool {
    exists|k: int| attr_at(t, k, a.attrname) && v & t_ver(t_dt(t).attributes_ver + k) != 0 && valid(a.content, t_cd(attrs_of(t)[k].1 as int), v)
}
pub open spec fn attr_fails(a: Attribute, t: int, v: u32) -> bool { !attr_listed(a, t) || (!attr_keep(a, t, v) && attr_required(a, t)) }
pub open spec fn kept_attrs(s: Seq<Attribute>, t: int, v: u32) -> Seq<Attribute>
    decreases s.len()
{
    if s.len() == 0 { Seq::empty() } else if attr_keep(s[s.len() - 1], t, v) { kept_attrs(s.drop_last(), t, v).push(s[s.len() - 1]) } else { kept_attrs(s.drop_last(), t, v) }
}
pub open spec fn attrs_fail(s: Seq<Attribute>, t: int, v: u32) -> bool { exists|i: int| 0 <= i < s.len() && attr_fails(#[trigger] s[i], t, v) }
pub open spec fn text_bad(t: int, cd: CharacterData, v: u32) -> bool { t_dt(t).character_data matches Some(s) && !valid(cd, t_cd(s as int), v) }
pub open spec fn named_in(t: int, v: u32) -> bool { sn_mask(t) matches Some(m) && m & v != 0 }
pub open spec fn starts_with_short_name(items: Seq<Item>) -> bool { items.len() > 0 && (items[0] matches Item::Sub(tr) && tr.name == ElementName::ShortName) }

// the first k items of n's content, copied (None: a text is not valid in the target version)
pub open spec fn copy_items(n: ElementRaw, k: int, v: u32) -> Option<Seq<Item>>
    decreases rank(n), 0nat, k
    when 0 <= k <= n.content@.len()
    via copy_items_decreases
{
    if k == 0 { Some(Seq::empty()) }
    else {
        match copy_items(n, k - 1, v) {
            None => None,
            Some(r) => match n.content@[k - 1] {
                ElementContent::CharacterData(cd) => if text_bad(n.elemtype.typ as int, cd, v) { None } else { Some(r.push(Item::Text(cd))) },
                ElementContent::Element(c) => if find_from(n.elemtype.typ as int, 0, name_of(c), v) is Some {
                    match copy_tree(node_of(c), v) { Some(tr) => Some(r.push(Item::Sub(Box::new(tr)))), None => Some(r) }
                } else { Some(r) },
            },
        }
    }
}
pub open spec fn copy_tree(n: ElementRaw, v: u32) -> Option<Tree>
    decreases rank(n), 1nat, 0int
{
    let t = n.elemtype.typ as int;
    if attrs_fail(n.attributes@, t, v) { None }
    else {
        match copy_items(n, n.content@.len() as int, v) {
            None => None,
            Some(items) => if named_in(t, v) && !starts_with_short_name(items) { None }
                           else { Some(Tree { name: n.elemname, ty: n.elemtype, attrs: kept_attrs(n.attributes@, t, v), items: items }) },
        }
    }
}
#[via_fn]
proof fn copy_items_decreases(n: ElementRaw, k: int, v: u32) {
    if k > 0 { if n.content@[k - 1] is Element { axiom_rank(n, k - 1); } }
}

// ---- "content identical to the source" when everything is permitted in the version
pub open spec fn tree_items(n: ElementRaw, k: int) -> Seq<Item>
    decreases rank(n), 0nat, k
    when 0 <= k <= n.content@.len()
    via tree_items_decreases
{
    if k == 0 { Seq::empty() }
    else { match n.content@[k - 1] {
        ElementContent::CharacterData(cd) => tree_items(n, k - 1).push(Item::Text(cd)),
        ElementContent::Element(c) => tree_items(n, k - 1).push(Item::Sub(Box::new(tree_of_node(node_of(c))))),
    } }
}
pub open spec fn tree_of_node(n: ElementRaw) -> Tree
    decreases rank(n), 1nat, 0int
{ Tree { name: n.elemname, ty: n.elemtype, attrs: n.attributes@, items: tree_items(n, n.content@.len() as int) } }
#[via_fn]
proof fn tree_items_decreases(n: ElementRaw, k: int) { if k > 0 { if n.content@[k - 1] is Element { axiom_rank(n, k - 1); } } }

pub open spec fn items_compat(n: ElementRaw, k: int, v: u32) -> bool
    decreases rank(n), 0nat, k
    when 0 <= k <= n.content@.len()
    via items_compat_decreases
{
    k == 0 || (items_compat(n, k - 1, v) && match n.content@[k - 1] {
        ElementContent::CharacterData(cd) => !text_bad(n.elemtype.typ as int, cd, v),
        ElementContent::Element(c) => find_from(n.elemtype.typ as int, 0, name_of(c), v) is Some && all_compat(node_of(c), v),
    })
}
pub open spec fn all_compat(n: ElementRaw, v: u32) -> bool
    decreases rank(n), 1nat, 0int
{
    let t = n.elemtype.typ as int;
    &&& forall|i: int| 0 <= i < n.attributes@.len() ==> attr_keep(#[trigger] n.attributes@[i], t, v)
    &&& items_compat(n, n.content@.len() as int, v)
    &&& (named_in(t, v) ==> n.content@.len() > 0 && (n.content@[0] matches ElementContent::Element(c) && node_of(c).elemname == ElementName::ShortName))
}
#[via_fn]
proof fn items_compat_decreases(n: ElementRaw, k: int, v: u32) { if k > 0 { if n.content@[k - 1] is Element { axiom_rank(n, k - 1); } } }

pub proof fn lemma_items_none_mono(n: ElementRaw, k: int, m: int, v: u32)
    requires 0 <= k <= m <= n.content@.len(), copy_items(n, k, v) is None
    ensures copy_items(n, m, v) is None
    decreases m - k
{ if k < m { lemma_items_none_mono(n, k, m - 1, v); } }
pub proof fn lemma_kept_all(s: Seq<Attribute>, t: int, v: u32)
    requires forall|i: int| 0 <= i < s.len() ==> attr_keep(#[trigger] s[i], t, v)
    ensures kept_attrs(s, t, v) == s, !attrs_fail(s, t, v)
    decreases s.len()
{
    if s.len() > 0 {
        let d = s.drop_last();
        assert forall|i: int| 0 <= i < d.len() implies attr_keep(#[trigger] d[i], t, v) by { assert(d[i] == s[i]); }
        lemma_kept_all(d, t, v);
        assert(d.push(s[s.len() - 1]) =~= s);
    } else { assert(kept_attrs(s, t, v) =~= s); }
    assert forall|i: int| 0 <= i < s.len() implies !attr_fails(#[trigger] s[i], t, v) by {}
}
// C13: a copy into a destination whose version permits everything in the source is identical to the source
pub proof fn lemma_copy_faithful(n: ElementRaw, v: u32)
    requires all_compat(n, v)
    ensures copy_tree(n, v) == Some(tree_of_node(n))
    decreases rank(n), 1nat, 0int
{
    let t = n.elemtype.typ as int;
    lemma_kept_all(n.attributes@, t, v);
    lemma_items_faithful(n, n.content@.len() as int, v);
    if named_in(t, v) {
        lemma_items_faithful(n, 1, v);
        assert(tree_items(n, 0) =~= Seq::empty());
        let c0 = n.content@[0]->Element_0;
        assert(tree_items(n, 1) =~= seq![Item::Sub(Box::new(tree_of_node(node_of(c0))))]);
        assert(tree_of_node(node_of(c0)).name == ElementName::ShortName);
        assert(tree_items(n, 1)[0] matches Item::Sub(tr) && tr.name == ElementName::ShortName);
        lemma_items_prefix(n, 1, n.content@.len() as int);
    }
}
pub proof fn lemma_items_faithful(n: ElementRaw, k: int, v: u32)
    requires 0 <= k <= n.content@.len(), items_compat(n, n.content@.len() as int, v)
    ensures copy_items(n, k, v) == Some(tree_items(n, k)), items_compat(n, k, v)
    decreases rank(n), 0nat, k
{
    lemma_compat_prefix(n, k, n.content@.len() as int, v);
    if k > 0 {
        lemma_items_faithful(n, k - 1, v);
        match n.content@[k - 1] {
            ElementContent::Element(c) => { axiom_rank(n, k - 1); lemma_copy_faithful(node_of(c), v); }
            _ => {}
        }
    }
}
pub proof fn lemma_compat_prefix(n: ElementRaw, k: int, m: int, v: u32)
    requires 0 <= k <= m <= n.content@.len(), items_compat(n, m, v)
    ensures items_compat(n, k, v)
    decreases m - k
{ if k < m { lemma_compat_prefix(n, k, m - 1, v); } }
pub proof fn lemma_items_prefix(n: ElementRaw, k: int, m: int)
    requires 1 <= k <= m <= n.content@.len()
    ensures tree_items(n, m).len() == m, tree_items(n, k).len() == k, tree_items(n, m)[0] == tree_items(n, k)[0]
    decreases m - k
{
    lemma_items_len(n, m); lemma_items_len(n, k);
    if k < m { lemma_items_prefix(n, k, m - 1); lemma_items_len(n, m - 1); }
}
pub proof fn lemma_items_len(n: ElementRaw, k: int)
    requires 0 <= k <= n.content@.len()
    ensures tree_items(n, k).len() == k
    decreases k
{ if k > 0 { lemma_items_len(n, k - 1); } }
'''

LITERAL = (r'let copy_wrapped = ElementRaw \{\s*elemname: self\.elemname,\s*elemtype: self\.elemtype,\s*content: SmallVec::with_capacity\(self\.content\.len\(\)\),\s*'
           r'attributes: SmallVec::with_capacity\(self\.attributes\.len\(\)\),\s*parent: ElementOrModel::None,\s*file_membership: HashSet::with_capacity\(0\),\s*comment: self\.comment\.clone\(\),\s*\}\s*\.wrap\(\);'
           r'\s*\{\s*let mut copy = copy_wrapped\.0\.write\(\);')
ATTR_SPEC = (r'let AttributeSpec \{\s*spec: cdataspec,\s*required,\s*version: attr_version_mask,\s*\} = self\.elemtype\.find_attribute_spec\(attribute\.attrname\)\.ok_or\(\s*(AutosarDataError::VxOther\(0\)),?\s*\)\?;')
R48 = [
    (r'AutosarDataError::\w+ \{[^{}]*\}', lambda m: 'AutosarDataError::VxOther(0)', 'R39'),
    (LITERAL, lambda m: 'let mut copy = ElementRaw { elemname: self.elemname, elemtype: self.elemtype, content: Vec::new(), attributes: Vec::new(), comment: vx_clone_comment(&self.comment) }; {', 'R48'),
    (ATTR_SPEC, lambda m: 'let (cdataspec, required, attr_version_mask) = match self.elemtype.find_attribute_spec(attribute.attrname) { Some(vx_s) => (vx_s.spec, vx_s.required, vx_s.version), None => { return Err(%s); } };' % m.group(1), 'R48'),
    (r'for attribute in &self\.attributes \{', lambda m: 'let mut vx_a: usize = 0; while vx_a < self.attributes.len() { let attribute = &self.attributes[vx_a]; vx_a += 1;', 'R18'),
    (r'for content_item in &self\.content \{', lambda m: 'let mut vx_c: usize = 0; while vx_c < self.content.len() { let content_item = &self.content[vx_c]; vx_c += 1;', 'R18'),
    (r'sub_elem\.0\.read\(\)\.deep_copy\(target_version\)', lambda m: 'sub_elem.vx_node().deep_copy(target_version)', 'R48'),
    (r'copied_sub_elem\.0\.write\(\)\.parent = ElementOrModel::Element\(copy_wrapped\.downgrade\(\)\);', lambda m: 'copied_sub_elem.vx_set_parent();', 'R48'),
    (r'!matches!\(copy\.content\.first\(\), Some\(ElementContent::Element\(first\)\) if first\.element_name\(\) == ElementName::ShortName\)', lambda m: '!vx_first_is_short_name(&copy.content)', 'R48'),
    (r'Ok\(copy_wrapped\)', lambda m: 'Ok(vx_wrap(copy))', 'R48'),
]

ANCESTRY = (r'let mut wrapped_parent = self\.parent\.clone\(\);\s*while let ElementOrModel::Element\(weak_parent\) = wrapped_parent \{\s*'
            r'let parent = weak_parent\.upgrade\(\)\.ok_or\(AutosarDataError::ItemDeleted\)\?;\s*if parent == \*other \{\s*return Err\(AutosarDataError::ForbiddenCopyOfParent\);\s*\}\s*'
            r'wrapped_parent = parent\.0\.read\(\)\.parent\.clone\(\);\s*\}')
REGISTER = (r'let mut path_parts: Vec<Option<String>> = vec!\[Some\(path\)\];\s*for \(depth, sub_elem\) in newelem\.elements_dfs\(\) \{(?:.|\n)*?\n        \}\n')
R51 = [
    (ANCESTRY, lambda m: 'self.vx_check_not_below(other)?;', 'R51'),
    (r'let newelem = other\.0\.read\(\)\.deep_copy\(version\)\?;', lambda m: 'let mut newelem = other.vx_node().deep_copy(version)?;', 'R51'),
    (r'newelem\.set_parent\(ElementOrModel::Element\(self_weak\)\);', lambda m: 'newelem.vx_set_parent();', 'R51'),
    (r'newelem\.0\.read\(\)\.make_unique_item_name\(model, &path\)\?;', lambda m: 'newelem = vx_make_unique_item_name(newelem, model, &path)?;', 'R51'),
    (REGISTER, lambda m: 'vx_register_copy(model, &newelem, path);\n', 'R51'),
]

R52 = [
    (r'let orig_name = self\.item_name\(\)\.ok_or\(AutosarDataError::VxOther\(0\)\)\?;', lambda m: 'let orig_name = match self.item_name() { Some(vx_s) => vx_s, None => { return Err(AutosarDataError::VxOther(0)); } };', 'R52'),
    (r'let mut name = orig_name\.clone\(\);', lambda m: 'let mut name = vx_clone_string(&orig_name);', 'R52'),
    (r'let mut counter = 1;', lambda m: 'let mut counter: i32 = 1;', 'R52'),
    (r'format!\("\{parent_path\}/\{orig_name\}"\)', lambda m: 'vx_format_path(parent_path, &orig_name)', 'R52'),
    (r'format!\("\{parent_path\}/\{name\}"\)', lambda m: 'vx_format_path(parent_path, &name)', 'R52'),
    (r'format!\("\{orig_name\}_\{counter\}"\)', lambda m: 'vx_format_suffix(&orig_name, counter)', 'R52'),
    (r'model\.get_element_by_path\(&path\)\.is_some\(\)', lambda m: 'model.vx_path_found(&path)', 'R52'),
    (r'self\.content\.first\(\)', lambda m: 'vx_first(&self.content)', 'R52'),
    (r'let mut sn_element = short_name_elem\.0\.write\(\);\s*sn_element\.content\.clear\(\);\s*sn_element\s*\.content\s*\.push\(ElementContent::CharacterData\(CharacterData::String\(name\.clone\(\)\)\)\);',
     lambda m: 'short_name_elem.vx_overwrite_text(&name);', 'R52'),
]

# failure leaves the node as it was; success puts exactly one new child at `position`
INNER_FRAME = ['r is Err ==> final(self).content@ == old(self).content@',
               'r matches Ok(e) ==> final(self).content@ == old(self).content@.insert(position as int, ElementContent::Element(e))']

# is_named / short_name_version_mask / is_ref are not called by the pinned text; declared so that a change that reaches for them is decided, not lost
LEAVES = ['find_attribute_spec', 'find_sub_element', 'chardata_spec', 'is_named_in_version', 'compatible', 'is_named', 'short_name_version_mask', 'is_ref']
TV = 'target_version as u32'


def check_decls(repo_dir):
    src = Source(os.path.join(repo_dir, 'autosar-data/src/lib.rs'))
    s, o, c = src.find_block(r'^pub\(crate\) struct ElementRaw')
    body = re.sub(r'\s+', ' ', re.sub(r'^\s*///.*\n', '', src.text[o + 1:c], flags=re.M)).strip()
    for want in ('pub(crate) elemname: ElementName,', 'pub(crate) elemtype: ElementType,', 'pub(crate) content: SmallVec<[ElementContent; 4]>,', 'pub(crate) attributes: SmallVec<[Attribute; 1]>,'):
        if want not in body:
            raise Lost('struct ElementRaw changed: %r missing' % want)


def make_unit(repo_dir):
    check_decls(repo_dir)
    lookups.check_decls(repo_dir)
    sz = lookups.table_sizes(repo_dir)
    lspec = lookups.TYPES % dict(version_enum='', STATICS='', REFERENCE_TYPE_IDX=sz['REFERENCE_TYPE_IDX'], **{k: v[1] for k, v in sz.items() if isinstance(v, tuple)})
    spec = lspec + TYPES % dict(version_enum=parser_funnel.version_enum(repo_dir))
    lf = {f.label: f for f in lookups.fns(sz)}
    T = 'self.elemtype.typ as int'
    fn = FnSpec('deep_copy', F, impl=IMPL_R, ret='r', body_sub=R48, requires=['self.elemtype.typ < n_dt()', 'subtree_types_ok(*self)'],
                ensures=['match r { Ok(c) => copy_tree(*self, %s) == Some(tree_of(c)) && name_of(c) == self.elemname, Err(_) => copy_tree(*self, %s) is None }' % (TV, TV)],
                decreases='rank(*self)',
                loops={0: dict(invariant=['vx_a <= self.attributes.len()', 'wf_tables()', 'self.elemtype.typ < n_dt()', 'copy.elemname == self.elemname && copy.elemtype == self.elemtype', 'copy.content@.len() == 0',
                                          'copy.attributes@ == kept_attrs(self.attributes@.subrange(0, vx_a as int), %s, %s)' % (T, TV),
                                          '!attrs_fail(self.attributes@.subrange(0, vx_a as int), %s, %s)' % (T, TV)],
                               decreases='self.attributes.len() - vx_a'),
                       1: dict(invariant=['vx_c <= self.content.len()', 'wf_tables()', 'self.elemtype.typ < n_dt()', 'subtree_types_ok(*self)', 'copy.elemname == self.elemname && copy.elemtype == self.elemtype',
                                          'copy.attributes@ == kept_attrs(self.attributes@, %s, %s)' % (T, TV), '!attrs_fail(self.attributes@, %s, %s)' % (T, TV),
                                          'copy_items(*self, vx_c as int, %s) == Some(items_of(copy.content@))' % TV,
                                          'forall|i: int| 0 <= i < copy.content@.len() ==> (#[trigger] copy.content@[i] matches ElementContent::Element(h) ==> tree_of(h).name == name_of(h))'],
                               decreases='self.content.len() - vx_c')},
                proofs=[dict(at='body_start', text='proof { axiom_tables(); assert forall|a: u32, b: u32| #[trigger] (a & b) == b & a by { assert(a & b == b & a) by(bit_vector); } assert(self.attributes@.subrange(0, 0) =~= Seq::empty()); }'),
                        dict(after=r'vx_a \+= 1;', indent=True, text='''proof {
    let s = self.attributes@; let k = vx_a as int;
    assert(s.subrange(0, k).drop_last() =~= s.subrange(0, k - 1));
    assert(s.subrange(0, k)[k - 1] == s[k - 1] && *attribute == s[k - 1]);
    assert forall|a: u32, b: u32| #[trigger] (a & b) == b & a by { assert(a & b == b & a) by(bit_vector); }
}'''),
                        dict(at='loop_end', loop=0, text='''proof {
    let s = self.attributes@; let k = vx_a as int; let t = self.elemtype.typ as int; let v = target_version as u32;
    let a = s[k - 1];
    // uniqueness of the listing of a name
    assert forall|k1: int, k2: int| attr_at(t, k1, a.attrname) && attr_at(t, k2, a.attrname) implies k1 == k2 by {
        if k1 < k2 { assert(attrs_of(t)[k1].0 != a.attrname); } else if k2 < k1 { assert(attrs_of(t)[k2].0 != a.attrname); }
    }
    assert(!attr_fails(a, t, v));
    assert forall|i: int| 0 <= i < k implies !attr_fails(#[trigger] s.subrange(0, k)[i], t, v) by {
        if i < k - 1 { assert(s.subrange(0, k)[i] == s.subrange(0, k - 1)[i]); }
    }
}'''),
                        dict(before=r'^\s*let mut vx_c: usize = 0;', text='proof { assert(self.attributes@.subrange(0, self.attributes@.len() as int) =~= self.attributes@); assert(items_of(copy.content@) =~= Seq::empty()); }'),
                        dict(after=r'vx_c \+= 1;', indent=True, text='''let ghost old_cc = copy.content@;
proof {
    assert(*content_item == self.content@[vx_c - 1]);
    if self.content@[vx_c - 1] is Element { axiom_rank(*self, vx_c - 1); axiom_types_ok(*self, vx_c - 1); }
}'''),
                        dict(before=r'^\s*return Err\(AutosarDataError::VxOther\(0\)\);', nth=0, text='proof { assert(attr_fails(self.attributes@[vx_a - 1], self.elemtype.typ as int, target_version as u32)); }'),
                        dict(before=r'^\s*return Err\(AutosarDataError::VxOther\(0\)\);', nth=1, text='proof { assert(copy_items(*self, vx_c as int, target_version as u32) is None); lemma_items_none_mono(*self, vx_c as int, self.content@.len() as int, target_version as u32); }'),
                        dict(before=r'^\s*return Err\(AutosarDataError::VxOther\(0\)\);', nth=2, text='proof { assert(!starts_with_short_name(items_of(copy.content@))); }'),
                        dict(at='loop_end', loop=1, text='''proof {
    let v = target_version as u32;
    if copy.content@.len() == old_cc.len() + 1 {
        assert(items_of(copy.content@) =~= items_of(old_cc).push(items_of(copy.content@)[old_cc.len() as int]));
    } else { assert(copy.content@ == old_cc); }
}'''),
                        ])
    VV = 'version as u32'
    # the clauses that unit insertrange states on its leaf declaration of this function (same text)
    inner = FnSpec('create_copied_sub_element_inner', F, impl=IMPL_R, ret='r', body_sub=R51,
                   requires=['position <= old(self).content@.len()', 'node_of(*other).elemtype.typ < n_dt()', 'subtree_types_ok(node_of(*other))'],
                   ensures=['final(self).elemname == old(self).elemname && final(self).elemtype == old(self).elemtype && final(self).attributes@ == old(self).attributes@',
                            # failure leaves the node as it was; a source that cannot be copied into this version is refused
                            INNER_FRAME[0],
                            'copy_tree(node_of(*other), %s) is None ==> r is Err' % VV,
                            # success: exactly one new child at `position`; it is the copy of the source (copy_tree), apart from its own item name
                            INNER_FRAME[1],
                            'r matches Ok(e) ==> name_of(e) == node_of(*other).elemname '
                            '&& (copy_tree(node_of(*other), %s) matches Some(tr) && same_but_item_name(tr, tree_of(e)))' % VV],
                   )
    unique = FnSpec('make_unique_item_name', F, impl=IMPL_R, ret='r', body_sub=[R48[0]] + R52, attrs=['#[verifier::exec_allows_no_decreases_clause]'],
                    ensures=['item_name_of(*self) is None ==> r is Err',
                             # the name that is returned is not taken below the parent path, and it is the original name or that name with a numeric suffix
                             'r matches Ok(name) ==> !path_found(*model, joined(parent_path@, name@)) && (item_name_of(*self) matches Some(orig) && '
                             '(name@ == orig || exists|c: int| 1 <= c && name@ == suffixed(orig, c)))',
                             # the original name is kept whenever it is free
                             'r matches Ok(name) ==> (item_name_of(*self) matches Some(orig) && (!path_found(*model, joined(parent_path@, orig)) ==> name@ == orig))'],
                    loops={0: dict(invariant=['counter >= 1', 'path@ == joined(parent_path@, name@)', 'counter == 1 ==> name@ == orig_name@', 'counter > 1 ==> name@ == suffixed(orig_name@, counter - 1)',
                                              'counter > 1 ==> path_found(*model, joined(parent_path@, orig_name@))'])},
                    proofs=[dict(before=r'^\s*counter \+= 1;', text='proof { assume(counter < i32::MAX); /* ASSUMED: fewer than 2^31 colliding names */ }')])
    spec += r'''
// every element of the subtree has a type inside the tables (model consistency; needed for the lookups)
pub open spec fn subtree_types_ok(n: ElementRaw) -> bool {
    n.elemtype.typ < n_dt() && forall|i: int| 0 <= i < n.content@.len() ==> (#[trigger] n.content@[i] matches ElementContent::Element(c) ==> subtree_types_ok_child(n, i))
}
pub uninterp spec fn subtree_types_ok_child(n: ElementRaw, i: int) -> bool;
// ASSUMED together with well-foundedness: the predicate unfolds one level (it is the greatest fixpoint "all nodes below have types inside the tables")
#[verifier::external_body]
pub proof fn axiom_types_ok(n: ElementRaw, i: int)
    requires subtree_types_ok(n), 0 <= i < n.content@.len(), n.content@[i] is Element
    ensures subtree_types_ok(node_of(n.content@[i]->Element_0))
{}
'''
    spec += open(os.path.join(os.path.dirname(os.path.abspath(__file__)), 'deepcopy_validates.rs')).read()
    u = Unit(name='deepcopy', prop='C13', spec=spec, fns=[fn, inner, unique],
             wrap={IMPL_R: 'impl ElementRaw', lookups.IMPL_ET: 'impl ElementType', lookups.IMPL_AV: 'impl AutosarVersion'},
             dropped=['the element graph: ElementRaw is {elemname, elemtype, content: Vec, attributes: Vec, comment}; a child Element is an opaque handle with uninterpreted node_of / tree_of; `ElementRaw { .. }.wrap()` and the write guard are a local value wrapped at the end (vx_wrap); parent links are not part of the tree',
                      'specification lookups are leaves with the contracts proved in unit lookups; CharacterData::check_version_compatibility is a leaf with a clause proved in unit chardata (`valid` uninterpreted)',
                      'ASSUMED: the tree is well-founded (rank; C03); every node below has a type inside the tables (subtree_types_ok)'])
    u.property_lemmas = {'lemma_copy_faithful': 'if everything below the source is permitted in the version, the copy is identical to the source',
                         'lemma_copy_validates': 'a successful copy contains only attributes, texts and sub-elements that are permitted in the target version (with the element types of the source), and starts with a SHORT-NAME where the type is identifiable there'}
    for name in LEAVES:
        u.leaves.append((lf[name], 'lookups'))
    return u
