// ===================== "and still validates": what a successful copy looks like in the target version =====================
// reading: the name a handle reports is the name stored in its node (Element::element_name reads elemname under the lock)
#[verifier::external_body]
pub proof fn axiom_handle_name(h: Element) ensures name_of(h) == node_of(h).elemname {}

pub open spec fn tree_ok(tr: Tree, v: u32) -> bool
    decreases tr
{
    let t = tr.ty.typ as int;
    &&& forall|i: int| 0 <= i < tr.attrs.len() ==> attr_keep(#[trigger] tr.attrs[i], t, v)
    &&& forall|i: int| 0 <= i < tr.items.len() ==> (#[trigger] tr.items[i] matches Item::Text(cd) ==> !text_bad(t, cd, v))
    &&& forall|i: int| 0 <= i < tr.items.len() ==> (#[trigger] tr.items[i] matches Item::Sub(c) ==> find_from(t, 0, c.name, v) is Some && tree_ok(*c, v))
    &&& (named_in(t, v) ==> starts_with_short_name(tr.items))
}
pub proof fn lemma_kept_are_kept(s: Seq<Attribute>, t: int, v: u32)
    ensures forall|i: int| 0 <= i < kept_attrs(s, t, v).len() ==> attr_keep(#[trigger] kept_attrs(s, t, v)[i], t, v)
    decreases s.len()
{
    if s.len() > 0 {
        lemma_kept_are_kept(s.drop_last(), t, v);
        let d = kept_attrs(s.drop_last(), t, v);
        let r = kept_attrs(s, t, v);
        assert forall|i: int| 0 <= i < r.len() implies attr_keep(#[trigger] r[i], t, v) by {
            if attr_keep(s[s.len() - 1], t, v) { if i < d.len() { assert(r[i] == d[i]); } else { assert(r[i] == s[s.len() - 1]); } }
        }
    }
}
pub proof fn lemma_copy_items_ok(n: ElementRaw, k: int, v: u32)
    requires 0 <= k <= n.content@.len(), copy_items(n, k, v) is Some
    ensures ({ let items = copy_items(n, k, v).unwrap(); let t = n.elemtype.typ as int;
        &&& forall|i: int| 0 <= i < items.len() ==> (#[trigger] items[i] matches Item::Text(cd) ==> !text_bad(t, cd, v))
        &&& forall|i: int| 0 <= i < items.len() ==> (#[trigger] items[i] matches Item::Sub(c) ==> find_from(t, 0, c.name, v) is Some && tree_ok(*c, v)) })
    decreases rank(n), 0nat, k
{
    if k > 0 {
        lemma_copy_items_ok(n, k - 1, v);
        let r = copy_items(n, k - 1, v).unwrap();
        let items = copy_items(n, k, v).unwrap();
        match n.content@[k - 1] {
            ElementContent::Element(c) => {
                axiom_rank(n, k - 1); axiom_handle_name(c);
                if find_from(n.elemtype.typ as int, 0, name_of(c), v) is Some {
                    if copy_tree(node_of(c), v) is Some { lemma_copy_validates(node_of(c), v); }
                }
            }
            _ => {}
        }
        assert forall|i: int| 0 <= i < items.len() implies (#[trigger] items[i] matches Item::Text(cd) ==> !text_bad(n.elemtype.typ as int, cd, v)) by { if i < r.len() { assert(items[i] == r[i]); } }
        assert forall|i: int| 0 <= i < items.len() implies (#[trigger] items[i] matches Item::Sub(c) ==> find_from(n.elemtype.typ as int, 0, c.name, v) is Some && tree_ok(*c, v)) by { if i < r.len() { assert(items[i] == r[i]); } }
    }
}
// C13: "a copy into an older or newer version ... still validates" (with the element types of the source: see the recorded finding on
// version-dependent element types)
pub proof fn lemma_copy_validates(n: ElementRaw, v: u32)
    requires copy_tree(n, v) is Some
    ensures tree_ok(copy_tree(n, v).unwrap(), v)
    decreases rank(n), 1nat, 0int
{
    let t = n.elemtype.typ as int;
    lemma_kept_are_kept(n.attributes@, t, v);
    lemma_copy_items_ok(n, n.content@.len() as int, v);
}

