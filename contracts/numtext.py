"""C20 / unit `numtext`: numeric / boolean interpretation of a character-data value, for texts of every length and every
integer type:   CharacterData::{parse_integer::<T>, parse_float, parse_bool}   (autosar-data/src/chardata.rs)

What the contracts pin down (from the property's list of lexical forms) is the *dispatch*: which digits are handed to
which radix conversion, for every text:
    "0"                              -> zero
    0x / 0X  + digits                -> radix 16 on the text after the prefix
    0b / 0B  + digits                -> radix 2  on the text after the prefix
    0 + digits (no x/X/b/B second)   -> radix 8  on the text after the leading 0
    anything not starting with 0     -> radix 10 on the whole text (integers) / std's float parser (floats)
    UnsignedInteger(v)               -> v converted to the requested type; Float/Enum data -> nothing (integers, booleans)
    parse_bool                       -> Some(true) exactly for "true" | "1", Some(false) exactly for "false" | "0"
The conversions themselves are leaves: T::from_str_radix / u64::from_str_radix / str::parse::<f64> / `u64 as f64` of std
(uninterpreted here: `radix_spec`, `std_radix_u64`, `f64_of_text`, `u64_as_f64`); their exactness on short texts is what
the Kani harnesses int_*_len* / float_pref_len* and the native boundary batches check with the real std.

Rules: R30 `text == "lit"` -> vx_text_is; `X.strip_prefix("lit" | 'c')` -> vx_strip; `.and_then(|v| u64::from_str_radix(v, R).ok())`
-> vx_and_radix_u64; `T::from_str_radix(X, R).ok()` / `T::try_from(X).ok()` -> methods of the stand-in trait VxNum (the bound
`num_traits::Num + TryFrom<u64>` is replaced by it); `X as f64` -> vx_u64_as_f64; `text.parse().ok()` -> vx_parse_f64_opt;
the string `match` of parse_bool -> if-chain over vx_text_is.  String literals are turned into their ASCII bytes by the rule.
"""
import re

from vxlib.verusunit import Unit, FnSpec, _bytes_lit
from vxlib.rustsrc import Lost
from contracts import cmp

F = 'autosar-data/src/chardata.rs'
IMPL_CD = r'impl CharacterData'

SPEC = r'''
#[derive(Clone, Copy, PartialEq, Eq, Structural)]
pub struct EnumItem { pub id: u16 }
pub enum CharacterData { Enum(EnumItem), String(String), UnsignedInteger(u64), Float(f64) }

pub uninterp spec fn bytes_of(s: Seq<char>) -> Seq<u8>;                          // UTF-8 bytes of a text
pub uninterp spec fn std_radix_u64(b: Seq<u8>, radix: u32) -> Option<u64>;       // u64::from_str_radix(..).ok()
pub uninterp spec fn f64_of_text(s: Seq<char>) -> Option<f64>;                   // str::parse::<f64>().ok()
pub uninterp spec fn u64_as_f64(v: u64) -> f64;                                  // `v as f64`
pub open spec fn starts(b: Seq<u8>, lit: Seq<u8>) -> bool { b.len() >= lit.len() && (lit.len() > 0 ==> b[0] == lit[0]) && forall|k: int| 0 <= k < lit.len() ==> #[trigger] b[k] == lit[k] }
pub open spec fn is1(b: Seq<u8>, c0: u8) -> bool { b.len() == 1 && b[0] == c0 }
pub open spec fn starts1(b: Seq<u8>, c0: u8) -> bool { b.len() >= 1 && b[0] == c0 }
pub open spec fn starts2(b: Seq<u8>, c0: u8, c1: u8) -> bool { b.len() >= 2 && b[0] == c0 && b[1] == c1 }
pub open spec fn rest(b: Seq<u8>, n: int) -> Seq<u8> { b.subrange(n, b.len() as int) }
pub open spec fn is_text(b: Seq<u8>, lit: Seq<u8>) -> bool { b.len() == lit.len() && starts(b, lit) }

// stands for the bound `num_traits::Num + TryFrom<u64>` of parse_integer
pub trait VxNum: Sized {
    spec fn radix_spec(b: Seq<u8>, radix: u32) -> Option<Self>;    // T::from_str_radix(text, radix).ok()
    spec fn of_u64(v: u64) -> Option<Self>;                        // T::try_from(v).ok()
    fn vx_from_str_radix(s: &str, radix: u32) -> (r: Option<Self>) ensures r == Self::radix_spec(bytes_of(s@), radix);
    fn vx_try_from_u64(v: u64) -> (r: Option<Self>) ensures r == Self::of_u64(v);
}

#[verifier::external_body]
pub fn vx_text_is(text: &String, lit: &[u8]) -> (r: bool) ensures r == is_text(bytes_of(text@), lit@) { text.as_bytes() == lit }
#[verifier::external_body]
pub fn vx_strip<'a>(text: &'a String, lit: &[u8]) -> (r: Option<&'a str>)
    ensures match r {
        Some(t2) => starts(bytes_of(text@), lit@) && bytes_of(t2@) == rest(bytes_of(text@), lit@.len() as int),
        None => !starts(bytes_of(text@), lit@),
    }
{ unimplemented!() }
#[verifier::external_body]
pub fn vx_and_radix_u64(o: Option<&str>, radix: u32) -> (r: Option<u64>)
    ensures r == (match o { Some(t2) => std_radix_u64(bytes_of(t2@), radix), None => None })
{ unimplemented!() }
#[verifier::external_body]
pub fn vx_parse_f64_opt(text: &String) -> (r: Option<f64>) ensures r == f64_of_text(text@) { unimplemented!() }
#[verifier::external_body]
pub fn vx_u64_as_f64(v: u64) -> (r: f64) ensures r == u64_as_f64(v) { v as f64 }
'''

ASCII = lambda s: '&[' + ', '.join('%du8' % ord(c) for c in s) + ']'


def _lit(m_text):
    return ASCII(m_text)


R30 = [
    # parse_float: strip_prefix(..).and_then(|v| u64::from_str_radix(v, R).ok())
    (r'text\s*\.strip_prefix\((?:"([^"]*)"|\'(.)\')\)\s*\.and_then\(\|(\w+)\| u64::from_str_radix\(\3, (\d+)\)\.ok\(\)\)',
     lambda m: 'vx_and_radix_u64(vx_strip(text, %s), %s)' % (_lit(m.group(1) or m.group(2)), m.group(4)), 'R30'),
    (r'text\.strip_prefix\((?:"([^"]*)"|\'(.)\')\)', lambda m: 'vx_strip(text, %s)' % _lit(m.group(1) or m.group(2)), 'R30'),
    (r'\btext == "([^"]*)"', lambda m: 'vx_text_is(text, %s)' % _lit(m.group(1)), 'R30'),
    (r'T::from_str_radix\((\w+), (\d+)\)\.ok\(\)', lambda m: 'T::vx_from_str_radix(%s, %s)' % (m.group(1), m.group(2)), 'R30'),
    (r'T::try_from\(([^()]+)\)\.ok\(\)', lambda m: 'T::vx_try_from_u64(%s)' % m.group(1), 'R30'),
    (r'Some\(0f64\)', lambda m: 'Some(vx_u64_as_f64(0u64))', 'R30'),
    (r'Some\((\*?\w+) as f64\)', lambda m: 'Some(vx_u64_as_f64(%s))' % m.group(1), 'R30'),
    (r'text\.parse\(\)\.ok\(\)', lambda m: 'vx_parse_f64_opt(text)', 'R30'),
    (r'match text\.as_str\(\) \{\s*"true" \| "1" => Some\(true\),\s*"false" \| "0" => Some\(false\),\s*_ => None,\s*\}',
     lambda m: 'if vx_text_is(text, %s) || vx_text_is(text, %s) { Some(true) } else if vx_text_is(text, %s) || vx_text_is(text, %s) { Some(false) } else { None }'
     % (_lit('true'), _lit('1'), _lit('false'), _lit('0')), 'R30'),
]

B = 'bytes_of(t@)'


def make_unit(repo_dir):
    cmp.check_decls(repo_dir)
    pre = '*self matches CharacterData::String(t) ==> '
    int_ens = [
        pre + '(is1(%s, 48) ==> r == T::of_u64(0))' % B,
        pre + '((starts2(%s, 48, 120) || starts2(%s, 48, 88)) ==> r == T::radix_spec(rest(%s, 2), 16))' % (B, B, B),
        pre + '((starts2(%s, 48, 98) || starts2(%s, 48, 66)) ==> r == T::radix_spec(rest(%s, 2), 2))' % (B, B, B),
        pre + '(starts1(%s, 48) && %s.len() >= 2 && %s[1] != 120 && %s[1] != 88 && %s[1] != 98 && %s[1] != 66 ==> r == T::radix_spec(rest(%s, 1), 8))' % (B, B, B, B, B, B, B),
        pre + '(!starts1(%s, 48) ==> r == T::radix_spec(%s, 10))' % (B, B),
        '*self matches CharacterData::UnsignedInteger(v) ==> r == T::of_u64(v)',
        '(*self is Float || *self is Enum) ==> r is None',
    ]
    flt_ens = [
        pre + '(is1(%s, 48) ==> r == Some(u64_as_f64(0)))' % B,
        pre + '(starts2(%s, 48, 120) || starts2(%s, 48, 88)) && std_radix_u64(rest(%s, 2), 16) is Some ==> r == Some(u64_as_f64(std_radix_u64(rest(%s, 2), 16).unwrap()))' % (B, B, B, B),
        pre + '(starts2(%s, 48, 98) || starts2(%s, 48, 66)) && std_radix_u64(rest(%s, 2), 2) is Some ==> r == Some(u64_as_f64(std_radix_u64(rest(%s, 2), 2).unwrap()))' % (B, B, B, B),
        pre + '(starts1(%s, 48) && %s.len() >= 2 && %s[1] != 120 && %s[1] != 88 && %s[1] != 98 && %s[1] != 66 && std_radix_u64(rest(%s, 1), 8) is Some ==> r == Some(u64_as_f64(std_radix_u64(rest(%s, 1), 8).unwrap())))' % (B, B, B, B, B, B, B, B),
        pre + '(!starts1(%s, 48) ==> r == f64_of_text(t@))' % B,
        # fall-through: when no prefixed conversion applies (e.g. "0.5", "0e3"), the text goes to std's decimal conversion
        pre + '(!is1(%s, 48) && !((starts2(%s, 48, 120) || starts2(%s, 48, 88)) && std_radix_u64(rest(%s, 2), 16) is Some) && !((starts2(%s, 48, 98) || starts2(%s, 48, 66)) && std_radix_u64(rest(%s, 2), 2) is Some) && !(starts1(%s, 48) && std_radix_u64(rest(%s, 1), 8) is Some) ==> r == f64_of_text(t@))' % (B, B, B, B, B, B, B, B, B),
        '*self matches CharacterData::Float(v) ==> r == Some(v)',
        '*self matches CharacterData::UnsignedInteger(v) ==> r == Some(u64_as_f64(v))',
        '*self is Enum ==> r is None',
    ]
    T_, O_, F_, Z_ = (ASCII(x).replace('&[', 'seq![').replace('u8', 'u8') for x in ('true', '1', 'false', '0'))
    bool_ens = [
        pre + '(r == Some(true)) == (is_text(%s, %s) || is_text(%s, %s))' % (B, T_, B, O_),
        pre + '(r == Some(false)) == (is_text(%s, %s) || is_text(%s, %s))' % (B, F_, B, Z_),
        '!(*self is String) ==> r is None',
    ]
    fns = [
        FnSpec('parse_integer', F, impl=IMPL_CD, ret='r', body_sub=R30, sig_sub=[(r'<T: num_traits::Num \+ TryFrom<u64>>', '<T: VxNum>')], ensures=int_ens),
        FnSpec('parse_float', F, impl=IMPL_CD, ret='r', body_sub=R30, ensures=flt_ens),
        FnSpec('parse_bool', F, impl=IMPL_CD, ret='r', body_sub=R30, ensures=bool_ens,
               proofs=[dict(at='body_start', text='''proof {
    // the four literals differ in their first byte
    match self { CharacterData::String(t) => { let b = bytes_of(t@); if b.len() > 0 { assert(b[0] == b[0]); } } _ => {} }
    assert(seq![116u8, 114u8, 117u8, 101u8][0] == 116 && seq![102u8, 97u8, 108u8, 115u8, 101u8][0] == 102 && seq![49u8][0] == 49 && seq![48u8][0] == 48);
}''')]),
    ]
    return Unit(name='numtext', prop='C20', spec=SPEC, fns=fns, wrap={IMPL_CD: 'impl CharacterData'},
                dropped=['the bound `num_traits::Num + TryFrom<u64>` of parse_integer is replaced by the stand-in trait VxNum (its two conversions are leaves with uninterpreted specs)',
                         'string literals are turned into their ASCII bytes; EnumItem opaque; doc comments and #[must_use]'])
