"""C08 / unit `valueparse`: parser.rs::parse_character_data -- the value validation every attribute value and every block of
character data goes through -- together with the funnel it reports to (error, optional_error, check_version) and
trim_byte_string.  Contract, from the property ("a value that is too long, does not match its pattern or is not a number, an
enumeration value that is unknown or not available in the file's version ... is never accepted by strict loading"):

    strict mode and  r == Ok(v)   ==>   accepted(v, spec, file version)

where accepted() is the `valid()` of unit chardata for Enum / Pattern / UnsignedInteger / Float specs (kind matches; enum item
listed with a mask containing the file version; pattern text within max_length and accepted by its validator, stored verbatim)
and, for String specs, "v is a String" (their max_length is checked on the escaped text; no String spec of the tables has one).
Also: the mode flag is never changed, and nothing panics (every slice/unwrap is safe) for every input and spec.

Leaves (uninterpreted contracts): EnumItem::from_bytes (C18), the pattern validator behind check_fn (C19), str::from_utf8 /
String::from_utf8_lossy, str::parse::<u64/f64>, unescape_string (its contract is proved in unit escape; here only "returns a
text or an error").  Error payloads are irrelevant to the property: every `ArxmlParserError::Variant { .. }` literal becomes
the opaque `ArxmlParserError::VxOther(0)` (rule R36).

Rules R36: error struct literals -> opaque value; `E.map_err(|_| self.error(X))?` and `E.ok_or_else(|| self.error(X))?` ->
`match` with an early `return Err(self.error(X))`; `items.iter().find(..)` -> vx_find_item; `check_fn(b)` -> vx_call_check;
`std::str::from_utf8`, `String::from_utf8_lossy(..)[.into_owned()]`, `Cow::from`, `s.parse::<T>()`, float literal -> leaves.
"""
import os
import re

from vxlib.verusunit import Unit, FnSpec
from vxlib.rustsrc import Lost
from contracts import parser_funnel, lexer, trim, chardata

F = 'autosar-data/src/parser.rs'
IMPL_P = r"impl<'a>\s+ArxmlParser<'a>"

TYPES = r'''
pub struct PathBuf { pub opaque: u8 }
impl Clone for PathBuf {
    fn clone(&self) -> (r: Self) ensures r == *self { PathBuf { opaque: self.opaque } }
}
pub enum ArxmlLexerError { IncompleteData }
pub enum ArxmlParserError { AdditionalDataError, InvalidArxmlFileHeader, VxOther(u64) }
pub enum AutosarDataError {
    LexerError { filename: PathBuf, line: usize, source: ArxmlLexerError },
    ParserError { filename: PathBuf, line: usize, source: ArxmlParserError },
}
pub struct WeakElement { pub opaque: u8 }
#[derive(Clone, Copy)]
pub enum ElementName { Autosar, VxOther }

pub struct ArxmlParser<'a> {
    pub filename: PathBuf,
    pub line: usize,
    pub buffer: &'a [u8],
    pub fileversion: AutosarVersion,
    pub current_element: ElementName,
    pub strict: bool,
    pub version_compatibility: u32,
    pub identifiables: Vec<(String, WeakElement)>,
    pub references: Vec<(String, WeakElement)>,
    pub warnings: Vec<AutosarDataError>,
    pub standalone: Option<bool>,
}
impl<'a> ArxmlParser<'a> {
    pub open spec fn same_mode(&self, o: &Self) -> bool {
        self.strict == o.strict && self.line == o.line && self.filename == o.filename && self.buffer == o.buffer
        && self.fileversion == o.fileversion && self.current_element == o.current_element && self.standalone == o.standalone
        && self.identifiables == o.identifiables && self.references == o.references
    }
}
pub open spec fn err_line(e: AutosarDataError) -> usize {
    match e { AutosarDataError::LexerError { line, .. } => line, AutosarDataError::ParserError { line, .. } => line }
}
pub open spec fn parser_err(p: &ArxmlParser, err: ArxmlParserError) -> AutosarDataError {
    AutosarDataError::ParserError { filename: p.filename, line: p.line, source: err }
}

pub enum VxCow<'a> { Borrowed(&'a str), Owned(String) }
impl<'a> VxCow<'a> {
    #[verifier::external_body]
    pub fn into_owned(self) -> (r: String) { unimplemented!() }
}
pub struct Utf8Error { pub opaque: u8 }
#[verifier::external_body]
pub fn vx_enum_from_bytes(b: &[u8]) -> (r: Result<EnumItem, ()>) { unimplemented!() }
#[verifier::external_body]
pub fn vx_from_utf8(b: &[u8]) -> (r: Result<&str, Utf8Error>) ensures r matches Ok(s) ==> bytes_of(s@) == b@ { unimplemented!() }
#[verifier::external_body]
pub fn vx_lossy_owned(b: &[u8]) -> (r: String) { unimplemented!() }
#[verifier::external_body]
pub fn vx_lossy_cow(b: &[u8]) -> (r: VxCow<'_>) { unimplemented!() }
#[verifier::external_body]
pub fn vx_f64_zero() -> (r: f64) { 0.0 }
impl<'a> ArxmlParser<'a> {
    // contract proved in unit escape; here: returns a text or an error, never touches the mode
    #[verifier::external_body]
    pub fn unescape_string<'b>(&mut self, input: &'b VxCow<'b>) -> (r: Result<VxCow<'b>, AutosarDataError>)
        ensures final(self).strict == old(self).strict, final(self).fileversion == old(self).fileversion
    { unimplemented!() }
}

// what strict loading may accept
pub open spec fn accepted(value: CharacterData, spec: CharacterDataSpec, ver: u32) -> bool {
    match spec {
        CharacterDataSpec::String { .. } => value is String,
        _ => valid(value, spec, ver),
    }
}
'''

# order matters: the struct-literal rule runs first
R36 = [
    (r'ArxmlParserError::\w+ \{[^{}]*\}', lambda m: 'ArxmlParserError::VxOther(0)', 'R36'),
    (r'let (\w+) = EnumItem::from_bytes\((\w+)\)\.map_err\(\|_\| \{\s*self\.error\((ArxmlParserError::VxOther\(0\))\)\s*\}\)\?;',
     lambda m: 'let %s = match vx_enum_from_bytes(%s) { Ok(vx_v) => vx_v, Err(_) => { return Err(self.error(%s)); } };' % (m.group(1), m.group(2), m.group(3)), 'R36'),
    (r'let (\(_, \w+\)) = items\.iter\(\)\.find\(\|\((\w+), _\)\| \*\2 == (\w+)\)\.ok_or_else\(\|\| \{\s*self\.error\((ArxmlParserError::VxOther\(0\))\)\s*\}\)\?;',
     lambda m: 'let %s = match vx_find_item(items, %s) { Some(vx_v) => vx_v, None => { return Err(self.error(%s)); } };' % (m.group(1), m.group(3), m.group(4)), 'R36'),
    (r'let (\w+) = std::str::from_utf8\((\w+)\)\s*\.map_err\(\|err\| self\.error\((ArxmlParserError::VxOther\(0\))\)\)\?;',
     lambda m: 'let %s = match vx_from_utf8(%s) { Ok(vx_v) => vx_v, Err(_) => { return Err(self.error(%s)); } };' % (m.group(1), m.group(2), m.group(3)), 'R36'),
    (r'std::str::from_utf8\((\w+)\)', lambda m: 'vx_from_utf8(%s)' % m.group(1), 'R36'),
    (r'String::from_utf8_lossy\((\w+)\)\.into_owned\(\)', lambda m: 'vx_lossy_owned(%s)' % m.group(1), 'R36'),
    (r'String::from_utf8_lossy\((\w+)\)', lambda m: 'vx_lossy_cow(%s)' % m.group(1), 'R36'),
    (r'Cow::from\((\w+)\)', lambda m: 'VxCow::Borrowed(%s)' % m.group(1), 'R36'),
    (r'!check_fn\((\w+)\)', lambda m: '!vx_call_check(check_fn, %s)' % m.group(1), 'R36'),
    (r'(\w+)\.parse::<u64>\(\)', lambda m: 'vx_parse_u64(%s)' % m.group(1), 'R36'),
    (r'(\w+)\.parse::<f64>\(\)', lambda m: 'vx_parse_f64(%s)' % m.group(1), 'R36'),
    (r'\b0\.0\b', lambda m: 'vx_f64_zero()', 'R36'),
]


def make_unit(repo_dir):
    parser_funnel.check_decls(repo_dir)
    chardata.check_decls(repo_dir)
    cd_spec = chardata.SPEC % dict(version_enum=parser_funnel.version_enum(repo_dir))
    ff = {f.name: f for f in parser_funnel.fns() if f.name in ('error', 'optional_error', 'check_version')}
    for f in ff.values():
        f.label = f.name
    ff['error'].label = 'ArxmlParser.error'
    fns = [copy_fn for copy_fn in trim.UNIT.fns] + [ff['error'], ff['optional_error'], ff['check_version'],
           FnSpec('parse_character_data', F, impl=IMPL_P, ret='r', body_sub=R36,
                  ensures=['final(self).strict == old(self).strict && final(self).fileversion == old(self).fileversion',
                           'old(self).strict ==> (match r { Ok(v) => accepted(v, *character_data_spec, old(self).fileversion as u32), Err(_) => true })'],
                  proofs=[dict(at='body_start', text=chardata.BV),
                          dict(after=r'let trimmed_input = trim_byte_string\(input\);', text='proof { assert(trimmed_input@.len() == trimmed_input.len() && trimmed_input.len() <= usize::MAX); }')])]
    # trim first (free function), then the impl block
    u = Unit(name='valueparse', prop='C08', spec=TYPES + cd_spec.replace('pub enum CharacterData {', 'pub enum CharacterData {', 1) + trim.SPEC, fns=fns,
             wrap={IMPL_P: "impl<'a> ArxmlParser<'a>"},
             dropped=['error payloads: every `ArxmlParserError::Variant { .. }` literal is the opaque ArxmlParserError::VxOther(0) (rule R36); ArxmlParser has its real field list, its element-graph field types are opaque',
                      'leaves: EnumItem::from_bytes, pattern validator call, str::from_utf8 / from_utf8_lossy, str::parse, unescape_string (proved in unit escape)'])
    return u
