"""C02 + C08 / parser part of unit `lexer`: the four functions through which every parser error and warning is made.

  ArxmlParser::new, next, error, optional_error, check_version   (autosar-data/src/parser.rs)

Contracts (from the property statements):
  C02  "every tokenizer or parser error names a line between 1 and the number of lines":
       * `next` is the only writer of `self.line` (frame scan, props/C02.py) and leaves it at a line returned by the
         lexer, for which the lexer unit proves 1 <= l <= 1 + newlines(buffer);
       * `error` / `optional_error` stamp exactly `self.line` on what they build.
  C08  the single funnel: strict => Err(exactly the given error at the current line), warnings untouched;
       lenient => Ok and warnings == old ++ [that error]; mode, line, everything else unchanged;
       check_version narrows version_compatibility by the mask and goes through the funnel iff the file version is
       not in the mask.
These are proved by Verus for *every* error payload (ArxmlParserError is opaque), complementing the Kani harnesses
funnel_* which enumerate payload-free variants.

Types: ArxmlParser is re-declared with its real field list (checked by check_decls); WeakElement, String payloads,
ElementName are opaque stand-ins; AutosarVersion is the real enum text (discriminants included) copied from
autosarversion.rs on every run.
"""
import os
import re

from vxlib.verusunit import FnSpec
from vxlib.rustsrc import Source, Lost

F = 'autosar-data/src/parser.rs'
IMPL_P = r"impl<'a>\s+ArxmlParser<'a>"

TYPES_P = r'''
pub struct WeakElement { pub opaque: u8 }
#[derive(Clone, Copy)]
pub enum ElementName { Autosar, VxOther }

%(version_enum)s

pub struct ArxmlParser<'a> {
    pub filename: PathBuf,
    pub line: usize,
    pub buffer: &'a [u8],
    pub fileversion: AutosarVersion,
    pub current_element: ElementName,
    pub strict: bool,
    pub version_compatibility: u32,
    pub identifiables: Vec<(String, WeakElement)>,
    pub references: Vec<(String, WeakElement)>,
    pub warnings: Vec<AutosarDataError>,
    pub standalone: Option<bool>,
}

impl<'a> ArxmlParser<'a> {
    // everything the funnel must not touch
    pub open spec fn same_mode(&self, o: &Self) -> bool {
        self.strict == o.strict && self.line == o.line && self.filename == o.filename && self.buffer == o.buffer
        && self.fileversion == o.fileversion && self.current_element == o.current_element && self.standalone == o.standalone
        && self.identifiables == o.identifiables && self.references == o.references
    }
}

// callees of check_arxml_header that are not under contract here (C18 covers ElementName::from_bytes; parse_attribute_text and
// parse_file_header are string-layer / version code): arbitrary results, no panic assumed
pub struct Attribute { pub opaque: u8 }
#[derive(Clone, Copy)]
pub struct ElementType { pub opaque: u8 }
pub struct SmallVecAttr { pub opaque: u8 }
impl SmallVecAttr {
    #[verifier::external_body]
    pub fn new() -> (r: Self) { unimplemented!() }
}
#[verifier::external_body]
pub fn vx_root_type() -> ElementType { unimplemented!() }
#[verifier::external_body]
pub fn vx_pathbuf_none() -> PathBuf { unimplemented!() }
impl ElementName {
    #[verifier::external_body]
    pub fn from_bytes(b: &[u8]) -> (r: Result<ElementName, ()>) { unimplemented!() }
}
impl<'a> ArxmlParser<'a> {
    // parts of parse_attribute_text that are abstracted as whole blocks (they contain no index arithmetic): looking an
    // attribute up / validating its value / recording it; the final "anything left?" finding; the required-attributes loop
    #[verifier::external_body]
    pub fn vx_attribute(&mut self, elemtype: ElementType, name_part: &[u8], value_part: &[u8], attributes: &mut SmallVecAttr) -> (r: Result<(), AutosarDataError>) { unimplemented!() }
    #[verifier::external_body]
    pub fn vx_attr_value_error(&mut self, attributes_text: &[u8]) -> (r: Result<(), AutosarDataError>) { unimplemented!() }
    #[verifier::external_body]
    pub fn vx_required_attributes(&mut self, elemtype: ElementType, attributes: &SmallVecAttr) -> (r: Result<(), AutosarDataError>) { unimplemented!() }
    #[verifier::external_body]
    pub fn parse_file_header(&mut self, attributes: &SmallVecAttr) -> (r: Result<(), AutosarDataError>) { unimplemented!() }
}

pub open spec fn parser_err(p: &ArxmlParser, err: ArxmlParserError) -> AutosarDataError {
    AutosarDataError::ParserError { filename: p.filename, line: p.line, source: err }
}
'''

FUNNEL_POST = [
    'final(self).same_mode(old(self))',
    'old(self).strict ==> r == Err::<(), AutosarDataError>(parser_err(old(self), %(e)s)) && final(self).warnings@ == old(self).warnings@',
    '!old(self).strict ==> r.is_ok() && final(self).warnings@ == old(self).warnings@.push(parser_err(old(self), %(e)s))',
]


def fns():
    return [
        FnSpec('new', F, impl=IMPL_P, ret='r', label='ArxmlParser.new', sig_sub=[(r'pub\(crate\) fn', 'pub fn')],
               ensures=['r.line == 1', 'r.strict == strict', 'r.warnings@.len() == 0', 'r.buffer == buffer', 'r.version_compatibility == u32::MAX']),
        FnSpec('next', F, impl=IMPL_P, ret='r', label='ArxmlParser.next',
               sig_sub=[(r"lexer: &'b mut ArxmlLexer\)", "lexer: &mut ArxmlLexer<'b>)")],
               requires=['old(lexer).inv()'],
               ensures=['final(lexer).inv() && final(lexer).same_buf(old(lexer))',
                        'final(lexer).measure() <= old(lexer).measure() && final(lexer).measure() >= 0',
                        'r is Ok ==> 1 <= final(self).line <= 1 + nl(final(lexer).buffer@)',
                        'r matches Err(e) ==> 1 <= err_line(e) <= 1 + nl(final(lexer).buffer@) && final(self).line == old(self).line',
                        'r matches Ok(ev) ==> (ev is EndOfFile || final(lexer).measure() < old(lexer).measure())',
                        'final(self).strict == old(self).strict && final(self).warnings == old(self).warnings && final(self).version_compatibility == old(self).version_compatibility',
                        'final(self).fileversion == old(self).fileversion && final(self).current_element == old(self).current_element']),
        FnSpec('error', F, impl=IMPL_P, ret='r', label='ArxmlParser.error', sig_sub=[(r'pub\(crate\) fn', 'pub fn')],
               ensures=['r == parser_err(self, err)', 'err_line(r) == self.line']),
        FnSpec('optional_error', F, impl=IMPL_P, ret='r', sig_sub=[(r'pub\(crate\) fn', 'pub fn')],
               ensures=[c % dict(e='err') for c in FUNNEL_POST] + ['final(self).version_compatibility == old(self).version_compatibility']),
        FnSpec('check_version', F, impl=IMPL_P, ret='r',
               ensures=['final(self).same_mode(old(self))',
                        'final(self).version_compatibility == old(self).version_compatibility & item_version',
                        '(old(self).fileversion as u32) & item_version != 0 ==> r.is_ok() && final(self).warnings@ == old(self).warnings@',
                        '(old(self).fileversion as u32) & item_version == 0 && old(self).strict ==> r == Err::<(), AutosarDataError>(parser_err(old(self), error)) && final(self).warnings@ == old(self).warnings@',
                        '(old(self).fileversion as u32) & item_version == 0 && !old(self).strict ==> r.is_ok() && final(self).warnings@ == old(self).warnings@.push(parser_err(old(self), error))']),
        FnSpec('verify_end_of_input', F, impl=IMPL_P, ret='r',
               requires=['old(lexer).inv()'],
               ensures=['final(lexer).inv() && final(lexer).same_buf(old(lexer))', 'final(self).same_mode(old(self))',
                        # C08: data after the root element is never accepted by strict loading -- in strict mode, success means the
                        # lexer ran to the end of the buffer without meeting another token
                        'old(self).strict && r is Ok ==> final(lexer).bufpos == final(lexer).buffer.len() && final(self).warnings@ == old(self).warnings@',
                        '!old(self).strict && r is Ok ==> final(self).warnings@ == old(self).warnings@ || final(self).warnings@ == old(self).warnings@.push(parser_err(old(self), ArxmlParserError::AdditionalDataError))']),
        FnSpec('parse_attribute_text', F, impl=IMPL_P, ret='r', pre=pre_attribute_text, body_sub=R35,
               sig_sub=[(r'Result<SmallVec<\[Attribute; 1\]>, AutosarDataError>', 'Result<SmallVecAttr, AutosarDataError>')],
               loops={0: dict(invariant=['rem.len() <= attributes_text.len()'], decreases='rem.len()'),
                      1: dict(invariant=['nextattr_start <= rem.len()', 'endquote_pos < rem.len()'], decreases='rem.len() - nextattr_start')}),
        FnSpec('check_arxml_header', F, impl=IMPL_P, ret='r', sig_sub=[(r'pub\(crate\) fn', 'pub fn')],
               body_sub=[(r'while let (Ok\(ArxmlEvent::Comment\(\.\.\)\)) = (\w+) \{', lambda m: 'while matches!(%s, %s) {' % (m.group(2), m.group(1)), 'R29'),
                         (r'ElementType::ROOT', lambda m: 'vx_root_type()', 'R29')],
               requires=['old(self).buffer.len() <= isize::MAX'],
               loops={0: dict(invariant=['lexer.inv()'],
                              decreases='lexer.measure() + (if matches!(arxmlevent, Ok(ArxmlEvent::Comment(..))) { 1int } else { 0int })')}),
        # the public header probe (lib.rs): a parser in lenient mode on the buffer, then check_arxml_header -- total for every buffer
        FnSpec('check_buffer', 'autosar-data/src/lib.rs', ret='r', requires=['buffer.len() <= isize::MAX'],
               body_sub=[(r'PathBuf::from\("none"\)', lambda m: 'vx_pathbuf_none()', 'R29')]),
    ]


def _match_brace(text, i):
    depth = 0
    k = i
    while k < len(text):
        if text[k] == '{':
            depth += 1
        elif text[k] == '}':
            depth -= 1
            if depth == 0:
                return k
        k += 1
    raise Lost('unbalanced braces')


def pre_attribute_text(text):
    """Block-level abstraction for parse_attribute_text (stated in the evidence): the attribute lookup/validation block
    `if let Ok(attr_name) = AttributeName::from_bytes(..) {..} else {..}` and the closing `for (name, _ctype, required) in
    elemtype.attribute_spec_iter() {..}` are replaced by calls with arbitrary results.  Fails closed if either block indexes a
    slice (then it is not free of the arithmetic this unit is about)."""
    out = []
    a = text.find('if let Ok(attr_name) = AttributeName::from_bytes(attr_name_part) {')
    if a < 0:
        raise Lost('parse_attribute_text: attribute block not found')
    e1 = _match_brace(text, text.index('{', a))
    m = re.match(r'\s*else\s*\{', text[e1 + 1:])
    if not m:
        raise Lost('parse_attribute_text: else branch of the attribute block not found')
    e2 = _match_brace(text, e1 + 1 + m.end() - 1)
    block = text[a:e2 + 1]
    if re.search(r'\w\[[^\]]*\.\.|\w\[\w+( [+-] \d+)?\]', block):
        raise Lost('parse_attribute_text: the abstracted attribute block indexes a slice')
    text = text[:a] + 'self.vx_attribute(elemtype, attr_name_part, attr_value_part, &mut attributes)?;' + text[e2 + 1:]
    out.append(('R35:attribute-block', 1))
    b = text.find('for (name, _ctype, required) in elemtype.attribute_spec_iter() {')
    if b < 0:
        raise Lost('parse_attribute_text: required-attributes loop not found')
    e3 = _match_brace(text, text.index('{', b))
    if re.search(r'\w\[[^\]]*\.\.|\w\[\w+( [+-] \d+)?\]', text[b:e3 + 1]):
        raise Lost('parse_attribute_text: the abstracted loop indexes a slice')
    text = text[:b] + 'self.vx_required_attributes(elemtype, &attributes)?;' + text[e3 + 1:]
    out.append(('R35:required-attributes-loop', 1))
    return text, out


R35 = [
    (r'SmallVec::new\(\)', lambda m: 'SmallVecAttr::new()', 'R35'),
    (r"while let Some\((\w+)\) = (\w+)\.iter\(\)\.position\(\|c\| \*c == (b'.')\) \{", lambda m: 'loop { let %s = match vx_position_eq(%s, %s) { Some(vx_p) => vx_p, None => { break; } };' % (m.group(1), m.group(2), m.group(3)), 'R35'),
    (r'let Some\((\w+)\) = (\w+)\.iter\(\)\.position\(\|c\| c == &(\w+)\) else \{[^}]*break;\s*\};', lambda m: 'let %s = match vx_position_eq(%s, %s) { Some(vx_p) => vx_p, None => { break; } };' % (m.group(1), m.group(2), m.group(3)), 'R35'),
    (r'self\.optional_error\(ArxmlParserError::AttributeValueError \{[^}]*\}\)\?;', lambda m: 'self.vx_attr_value_error(attributes_text)?;', 'R35'),
    (r'!(\w+)\.is_empty\(\)', lambda m: '!(%s.len() == 0)' % m.group(1), 'R16'),
]


def version_enum(repo_dir):
    src = Source(os.path.join(repo_dir, 'autosar-data-specification/src/autosarversion.rs'))
    s, o, c = src.find_block(r'pub enum AutosarVersion')
    body = re.sub(r'^\s*///.*\n', '', src.text[o + 1:c], flags=re.M)
    if not re.fullmatch(r'(\s*\w+\s*=\s*0x[0-9a-fA-F]+\s*,)+\s*', body):
        raise Lost('enum AutosarVersion: body is not a list of `Name = 0x..,` items')
    return '#[derive(Clone, Copy)]\n#[allow(non_camel_case_types)]\npub enum AutosarVersion {%s}' % body


def types(repo_dir):
    return TYPES_P % dict(version_enum=version_enum(repo_dir))


def check_decls(repo_dir):
    src = Source(os.path.join(repo_dir, F))
    s, o, c = src.find_block(r'struct ArxmlParser<')
    real = re.sub(r'\s+', ' ', re.sub(r'pub\(crate\)\s+', '', src.text[o + 1:c])).strip()
    want = ("filename: PathBuf, line: usize, buffer: &'a [u8], fileversion: AutosarVersion, current_element: ElementName, strict: bool, "
            "version_compatibility: u32, identifiables: Vec<(String, WeakElement)>, references: Vec<(String, WeakElement)>, "
            "warnings: Vec<AutosarDataError>, standalone: Option<bool>,")
    if real != want:
        raise Lost('struct ArxmlParser changed: %r' % real)
    lib = Source(os.path.join(repo_dir, 'autosar-data/src/lib.rs'))
    if not re.search(r'ParserError\s*\{[^}]*filename:\s*PathBuf,[^}]*line:\s*usize,[^}]*source:\s*ArxmlParserError,\s*\}', lib.text, re.S):
        raise Lost('AutosarDataError::ParserError changed')


def extend(unit, repo_dir):
    """lexer unit + parser funnel"""
    unit.spec = unit.spec + types(repo_dir)
    unit.fns = list(unit.fns) + fns()
    unit.wrap = dict(unit.wrap)
    unit.wrap[IMPL_P] = "impl<'a> ArxmlParser<'a>"
    unit.dropped = list(unit.dropped) + [
        'ArxmlParser: real field list; WeakElement/ElementName/ArxmlParserError are opaque stand-ins (the funnel never inspects them); AutosarVersion is the real enum text',
        'PathBuf::clone is specified to return an equal value',
        'parse_attribute_text: the attribute lookup/validation block and the required-attributes loop (no index arithmetic; checked) are replaced by calls with arbitrary results (rule R35); SmallVec is an opaque stand-in -- what is proved is the slicing arithmetic and termination of the splitting loops for every byte string']
    return unit


def frame_scan_line(ctx, repo_dir):
    """Frame conditions that turn the contracts above into "every parser error/warning names a line in range":
       (L1) the parser's `line` field is written only in `new` (to 1) and in `next` (to the lexer's line);
       (L2) AutosarDataError::ParserError values are built only inside `error` and `optional_error`.
    A failed frame condition is not a violation by itself (the new writer may well be right): it makes the argument
    inapplicable -> UNDECIDED; the API-level line check (bounded) is what can turn it into a replayable violation."""
    from vxlib.common import Obligation
    src = Source(os.path.join(repo_dir, F))
    i = src.text.find('#[cfg(test)]')
    end = i if i >= 0 else len(src.text)
    code = ''.join(c if src.mask[k] else ' ' for k, c in enumerate(src.text[:end]))
    s, o, c = src.impl_block(IMPL_P)
    f_new = src.find_fn('new', within=(o, c))
    f_next = src.find_fn('next', within=(o, c))
    f_err = src.find_fn('error', within=(o, c))
    f_oe = src.find_fn('optional_error', within=(o, c))

    def inside(pos, *fs):
        return any(f['start'] <= pos <= f['end'] for f in fs)

    def where(pos):
        return '%s:%d: %s' % (F, src.line_of(pos), src.text.split('\n')[src.line_of(pos) - 1].strip())

    bad1 = [m.start() for m in re.finditer(r'\bself\s*\.\s*line\s*(=[^=]|\+=|-=|\*=)|&mut\s+self\s*\.\s*line\b', code) if not inside(m.start(), f_next)]
    bad1 += [m.start() for m in re.finditer(r'\bline\s*:', code[o:c]) if False]
    bad2 = [m.start() for m in re.finditer(r'AutosarDataError\s*::\s*ParserError\s*\{', code) if not inside(m.start(), f_err, f_oe)
            and not re.search(r'(if let|while let|matches!\s*\(|=>)[^\n;]*$', code[code.rfind('\n', 0, m.start()) + 1:m.start()])]
    for name, bad, good in (('frame/parser-line-written-only-in-next', bad1, '`self.line` of ArxmlParser is assigned only in next() (from the lexer) and initialised in new()'),
                            ('frame/ParserError-built-only-in-error-and-optional_error', bad2, 'AutosarDataError::ParserError is constructed only in error() and optional_error(), which stamp self.line')):
        if not bad:
            ctx.add(Obligation(ctx.prop, name, 'syntactic-scan', 'complete', 'discharged', detail=good))
        else:
            ctx.add(Obligation(ctx.prop, name, 'syntactic-scan', 'complete', 'undecided', detail='frame condition does not hold textually: ' + ' | '.join(where(p) for p in bad[:5])))
            ctx.undecided.append('%s: %s' % (name, where(bad[0])))
