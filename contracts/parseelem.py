"""C08 (+C02) / unit `parseelem`: ArxmlParser::parse_element (parser.rs) -- the recursive descent that calls the element-structure checks.

What is proved on the real text (loop, match arms, early returns, the order and the arguments of the calls), for every token stream the
lexer contract allows and any table contents:

  strict mode and Ok(e)  ==>
      * e has the name and type of the raw element passed in
      * every child element of e is listed for the file version under e's type                       (find_element_in_spec_checked is
        called for every start tag, with the parent's type)
      * no child element whose (version-specific) listing is single-occurrence inside a Sequence/Choice occurs twice
                                                                                                    (check_multiplicity is called with the
        index list just found whenever the element already has content -- this is the call site seeded change C08-e broke)
      * no two adjacent element children (only character data between them) are different alternatives of a Choice group
                                                                                                    (check_element_conflict is called with the
        index list of the previous element child)
      * if e's type is identifiable in the file version, e has a SHORT-NAME child
      * e has character data only if its type has a character-data spec
  both modes: `strict` and the file version are unchanged; the lexer invariant is kept
  termination (C02 "never hangs"): the recursion and the loop decrease the lexer's measure (every iteration consumes a token)

Callees are leaves carrying the contracts proved on their real text in other units (vxlib.verusunit.leaf_decl): ArxmlParser::next, error,
optional_error (unit lexer), find_element_in_spec_checked, check_element_conflict, check_multiplicity (unit elemcheck),
parse_character_data (unit valueparse; only its frame clause is used), chardata_spec, is_ref, is_named_in_version (unit lookups).  The
vocabulary of the lexer contract (inv, measure, same_buf, nl) is uninterpreted here -- a weaker reading of the same clauses.
One frame fact is ASSUMED: parse_character_data leaves `fileversion` unchanged (its own unit proves this for `strict` only); justified by the syntactic frame scan of C08 (`strict` is
assigned only in new, `fileversion` only in new / parse_file_header).

The element graph: `raw_element.wrap()` + the write guard are replaced by working on the ElementRaw value itself and wrapping it at the
end (vx_wrap: the handle's name/type/content are those of the value); ElementRaw is {elemname, elemtype, content: Vec, attributes,
comment}; the path bookkeeping for SHORT-NAME and the reference registration are block-level leaves (vx_register_name /
vx_register_reference, rule R42) that touch only `identifiables` / `references`.
"""
import copy
import os
import re

from vxlib.verusunit import Unit, FnSpec
from vxlib.rustsrc import Source, Lost
from contracts import parser_funnel, lookups, elemcheck, valueparse, lexer

F = 'autosar-data/src/parser.rs'
IMPL_P = r"impl<'a>\s+ArxmlParser<'a>"

TYPES = r'''
pub enum ArxmlEvent<'a> {
    ArxmlHeader(Option<bool>),
    BeginElement(&'a [u8], &'a [u8]),
    EndElement(&'a [u8]),
    Characters(&'a [u8]),
    Comment(&'a [u8]),
    EndOfFile,
}
pub struct ArxmlLexer<'a> { pub buffer: &'a [u8], pub bufpos: usize, pub opaque: u64 }
// vocabulary of the lexer contract (defined in unit lexer): uninterpreted here
pub uninterp spec fn nl(s: Seq<u8>) -> nat;
impl<'a> ArxmlLexer<'a> {
    pub uninterp spec fn inv(&self) -> bool;
    pub uninterp spec fn measure(&self) -> int;
    pub uninterp spec fn same_buf(&self, o: &Self) -> bool;
}

#[derive(Clone, Copy)]
pub struct Element { pub opaque: u64 }
pub struct CharacterData { pub opaque: u64 }
pub enum ElementContent { Element(Element), CharacterData(CharacterData) }
pub struct Attribute { pub attrname: AttributeName, pub content: CharacterData }
pub struct VxPath { pub opaque: u8 }
pub uninterp spec fn name_of(e: Element) -> ElementName;
pub uninterp spec fn type_of(e: Element) -> ElementType;
pub uninterp spec fn content_of(e: Element) -> Seq<ElementContent>;

impl ElementName {
    #[verifier::external_body]
    pub fn from_bytes(b: &[u8]) -> (r: Result<ElementName, ()>) { unimplemented!() }
}
#[verifier::external_body]
pub fn vx_new_weak() -> (r: WeakElement) { unimplemented!() }
// `raw_element.wrap()` ... `Ok(wrapped_element.clone())`: the handle stands for the value that was built
#[verifier::external_body]
pub fn vx_wrap(element: ElementRaw, weak: &WeakElement) -> (r: Element)
    ensures name_of(r) == element.elemname, type_of(r) == element.elemtype, content_of(r) == element.content@
{ unimplemented!() }
#[verifier::external_body]
pub fn vx_path_empty() -> (r: VxPath) { unimplemented!() }
// ElementType::ROOT lies inside the tables (closed fact, part of `ground lib tables_modes`)
#[verifier::external_body]
pub fn vx_root_type() -> (r: ElementType) ensures r.typ < n_dt() { unimplemented!() }
impl<'a> ArxmlParser<'a> {
    // parse_file_header sets the file version from the schema location; `strict` is not touched (frame scan F4)
    #[verifier::external_body]
    pub fn parse_file_header(&mut self, attributes: &Vec<Attribute>) -> (r: Result<(), AutosarDataError>)
        ensures final(self).strict == old(self).strict
    { unimplemented!() }
}
#[verifier::external_body]
pub fn vx_path_clone(p: &VxPath) -> (r: VxPath) { unimplemented!() }
#[verifier::external_body]
pub fn vx_comment(b: &[u8]) -> (r: Option<String>) { unimplemented!() }

pub open spec fn elem_name(c: ElementContent) -> Option<ElementName> {
    match c { ElementContent::Element(e) => Some(name_of(e)), ElementContent::CharacterData(_) => None }
}
pub open spec fn has_child_named(e: ElementRaw, n: ElementName) -> bool {
    exists|i: int| 0 <= i < e.content@.len() && elem_name(#[trigger] e.content@[i]) == Some(n)
}
#[verifier::external_body]
pub fn vx_has_child_named(e: &ElementRaw, n: ElementName) -> (r: bool) ensures r == has_child_named(*e, n) { unimplemented!() }

impl<'a> ArxmlParser<'a> {
    // everything but the two index vectors
    pub open spec fn same_core(&self, o: &Self) -> bool {
        self.strict == o.strict && self.fileversion == o.fileversion
    }
    // rule R42: `path` bookkeeping after a SHORT-NAME / registration of a reference: only identifiables / references are touched
    #[verifier::external_body]
    pub fn vx_register_name(&mut self, sub_element: &Element, path: &mut VxPath, weak: &WeakElement)
        ensures final(self).same_core(old(self)), final(self).warnings == old(self).warnings, final(self).line == old(self).line
    { unimplemented!() }
    #[verifier::external_body]
    pub fn vx_register_reference(&mut self, value: &CharacterData, weak: &WeakElement)
        ensures final(self).same_core(old(self)), final(self).warnings == old(self).warnings, final(self).line == old(self).line
    { unimplemented!() }
}

// ---- what strict loading guarantees about one element
pub open spec fn limited_name(t: int, n: ElementName, v: u32) -> bool {
    find_from(t, 0, n, v) matches Some((_, p)) && mult_limited(t, p)
}
pub open spec fn node_ok(c: Seq<ElementContent>, t: ElementType, v: u32) -> bool {
    // every child element is listed for the file version
    &&& forall|i: int| 0 <= i < c.len() && elem_name(#[trigger] c[i]) is Some ==> find_from(t.typ as int, 0, elem_name(c[i]).unwrap(), v) is Some
    // no repeated single-occurrence child
    &&& forall|i: int, j: int| 0 <= i < j < c.len() && elem_name(#[trigger] c[i]) is Some && elem_name(c[i]) == elem_name(#[trigger] c[j]) ==> !limited_name(t.typ as int, elem_name(c[i]).unwrap(), v)
    // character data only where the type has a character-data spec
    &&& (exists|i: int| 0 <= i < c.len() && #[trigger] c[i] is CharacterData) ==> t_dt(t.typ as int).character_data is Some
}
// index list of an element child under type t in version v
pub open spec fn idx_of(c: ElementContent, t: int, v: u32) -> Seq<usize> {
    match elem_name(c) { Some(n) => match find_from(t, 0, n, v) { Some((_, p)) => p, None => Seq::empty() }, None => Seq::empty() }
}
pub open spec fn choice_conflict(t: int, a: Seq<usize>, b: Seq<usize>) -> bool {
    a.len() > 0 && a != b && t_dt(common_group(t, a, b)).mode == ContentMode::Choice
}
// i < j are element children with only character data between them
pub open spec fn adjacent_elems(c: Seq<ElementContent>, i: int, j: int) -> bool {
    0 <= i < j < c.len() && elem_name(c[i]) is Some && elem_name(c[j]) is Some && forall|k: int| i < k < j ==> elem_name(#[trigger] c[k]) is None
}
// "two adjacent alternatives of an exclusive choice" do not occur
pub open spec fn choice_ok(c: Seq<ElementContent>, t: ElementType, v: u32) -> bool {
    forall|i: int, j: int| #[trigger] adjacent_elems(c, i, j) ==> !choice_conflict(t.typ as int, idx_of(c[i], t.typ as int, v), idx_of(c[j], t.typ as int, v))
}
// the parser's `elem_idx` is the index list of the last element child (empty before the first one)
pub open spec fn last_elem_is(c: Seq<ElementContent>, t: int, v: u32, last: int, elem_idx: Seq<usize>) -> bool {
    &&& -1 <= last < c.len()
    &&& forall|k: int| last < k < c.len() ==> elem_name(#[trigger] c[k]) is None
    &&& (last >= 0 ==> elem_name(c[last]) is Some && elem_idx == idx_of(c[last], t, v))
    &&& (last < 0 ==> elem_idx.len() == 0)
}
pub open spec fn named_ok(c: Seq<ElementContent>, t: ElementType, v: u32) -> bool {
    (sn_mask(t.typ as int) matches Some(m) && m & v != 0) ==> exists|i: int| 0 <= i < c.len() && elem_name(#[trigger] c[i]) == Some(ElementName::ShortName)
}
'''

ELEMENTRAW = "pub struct ElementRaw { pub elemname: ElementName, pub elemtype: ElementType, pub content: Vec<ElementContent>, pub attributes: Vec<Attribute>, pub comment: Option<String> }"

NEW_ELEMENT = (r'let new_element = ElementRaw \{\s*parent: ElementOrModel::Element\(wrapped_element\.downgrade\(\)\),\s*elemname: name,\s*elemtype: sub_elemtype,\s*content: SmallVec::new\(\),\s*'
               r'attributes: self\.parse_attribute_text\(sub_elemtype, attr_text\)\?,\s*file_membership: HashSet::with_capacity\(0\),\s*comment: stored_comment,\s*\};')
NAME_BLOCK = (r'let sub_element_inner = sub_element\.0\.read\(\);\s*if let Some\(ElementContent::CharacterData\(CharacterData::String\(name_string\)\)\) =\s*sub_element_inner\.content\.first\(\)\s*\{'
              r'\s*let mut new_path = String::with_capacity\(path\.len\(\) \+ name_string\.len\(\) \+ 1\);\s*new_path\.push_str\(&path\);\s*new_path\.push\(\'/\'\);\s*new_path\.push_str\(name_string\);'
              r'\s*path = Cow::from\(new_path\.clone\(\)\);\s*self\.identifiables\.push\(\(new_path, wrapped_element\.downgrade\(\)\)\);\s*\}')
REF_BLOCK = (r'if let CharacterData::String\(refpath\) = &value \{\s*self\.references\.push\(\(refpath\.to_owned\(\), wrapped_element\.downgrade\(\)\)\);\s*\}')

ROOT_ELEMENT = (r'let new_element = ElementRaw \{\s*parent: ElementOrModel::None,\s*elemname: ElementName::Autosar,\s*elemtype: ElementType::ROOT,\s*content: SmallVec::new\(\),\s*attributes,\s*'
                r'file_membership: HashSet::with_capacity\(0\),\s*comment: stored_comment,\s*\};')
R43 = [
    (r'ArxmlParserError::\w+ \{[^{}]*\}', lambda m: 'ArxmlParserError::VxOther(0)', 'R36'),
    (ROOT_ELEMENT, lambda m: 'let new_element = ElementRaw { elemname: ElementName::Autosar, elemtype: vx_root_type(), content: Vec::new(), attributes, comment: stored_comment };', 'R43'),
    (r'ElementType::ROOT', lambda m: 'vx_root_type()', 'R29'),
    (r'Cow::from\(""\)', lambda m: 'vx_path_empty()', 'R43'),
    (r'Some\(String::from_utf8_lossy\(comment_bytes\)\.into\(\)\)', lambda m: 'vx_comment(comment_bytes)', 'R42'),
    (r'while let ArxmlEvent::Comment\(comment_bytes\) = token \{', lambda m: 'loop { let comment_bytes = match token { ArxmlEvent::Comment(vx_b) => vx_b, _ => { break; } };', 'R43'),
]

R42 = [
    (r'ArxmlParserError::\w+ \{[^{}]*\}', lambda m: 'ArxmlParserError::VxOther(0)', 'R36'),
    (r'let wrapped_element = raw_element\.wrap\(\);\s*let mut element = wrapped_element\.0\.write\(\);', lambda m: 'let mut element = raw_element; let vx_weak = vx_new_weak();', 'R42'),
    (NEW_ELEMENT, lambda m: 'let vx_attrs = self.parse_attribute_text(sub_elemtype, attr_text)?; let new_element = ElementRaw { elemname: name, elemtype: sub_elemtype, content: Vec::new(), attributes: vx_attrs, comment: stored_comment };', 'R42'),
    (NAME_BLOCK, lambda m: 'self.vx_register_name(&sub_element, &mut path, &vx_weak);', 'R42'),
    (REF_BLOCK, lambda m: 'self.vx_register_reference(&value, &vx_weak);', 'R42'),
    (r'Cow::from\(path\.as_ref\(\)\)', lambda m: 'vx_path_clone(&path)', 'R42'),
    (r'self\.check_element_conflict\(name, element\.elemtype, &elem_idx, &idx\)', lambda m: 'self.check_element_conflict(name, element.elemtype, elem_idx.as_slice(), &idx)', 'R42'),
    (r'self\.check_multiplicity\(name, element\.elemtype, &elem_idx, &element\)', lambda m: 'self.check_multiplicity(name, element.elemtype, elem_idx.as_slice(), &element)', 'R42'),
    (r'Some\(String::from_utf8_lossy\(comment_bytes\)\.into\(\)\)', lambda m: 'vx_comment(comment_bytes)', 'R42'),
    (r'Ok\(wrapped_element\.clone\(\)\)', lambda m: 'Ok(vx_wrap(element, &vx_weak))', 'R42'),
    (r'((?:\w+\.)*\w+)\.is_empty\(\)', lambda m: '(%s.len() == 0)' % m.group(1), 'R16'),
]

V = 'old(self).fileversion as u32'
INV = ['lexer.inv()', 'lexer.measure() <= old(lexer).measure()', 'self.same_core(old(self))', 'element.elemtype == raw_element.elemtype', 'element.elemname == raw_element.elemname',
       'element.elemtype.typ < n_dt()', 'wf_tables()', 'lexer.measure() >= 0',
       'self.strict ==> node_ok(element.content@, element.elemtype, self.fileversion as u32)',
       'short_name_found ==> has_child_named(element, ElementName::ShortName)',
       'self.strict ==> choice_ok(element.content@, element.elemtype, self.fileversion as u32) && last_elem_is(element.content@, element.elemtype.typ as int, self.fileversion as u32, last_elem, elem_idx@)',
       'elem_idx@.len() > 0 ==> idx_ok(element.elemtype.typ as int, elem_idx@)',
       'first_round || lexer.measure() < old(lexer).measure()']


def make_unit(repo_dir):
    parser_funnel.check_decls(repo_dir)
    lookups.check_decls(repo_dir)
    sz = lookups.table_sizes(repo_dir)
    lspec = lookups.TYPES % dict(version_enum='', STATICS='', REFERENCE_TYPE_IDX=sz['REFERENCE_TYPE_IDX'], **{k: v[1] for k, v in sz.items() if isinstance(v, tuple)})
    et = elemcheck.TYPES % dict(version_enum=parser_funnel.version_enum(repo_dir))
    # ElementRaw with its content; has_child_named defined over it
    et = et.replace('pub struct ElementRaw { pub opaque: u8 }', ELEMENTRAW)
    a = et.index('// "the element already has a child element with this name"')
    b = et.index('pub fn vx_idx_eq')
    et = et[:a] + et[b:]
    spec = lspec + et + elemcheck.MULT + TYPES
    lf = {f.label: f for f in lookups.fns(sz)}
    pf = {f.label: f for f in parser_funnel.fns()}
    ec = {f.label: f for f in elemcheck.make_unit(repo_dir).fns}
    vp = {f.label: f for f in valueparse.make_unit(repo_dir).fns}
    fn = FnSpec('parse_element', F, impl=IMPL_P, ret='r', body_sub=R42,
                sig_sub=[(r'mut path: Cow<str>', 'mut path: VxPath')],
                requires=['raw_element.elemtype.typ < n_dt()', 'raw_element.content@.len() == 0', 'old(lexer).inv()', 'old(lexer).measure() >= 0'],
                ensures=['final(self).same_core(old(self))', 'final(lexer).inv()', 'final(lexer).measure() <= old(lexer).measure() && final(lexer).measure() >= 0',
                         'r matches Ok(e) ==> name_of(e) == raw_element.elemname && type_of(e) == raw_element.elemtype',
                         'old(self).strict ==> (r matches Ok(e) ==> node_ok(content_of(e), raw_element.elemtype, %s) && named_ok(content_of(e), raw_element.elemtype, %s) && choice_ok(content_of(e), raw_element.elemtype, %s))' % (V, V, V)],
                decreases='old(lexer).measure()',
                loops={0: dict(invariant=INV, decreases='lexer.measure() + (if first_round { 1int } else { 0int })')},
                proofs=[dict(at='body_start', text='proof { axiom_tables(); }\nlet ghost mut first_round = true;\nlet ghost mut last_elem: int = -1;'),
                        dict(after=r'let arxmlevent = self\.next\(lexer\)\?;', text='proof { first_round = false; }'),
                        dict(after=r'let \(sub_elemtype, idx\) = self\.find_element_in_spec_checked\(name, element\.elemtype\)\?;',
                             text='proof { lemma_resolve_any(element.elemtype.typ as int, idx@); }\nlet ghost old_content = element.content@;\nlet ghost old_snf = short_name_found;\nlet ghost prev_idx = elem_idx@;'),
                        dict(after=r'element\.content\.push\(ElementContent::Element\(sub_element\)\);', text='''proof {
    if self.strict {
        let c = element.content@;
        let t = element.elemtype;
        let v = self.fileversion as u32;
        assert(c == old_content.push(ElementContent::Element(sub_element)));
        assert(name_of(sub_element) == name);
        assert forall|i: int, j: int| 0 <= i < j < c.len() && elem_name(#[trigger] c[i]) is Some && elem_name(c[i]) == elem_name(#[trigger] c[j]) implies !limited_name(t.typ as int, elem_name(c[i]).unwrap(), v) by {
            if j == c.len() - 1 { assert(old_content[i] == c[i]); }
            else { assert(old_content[i] == c[i] && old_content[j] == c[j]); }
        }
        assert forall|i: int| 0 <= i < c.len() && elem_name(#[trigger] c[i]) is Some implies find_from(t.typ as int, 0, elem_name(c[i]).unwrap(), v) is Some by {
            if i < c.len() - 1 { assert(old_content[i] == c[i]); }
        }
        if exists|i: int| 0 <= i < c.len() && #[trigger] c[i] is CharacterData {
            let i = choose|i: int| 0 <= i < c.len() && #[trigger] c[i] is CharacterData;
            assert(old_content[i] is CharacterData);
        }
        // the new child's index list is the one just found; the previous element child is `last_elem`
        let nw = c.len() - 1;
        assert(idx_of(c[nw], t.typ as int, v) == elem_idx@);
        assert forall|i: int, j: int| #[trigger] adjacent_elems(c, i, j) implies !choice_conflict(t.typ as int, idx_of(c[i], t.typ as int, v), idx_of(c[j], t.typ as int, v)) by {
            if j < nw {
                assert(c[i] == old_content[i] && c[j] == old_content[j]);
                assert forall|k: int| i < k < j implies elem_name(#[trigger] old_content[k]) is None by { assert(c[k] == old_content[k]); }
                assert(adjacent_elems(old_content, i, j));
            } else {
                // j is the new child: i must be the previous element child
                assert(c[i] == old_content[i]);
                if i != last_elem {
                    if i < last_elem { assert(elem_name(c[last_elem]) is None); assert(c[last_elem] == old_content[last_elem]); }
                    else { assert(elem_name(old_content[i]) is None); }
                }
                assert(idx_of(c[i], t.typ as int, v) == prev_idx);
            }
        }
        last_elem = nw;
        assert forall|k: int| last_elem < k < c.len() implies elem_name(#[trigger] c[k]) is None by {}
    }
    if short_name_found {
        if old_snf {
            let i = choose|i: int| 0 <= i < old_content.len() && elem_name(#[trigger] old_content[i]) == Some(ElementName::ShortName);
            assert(element.content@[i] == old_content[i]);
        } else {
            assert(elem_name(element.content@[element.content@.len() - 1]) == Some(ElementName::ShortName));
        }
    }
}'''),
                        dict(before=r'^\s*element\.content\.push\(ElementContent::CharacterData\(value\)\);', text='let ghost old_content2 = element.content@;'),
                        dict(after=r'element\.content\.push\(ElementContent::CharacterData\(value\)\);', text='''proof {
    let c = element.content@;
    assert(c == old_content2.push(ElementContent::CharacterData(value)));
    if self.strict {
        let t = element.elemtype; let v = self.fileversion as u32;
        assert forall|i: int, j: int| 0 <= i < j < c.len() && elem_name(#[trigger] c[i]) is Some && elem_name(c[i]) == elem_name(#[trigger] c[j]) implies !limited_name(t.typ as int, elem_name(c[i]).unwrap(), v) by {
            assert(old_content2[i] == c[i]); if j < c.len() - 1 { assert(old_content2[j] == c[j]); }
        }
        assert forall|i: int| 0 <= i < c.len() && elem_name(#[trigger] c[i]) is Some implies find_from(t.typ as int, 0, elem_name(c[i]).unwrap(), v) is Some by {
            if i < c.len() - 1 { assert(old_content2[i] == c[i]); }
        }
    }
    if short_name_found {
        let i = choose|i: int| 0 <= i < old_content2.len() && elem_name(#[trigger] old_content2[i]) == Some(ElementName::ShortName);
        assert(c[i] == old_content2[i]);
    }
    if self.strict {
        let t = element.elemtype; let v = self.fileversion as u32;
        assert forall|i: int, j: int| #[trigger] adjacent_elems(c, i, j) implies !choice_conflict(t.typ as int, idx_of(c[i], t.typ as int, v), idx_of(c[j], t.typ as int, v)) by {
            assert(j < c.len() - 1);
            assert(c[i] == old_content2[i] && c[j] == old_content2[j]);
            assert forall|k: int| i < k < j implies elem_name(#[trigger] old_content2[k]) is None by { assert(c[k] == old_content2[k]); }
            assert(adjacent_elems(old_content2, i, j));
        }
        assert forall|k: int| last_elem < k < c.len() implies elem_name(#[trigger] c[k]) is None by { if k < c.len() - 1 { assert(c[k] == old_content2[k]); } }
        if last_elem >= 0 { assert(c[last_elem] == old_content2[last_elem]); }
    }
}'''),
                        ])
    root = FnSpec('parse_arxml', F, impl=IMPL_P, ret='r', body_sub=R43, sig_sub=[(r'pub\(crate\) fn', 'pub fn')],
                  ensures=['final(self).strict == old(self).strict',
                           'old(self).strict ==> (r matches Ok(e) ==> name_of(e) == ElementName::Autosar && node_ok(content_of(e), type_of(e), final(self).fileversion as u32))'],
                  requires=['old(self).buffer.len() <= isize::MAX'],
                  loops={0: dict(invariant=['lexer.inv()', 'self.strict == old(self).strict', 'lexer.measure() >= 0'], decreases='lexer.measure() + (if token is Comment { 1int } else { 0int })')},
                  proofs=[])
    u = Unit(name='parseelem', prop='C08', spec=spec, fns=[fn, root],
             wrap={IMPL_P: "impl<'a> ArxmlParser<'a>", lexer.IMPL_A: "impl<'a> ArxmlLexer<'a>", lookups.IMPL_ET: 'impl ElementType', lookups.IMPL_GT: 'impl GroupType'},
             dropped=['the element graph: `raw_element.wrap()` and the write guard are replaced by working on the ElementRaw value and wrapping it at the end (vx_wrap); ElementRaw is {elemname, elemtype, content: Vec, attributes, comment}; Cow<str> path is opaque',
                      'block-level leaves (R42): SHORT-NAME path bookkeeping (vx_register_name), reference registration (vx_register_reference), comment text (vx_comment); error payloads opaque (R36)',
                      'callees are leaves with the contracts proved in units lexer / elemcheck / valueparse / lookups; the lexer vocabulary (inv, measure, same_buf, nl) is uninterpreted',
                      'parse_file_header is a leaf: sets the file version, leaves `strict` unchanged (frame scan F4)'])
    # leaves
    for name in ('ArxmlParser.next', 'ArxmlParser.error', 'optional_error', 'verify_end_of_input'):
        u.leaves.append((pf[name], 'lexer'))
    from contracts import attrparse
    pat = copy.copy(attrparse.make_unit(repo_dir).fns[0])
    pat.ensures = [pat.ensures[0]]
    u.leaves.append((pat, 'attrparse (frame clause)'))
    for name in ('find_element_in_spec_checked', 'check_element_conflict', 'check_multiplicity'):
        u.leaves.append((ec[name], 'elemcheck'))
    pcd = copy.copy(vp['parse_character_data'])
    pcd.ensures = [pcd.ensures[0]]
    pcd.sig_sub = []
    u.leaves.append((pcd, 'valueparse (frame clause)'))
    lx = copy.copy(lexer.NEW)
    lx.ensures = lx.ensures[:2]
    u.leaves.append((lx, 'lexer'))
    for name in ('chardata_spec', 'is_ref', 'is_named_in_version'):
        u.leaves.append((lf[name], 'lookups'))
    return u
