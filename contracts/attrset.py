"""C07 / unit `attrset`: setting attributes through the editing API (elementraw.rs)

    ElementRaw::set_attribute_internal(attrname, value, file_version)
    ElementRaw::set_attribute_string(attrname, text, version)
    ElementRaw::set_character_data_internal, character_data, attribute_value, remove_attribute   (node level)
    AutosarVersion::compatible                                     (autosar-data-specification/src/lib.rs)

Contract, from the property ("all elements, attributes and values are permitted in the file's version"; "failed calls change
nothing" for these two functions), for every element type, attribute name, value, version and any table contents:

    Ok   ==>  the attribute is listed for the element type (first listing with that name), its version mask contains the file
              version, the stored value is acceptable for the attribute's character-data spec in that version, and the attribute
              list is the old one with exactly this attribute replaced (if present) or appended (if not) -- nothing else changes
    Err  ==>  the attribute list is unchanged

Callees: find_attribute_spec is a leaf with the contract unit lookups proves (attr_post); CharacterData::check_value / parse are
leaves whose results are tied to the uninterpreted predicate value_ok -- unit chardata proves on their real text that
check_value(v, spec, ver) == valid(v, spec, ver) and parse(..) == Some(v) ==> valid(v, spec, ver); `compatible` is verified here from its
real text.  The "replace or append" block
        if let Some(attr) = self.attributes.iter_mut().find(|attr| attr.attrname == attrname) { attr.content = value; }
        else { self.attributes.push(Attribute { attrname, content: value }); }
(iterator adapter with a closure: outside Verus) is rule R40 -> the verified helper vx_store_attribute, which does the same with an
index loop.  ElementRaw is {elemtype, attributes: Vec<Attribute>} (SmallVec -> Vec); CharacterData is an opaque value.
"""
import copy
import os
import re

from vxlib.verusunit import Unit, FnSpec
from vxlib.rustsrc import Source, Lost
from contracts import parser_funnel, lookups

F = 'autosar-data/src/elementraw.rs'
F_SPEC = 'autosar-data-specification/src/lib.rs'
IMPL_R = r'impl ElementRaw'
IMPL_V = r'impl AutosarVersion'


def check_decls(repo_dir):
    src = Source(os.path.join(repo_dir, 'autosar-data/src/lib.rs'))
    s, o, c = src.find_block(r'^pub\(crate\) struct ElementRaw')
    body = re.sub(r'\s+', ' ', re.sub(r'^\s*///.*\n', '', src.text[o + 1:c], flags=re.M)).strip()
    for want in ('pub(crate) elemtype: ElementType,', 'pub(crate) attributes: SmallVec<[Attribute; 1]>,'):
        if want not in body:
            raise Lost('struct ElementRaw changed: %r missing' % want)
    s, o, c = src.find_block(r'^pub struct Attribute')
    body = re.sub(r'\s+', ' ', re.sub(r'^\s*///.*\n', '', src.text[o + 1:c], flags=re.M)).strip()
    if body != 'pub attrname: AttributeName, pub content: CharacterData,':
        raise Lost('struct Attribute changed: %r' % body)


TYPES = r'''
%(version_enum)s

pub enum AutosarDataError { VxOther(u64) }
#[derive(Clone, Copy)]
pub struct CharacterData { pub opaque: u64 }
#[derive(Clone, Copy)]
pub struct Element { pub opaque: u64 }
pub enum ElementContent { Element(Element), CharacterData(CharacterData) }
pub struct Attribute { pub attrname: AttributeName, pub content: CharacterData }
pub struct ElementRaw { pub elemtype: ElementType, pub attributes: Vec<Attribute>, pub content: Vec<ElementContent> }
impl CharacterData { pub fn clone(&self) -> (r: Self) ensures r == *self { *self } }
pub fn vx_find_attr_named(a: &Vec<Attribute>, n: AttributeName) -> (r: Option<&Attribute>)
    ensures match r { Some(x) => exists|i: int| first_named(a@, n, i) && *x == a@[i], None => forall|k: int| 0 <= k < a@.len() ==> (#[trigger] a@[k]).attrname != n }
{
    let mut i: usize = 0;
    while i < a.len()
        invariant i <= a.len(), forall|k: int| 0 <= k < i ==> (#[trigger] a@[k]).attrname != n,
        decreases a.len() - i
    {
        if a[i].attrname == n { assert(first_named(a@, n, i as int)); return Some(&a[i]); }
        i += 1;
    }
    None
}

// "the value is acceptable for this character-data spec in this version": check_value / parse are proved against valid() in unit chardata
pub uninterp spec fn value_ok(v: CharacterData, spec: CharacterDataSpec, ver: u32) -> bool;
impl CharacterData {
    #[verifier::external_body]
    pub fn check_value(value: &CharacterData, spec: &CharacterDataSpec, file_version: AutosarVersion) -> (r: bool)
        ensures r == value_ok(*value, *spec, file_version as u32)
    { unimplemented!() }
    #[verifier::external_body]
    pub fn parse(input: &str, character_data_spec: &CharacterDataSpec, version: AutosarVersion) -> (r: Option<CharacterData>)
        ensures r matches Some(d) ==> value_ok(d, *character_data_spec, version as u32)
    { unimplemented!() }
}

pub open spec fn names(a: Seq<Attribute>) -> Seq<AttributeName> { a.map(|i: int, x: Attribute| x.attrname) }
pub open spec fn first_named(a: Seq<Attribute>, n: AttributeName, i: int) -> bool {
    0 <= i < a.len() && a[i].attrname == n && forall|k: int| 0 <= k < i ==> (#[trigger] a[k]).attrname != n
}
// replace the first attribute called n, or append
pub open spec fn stored(old_a: Seq<Attribute>, new_a: Seq<Attribute>, n: AttributeName, v: CharacterData) -> bool {
    ||| (exists|i: int| first_named(old_a, n, i) && new_a == old_a.update(i, Attribute { attrname: n, content: v }))
    ||| ((forall|k: int| 0 <= k < old_a.len() ==> (#[trigger] old_a[k]).attrname != n) && new_a == old_a.push(Attribute { attrname: n, content: v }))
}
pub fn vx_store_attribute(attributes: &mut Vec<Attribute>, attrname: AttributeName, value: CharacterData)
    ensures stored(old(attributes)@, final(attributes)@, attrname, value)
{
    let mut i: usize = 0;
    while i < attributes.len()
        invariant i <= attributes.len(), attributes@ == old(attributes)@, forall|k: int| 0 <= k < i ==> (#[trigger] attributes@[k]).attrname != attrname,
        decreases attributes.len() - i
    {
        if attributes[i].attrname == attrname {
            attributes.set(i, Attribute { attrname, content: value });
            proof { assert(first_named(old(attributes)@, attrname, i as int)); }
            return;
        }
        i += 1;
    }
    attributes.push(Attribute { attrname, content: value });
}

// the attribute is available in the version and the value is acceptable for its spec
pub open spec fn attr_permitted(t: int, n: AttributeName, v: CharacterData, ver: u32) -> bool {
    exists|k: int| attr_at(t, k, n) && ver & t_ver(t_dt(t).attributes_ver + k) != 0 && value_ok(v, t_cd(attrs_of(t)[k].1 as int), ver)
}
'''

STORE = (r'if let Some\(attr\) = self\.attributes\.iter_mut\(\)\.find\(\|attr\| attr\.attrname == attrname\) \{\s*attr\.content = value;\s*\} else \{\s*'
         r'self\.attributes\.push\(Attribute \{\s*attrname,\s*content: value,\s*\}\);\s*\}')
R40 = [
    (r'AutosarDataError::\w+ \{[^{}]*\}', lambda m: 'AutosarDataError::VxOther(0)', 'R39'),
    (r'AutosarDataError::(InvalidAttributeValue|InvalidAttribute)\b', lambda m: 'AutosarDataError::VxOther(0)', 'R39'),
    (STORE, lambda m: 'vx_store_attribute(&mut self.attributes, attrname, value);', 'R40'),
]


def make_unit(repo_dir):
    check_decls(repo_dir)
    lookups.check_decls(repo_dir)
    sz = lookups.table_sizes(repo_dir)
    lspec = lookups.TYPES % dict(version_enum='', STATICS='', REFERENCE_TYPE_IDX=sz['REFERENCE_TYPE_IDX'], **{k: v[1] for k, v in sz.items() if isinstance(v, tuple)})
    spec = lspec + TYPES % dict(version_enum=parser_funnel.version_enum(repo_dir))
    lf = {f.label: f for f in lookups.fns(sz)}
    post = ['final(self).elemtype == old(self).elemtype',
            'match r { Ok(_) => exists|v: CharacterData| attr_permitted(old(self).elemtype.typ as int, attrname, v, %(V)s) && stored(old(self).attributes@, final(self).attributes@, attrname, v)%(same)s, '
            'Err(_) => final(self).attributes@ == old(self).attributes@ }']
    fns = [
        FnSpec('compatible', F_SPEC, impl=IMPL_V, ret='r', ensures=['r == (version_mask & (*self as u32) != 0)']),
        FnSpec('set_attribute_internal', F, impl=IMPL_R, ret='r', body_sub=R40, requires=['old(self).elemtype.typ < n_dt()'],
               ensures=[post[0], post[1] % dict(V='file_version as u32', same=' && v == value')],
               proofs=[dict(after=r'if CharacterData::check_value\(&value, spec, file_version\) \{', indent=True, text='let ghost gv = value;'),
                       dict(after=r'vx_store_attribute\(&mut self\.attributes, attrname, value\);', text='''proof {
    let t = old(self).elemtype.typ as int;
    let k = choose|k: int| attr_at(t, k, attrname) && version == t_ver(t_dt(t).attributes_ver + k) && *spec == t_cd(attrs_of(t)[k].1 as int);
    let fv = file_version as u32;
    assert(version & fv == fv & version) by(bit_vector);
    assert(attr_at(t, k, attrname) && (file_version as u32) & t_ver(t_dt(t).attributes_ver + k) != 0 && value_ok(gv, t_cd(attrs_of(t)[k].1 as int), file_version as u32));
    assert(attr_permitted(t, attrname, gv, file_version as u32));
    assert(stored(old(self).attributes@, self.attributes@, attrname, gv));
}''')]),
        FnSpec('set_character_data_internal', F, impl=IMPL_R, ret='r', nth=0,
               body_sub=[(r'AutosarDataError::\w+ \{[^{}]*\}', lambda m: 'AutosarDataError::VxOther(0)', 'R39'),
                         (r'self\.content\.is_empty\(\)', lambda m: '(self.content.len() == 0)', 'R16'),
                         (r'self\.content\[0\] = ElementContent::CharacterData\(chardata\);', lambda m: 'self.content.set(0, ElementContent::CharacterData(chardata));', 'R40')],
               requires=['old(self).elemtype.typ < n_dt()'],
               ensures=['final(self).elemtype == old(self).elemtype && final(self).attributes@ == old(self).attributes@',
                        'match r { Ok(_) => (t_dt(old(self).elemtype.typ as int).mode == ContentMode::Characters || (t_dt(old(self).elemtype.typ as int).mode == ContentMode::Mixed && old(self).content@.len() <= 1)) '
                        '&& (t_dt(old(self).elemtype.typ as int).character_data matches Some(cs) && value_ok(chardata, t_cd(cs as int), version as u32)) '
                        '&& final(self).content@ == (if old(self).content@.len() == 0 { seq![ElementContent::CharacterData(chardata)] } else { old(self).content@.update(0, ElementContent::CharacterData(chardata)) }), '
                        'Err(_) => final(self).content@ == old(self).content@ }'],
               proofs=[dict(at='body_start', text='proof { axiom_tables(); }'),
                       dict(before=r'^\s*return Ok\(\(\)\);', text='proof { if old(self).content@.len() == 0 { assert(self.content@ =~= seq![ElementContent::CharacterData(chardata)]); } }')]),
        FnSpec('character_data', F, impl=IMPL_R, ret='r', requires=['self.elemtype.typ < n_dt()'],
               body_sub=[(r'if let Some\(ElementContent::CharacterData\(cdata\)\) = self\.content\.first\(\) \{', lambda m: 'if let ElementContent::CharacterData(cdata) = &self.content[0] {', 'R40')],
               ensures=['r == (if self.content@.len() == 1 && (t_dt(self.elemtype.typ as int).mode == ContentMode::Characters || t_dt(self.elemtype.typ as int).mode == ContentMode::Mixed) '
                        '{ match self.content@[0] { ElementContent::CharacterData(c) => Some(c), _ => None } } else { None })'],
               proofs=[dict(at='body_start', text='proof { axiom_tables(); }')]),
        FnSpec('attribute_value', F, impl=IMPL_R, ret='r',
               body_sub=[(r'self\.attributes\.iter\(\)\.find\(\|attr\| attr\.attrname == attrname\)', lambda m: 'vx_find_attr_named(&self.attributes, attrname)', 'R40')],
               ensures=['match r { Some(v) => exists|i: int| first_named(self.attributes@, attrname, i) && v == self.attributes@[i].content, None => forall|k: int| 0 <= k < self.attributes@.len() ==> (#[trigger] self.attributes@[k]).attrname != attrname }']),
        FnSpec('remove_attribute', F, impl=IMPL_R, ret='r', requires=['old(self).elemtype.typ < n_dt()'],
               ensures=['final(self).elemtype == old(self).elemtype && final(self).content@ == old(self).content@',
                        '!r ==> final(self).attributes@ == old(self).attributes@',
                        'r ==> exists|i: int| 0 <= i < old(self).attributes@.len() && old(self).attributes@[i].attrname == attrname && final(self).attributes@ == old(self).attributes@.remove(i) '
                        '&& (exists|k: int| attr_at(old(self).elemtype.typ as int, k, attrname) && !attrs_of(old(self).elemtype.typ as int)[k].2)'],
               loops={0: dict(iter_name='it', invariant=['self.attributes@ == old(self).attributes@', 'self.elemtype == old(self).elemtype', 'self.content@ == old(self).content@', 'self.elemtype.typ < n_dt()'])},
               proofs=[dict(at='body_start', text='proof { axiom_tables(); }')]),
        FnSpec('set_attribute_string', F, impl=IMPL_R, ret='r', body_sub=R40, requires=['old(self).elemtype.typ < n_dt()'],
               ensures=[post[0], post[1] % dict(V='version as u32', same='')],
               proofs=[dict(after=r'if let Some\(value\) = CharacterData::parse\(stringvalue, character_data_spec, version\) \{', indent=True, text='let ghost gv = value;'),
                       dict(after=r'vx_store_attribute\(&mut self\.attributes, attrname, value\);', text='''proof {
    let t = old(self).elemtype.typ as int;
    let k = choose|k: int| attr_at(t, k, attrname) && attr_version == t_ver(t_dt(t).attributes_ver + k) && *character_data_spec == t_cd(attrs_of(t)[k].1 as int);
    let fv = version as u32;
    assert(attr_version & fv == fv & attr_version) by(bit_vector);
    assert(attr_at(t, k, attrname) && (version as u32) & t_ver(t_dt(t).attributes_ver + k) != 0 && value_ok(gv, t_cd(attrs_of(t)[k].1 as int), version as u32));
    assert(attr_permitted(t, attrname, gv, version as u32));
    assert(stored(old(self).attributes@, self.attributes@, attrname, gv));
}''')]),
    ]
    u = Unit(name='attrset', prop='C07', spec=spec, fns=fns,
             wrap={IMPL_R: 'impl ElementRaw', IMPL_V: 'impl AutosarVersion', lookups.IMPL_ET: 'impl ElementType'},
             dropped=['ElementRaw is {elemtype, attributes: Vec<Attribute>} (SmallVec -> Vec; the other fields are not touched); CharacterData is an opaque value; error payloads opaque (R39)',
                      'find_attribute_spec is a leaf with the contract proved in unit lookups; check_value / parse are leaves tied to value_ok (proved against valid() in unit chardata)',
                      'the replace-or-append block (iter_mut().find(closure)) is replaced by the verified helper vx_store_attribute (rule R40)'])
    for name in ('find_attribute_spec', 'ElementType.content_mode', 'chardata_spec'):
        u.leaves.append((lf[name], 'lookups'))
    return u
