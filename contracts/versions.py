"""C18 / unit `versions`: AutosarVersion::filename and <AutosarVersion as FromStr>::from_str (autosarversion.rs), for texts of
every length:
    from_str(s) == Ok(v)   ==>   the bytes of s are exactly the bytes of filename(v)
(the converse -- every declared version is found under its own file name, file names pairwise distinct, value <-> bit -- is the
finite half, discharged by the complete Kani harnesses version_roundtrip_each / version_pairwise_distinct / version_from_val_all_u32).

`filename` is emitted twice from the same text: as the exec function (string literals wrapped in the leaf vx_lit, which ties a
literal to its ASCII bytes) and as the spec twin filename_bytes (literals replaced by their bytes).

Rules: R33 a `match X { "lit" => E, ..., _ => D }` over a string is turned into an if-chain over vx_str_is(X, bytes-of-lit);
string literals in expression position -> vx_lit("lit", bytes).  The rule writes the bytes from the literal it replaces.
"""
import os
import re

from vxlib.verusunit import Unit, FnSpec
from vxlib.rustsrc import Lost
from contracts import parser_funnel

F = 'autosar-data-specification/src/autosarversion.rs'
IMPL_V = r'impl AutosarVersion'
IMPL_FS = r'impl core::str::FromStr for AutosarVersion'

SPEC = r'''
%(version_enum)s
pub struct ParseAutosarVersionError;

pub uninterp spec fn bytes_of(s: Seq<char>) -> Seq<u8>;
pub open spec fn is_text(b: Seq<u8>, lit: Seq<u8>) -> bool {
    b.len() == lit.len() && (lit.len() > 0 ==> b[0] == lit[0]) && forall|k: int| 0 <= k < lit.len() ==> #[trigger] b[k] == lit[k]
}
// a string literal and its ASCII bytes (both written by rule R33 from the same literal)
#[verifier::external_body]
pub fn vx_lit(s: &'static str, b: &[u8]) -> (r: &'static str) ensures is_text(bytes_of(r@), b@) { s }
#[verifier::external_body]
pub fn vx_str_is(s: &str, b: &[u8]) -> (r: bool) ensures r == is_text(bytes_of(s@), b@) { s.as_bytes() == b }
'''


def _bytes(s):
    return '&[' + ', '.join('%du8' % ord(c) for c in s) + ']'


def _seq(s):
    return 'seq![' + ', '.join('%du8' % ord(c) for c in s) + ']'


def _match_to_ifchain(m):
    """`match input { "a" => E1, "b" => E2, _ => D, }` -> if-chain"""
    var, body = m.group(1), m.group(2)
    arms = re.findall(r'"([^"]*)"\s*=>\s*([^,\n]+),', body)
    dm = re.search(r'_\s*=>\s*([^,\n]+),', body)
    if not arms or not dm or len(re.findall(r'=>', body)) != len(arms) + 1:
        raise Lost('string match not understood (rule R33)')
    out = ''
    for lit, expr in arms:
        out += 'if vx_str_is(%s, %s) { %s } else ' % (var, _bytes(lit), expr.strip())
    return out + '{ %s }' % dm.group(1).strip()


R33_MATCH = [(r'match (\w+) \{((?:\s*(?:"[^"]*"|_)\s*=>[^\n]*\n)+)\s*\}', _match_to_ifchain, 'R33')]
R33_LIT = [(r'=> "([^"]*)",', lambda m: '=> vx_lit("%s", %s),' % (m.group(1), _bytes(m.group(1))), 'R33')]


def make_unit(repo_dir):
    spec = SPEC % dict(version_enum=parser_funnel.version_enum(repo_dir))
    fns = [
        FnSpec('filename', F, impl=IMPL_V, ret='r', body_sub=R33_LIT,
               ensures=['is_text(bytes_of(r@), self.filename_bytes())'],
               twin=dict(sig='pub open spec fn filename_bytes(self) -> Seq<u8>',
                         subs=[(r'vx_lit\("([^"]*)", &\[[^\]]*\]\)', lambda m: _seq(m.group(1)))])),
        FnSpec('from_str', F, impl=IMPL_FS, ret='r', body_sub=R33_MATCH,
               sig_sub=[(r'Result<Self, Self::Err>', 'Result<Self, ParseAutosarVersionError>')],
               ensures=['r matches Ok(v) ==> is_text(bytes_of(input@), v.filename_bytes())']),
    ]
    return Unit(name='versions', prop='C18', spec=spec, fns=fns, wrap={IMPL_V: 'impl AutosarVersion', IMPL_FS: 'impl AutosarVersion'},
                dropped=['`impl FromStr for AutosarVersion { fn from_str }` is emitted as an inherent function, `Self::Err` spelled out; AutosarVersion is the real enum text; doc comments'])
