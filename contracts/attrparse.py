"""C08 / unit `attrparse`: ArxmlParser::parse_attribute_text (parser.rs) with its validation blocks as real code.

Unit lexer already proves the slicing arithmetic and termination of this function with the attribute lookup / validation block and the
required-attributes loop abstracted away.  Here those two blocks are the real text, and the contract comes from the property
("an attribute that is unknown in its context or not available in the file's version, ... a missing required attribute, a value that
... does not match ... is never accepted by strict loading"), for every attribute text, element type and any table contents:

  strict mode and Ok(attrs)  ==>
      * every attribute in attrs is listed for the element type (first listing of that name), its version mask contains the file version,
        and its value was accepted by parse_character_data for the listed character-data spec in the file version
      * every attribute the tables mark as required for the element type is present in attrs
  both modes: `strict` and the file version are unchanged

Callees are leaves with the contracts proved on their real text elsewhere: find_attribute_spec, attribute_spec_iter,
AttrDefinitionsIter::next (unit lookups), check_version, optional_error (unit lexer), parse_character_data (unit valueparse: strict
Ok(v) ==> accepted(v, spec, version); `accepted` is uninterpreted here).
AttributeName::from_bytes has an arbitrary result (its contract is C18's).

Rules (besides those of unit lexer for the byte scanning, R35): `SmallVec::new()` -> `Vec::new()`; `for (name, _ctype, required) in
elemtype.attribute_spec_iter() {` -> explicit `loop` over `.next()` (R44: Verus has no for-loops over user iterators);
`attributes.iter().any(|attr: &Attribute| attr.attrname == name)` -> verified helper vx_has_attr (R44); error payloads opaque (R36).
"""
import copy
import re

from vxlib.verusunit import Unit, FnSpec
from vxlib.rustsrc import Lost
from contracts import parser_funnel, lookups, elemcheck, valueparse

F = 'autosar-data/src/parser.rs'
IMPL_P = r"impl<'a>\s+ArxmlParser<'a>"

TYPES = r'''
pub struct CharacterData { pub opaque: u64 }
pub struct Attribute { pub attrname: AttributeName, pub content: CharacterData }
impl AttributeName {
    #[verifier::external_body]
    pub fn from_bytes(b: &[u8]) -> (r: Result<AttributeName, ()>) { unimplemented!() }
}
// "parse_character_data accepted this value for this spec in this version" (defined in unit valueparse)
pub uninterp spec fn accepted(v: CharacterData, spec: CharacterDataSpec, ver: u32) -> bool;

impl<'a> ArxmlParser<'a> {
    pub open spec fn same_core(&self, o: &Self) -> bool { self.strict == o.strict && self.fileversion == o.fileversion }
    // the "anything left over?" finding of parse_attribute_text (not one of the property's constraint classes): a funnel call
    #[verifier::external_body]
    pub fn vx_attr_value_error(&mut self, attributes_text: &[u8]) -> (r: Result<(), AutosarDataError>)
        ensures final(self).same_core(old(self))
    { unimplemented!() }
}

pub open spec fn has_attr(a: Seq<Attribute>, n: AttributeName) -> bool { exists|i: int| 0 <= i < a.len() && (#[trigger] a[i]).attrname == n }
pub fn vx_has_attr(a: &Vec<Attribute>, n: AttributeName) -> (r: bool) ensures r == has_attr(a@, n)
{
    let mut i: usize = 0;
    while i < a.len()
        invariant i <= a.len(), forall|k: int| 0 <= k < i ==> (#[trigger] a@[k]).attrname != n,
        decreases a.len() - i
    {
        if a[i].attrname == n { return true; }
        i += 1;
    }
    false
}
// one accepted attribute: listed (first listing of its name), available in the version, value accepted for the listed spec
pub open spec fn attr_ok(x: Attribute, t: int, v: u32) -> bool {
    exists|k: int| attr_at(t, k, x.attrname) && v & t_ver(t_dt(t).attributes_ver + k) != 0 && accepted(x.content, t_cd(attrs_of(t)[k].1 as int), v)
}
pub open spec fn attrs_ok(a: Seq<Attribute>, t: int, v: u32) -> bool { forall|i: int| 0 <= i < a.len() ==> attr_ok(#[trigger] a[i], t, v) }
pub open spec fn required_present(a: Seq<Attribute>, t: int, upto: int) -> bool {
    forall|k: int| 0 <= k < upto && k < attrs_of(t).len() && (#[trigger] attrs_of(t)[k]).2 ==> has_attr(a, attrs_of(t)[k].0)
}
'''

R44 = [
    (r'ArxmlParserError::AttributeValueError \{[^{}]*\}', lambda m: 'ArxmlParserError::AttributeValueError { }', 'none'),
    (r'self\.optional_error\(ArxmlParserError::AttributeValueError \{ \}\)\?;', lambda m: 'self.vx_attr_value_error(attributes_text)?;', 'R35'),
    (r'ArxmlParserError::\w+ \{[^{}]*\}', lambda m: 'ArxmlParserError::VxOther(0)', 'R36'),
    (r'SmallVec::new\(\)', lambda m: 'Vec::new()', 'R44'),
    (r"while let Some\((\w+)\) = (\w+)\.iter\(\)\.position\(\|c\| \*c == (b'.')\) \{", lambda m: 'loop { let %s = match vx_position_eq(%s, %s) { Some(vx_p) => vx_p, None => { break; } };' % (m.group(1), m.group(2), m.group(3)), 'R35'),
    (r'let Some\((\w+)\) = (\w+)\.iter\(\)\.position\(\|c\| c == &(\w+)\) else \{[^}]*break;\s*\};', lambda m: 'let %s = match vx_position_eq(%s, %s) { Some(vx_p) => vx_p, None => { break; } };' % (m.group(1), m.group(2), m.group(3)), 'R35'),
    (r'for \(name, _ctype, required\) in elemtype\.attribute_spec_iter\(\) \{',
     lambda m: 'let mut vx_it = elemtype.attribute_spec_iter(); loop { let (name, _ctype, required) = match vx_it.next() { Some(vx_x) => vx_x, None => { break; } };', 'R44'),
    (r'attributes\.iter\(\)\.any\(\|attr: &Attribute\| attr\.attrname == name\)', lambda m: 'vx_has_attr(&attributes, name)', 'R44'),
    (r'!(\w+)\.is_empty\(\)', lambda m: '!(%s.len() == 0)' % m.group(1), 'R16'),
]

V = 'self.fileversion as u32'
T = 'elemtype.typ as int'


def make_unit(repo_dir):
    parser_funnel.check_decls(repo_dir)
    lookups.check_decls(repo_dir)
    sz = lookups.table_sizes(repo_dir)
    lspec = lookups.TYPES % dict(version_enum='', STATICS='', REFERENCE_TYPE_IDX=sz['REFERENCE_TYPE_IDX'], **{k: v[1] for k, v in sz.items() if isinstance(v, tuple)})
    et = elemcheck.TYPES % dict(version_enum=parser_funnel.version_enum(repo_dir))
    a = et.index('// "the element already has a child element with this name"')
    b = et.index('pub fn vx_idx_eq')
    et = et[:a] + et[b:]
    spec = lspec + et + TYPES
    lf = {f.label: f for f in lookups.fns(sz)}
    pf = {f.label: f for f in parser_funnel.fns()}
    vp = {f.label: f for f in valueparse.make_unit(repo_dir).fns}
    common = ['self.same_core(old(self))', 'elemtype.typ < n_dt()', 'wf_tables()', 'self.strict ==> attrs_ok(attributes@, %s, %s)' % (T, V)]
    fn = FnSpec('parse_attribute_text', F, impl=IMPL_P, ret='r', body_sub=R44,
                sig_sub=[(r'Result<SmallVec<\[Attribute; 1\]>, AutosarDataError>', 'Result<Vec<Attribute>, AutosarDataError>')],
                requires=['elemtype.typ < n_dt()'],
                ensures=['final(self).same_core(old(self))',
                         'old(self).strict ==> (r matches Ok(a) ==> attrs_ok(a@, %s, old(self).fileversion as u32) && required_present(a@, %s, attrs_of(%s).len() as int))' % (T, T, T)],
                loops={0: dict(invariant=['rem.len() <= attributes_text.len()'] + common, decreases='rem.len()'),
                       1: dict(invariant=['nextattr_start <= rem.len()', 'endquote_pos < rem.len()'], decreases='rem.len() - nextattr_start'),
                       2: dict(invariant=common + ['vx_it.type_id == elemtype.typ'],
                               invariant_except_break=['vx_it.pos <= attrs_of(%s).len()' % T, 'self.strict ==> required_present(attributes@, %s, vx_it.pos as int)' % T],
                               ensures=['self.same_core(old(self))', 'self.strict ==> attrs_ok(attributes@, %s, %s)' % (T, V),
                                        'self.strict ==> required_present(attributes@, %s, attrs_of(%s).len() as int)' % (T, T)],
                               decreases='attrs_of(%s).len() - vx_it.pos' % T)},
                proofs=[dict(at='body_start', text='proof { axiom_tables(); }'),
                        dict(before=r'^\s*attributes\.push\(Attribute \{', text='let ghost old_attrs = attributes@;\nlet ghost gspec = *ctype;'),
                        dict(after=r'content: attr_value,\s*\n\s*\}\);', text='''proof {
    if self.strict {
        let t = elemtype.typ as int; let v = self.fileversion as u32;
        let x = attributes@[attributes@.len() - 1];
        assert(version_mask & v == v & version_mask) by(bit_vector);
        assert(attr_ok(x, t, v));
        assert forall|i: int| 0 <= i < attributes@.len() implies attr_ok(#[trigger] attributes@[i], t, v) by {
            if i < attributes@.len() - 1 { assert(attributes@[i] == old_attrs[i]); }
        }
    }
}'''),
                        dict(after=r'let mut vx_it = elemtype\.attribute_spec_iter\(\); loop \{ let \(name, _ctype, required\) = match vx_it\.next\(\) \{ Some\(vx_x\) => vx_x, None => \{ break; \} \};', indent=True,
                             text='proof { assert(name == attrs_of(elemtype.typ as int)[vx_it.pos - 1].0 && required == attrs_of(elemtype.typ as int)[vx_it.pos - 1].2); }'),
                        ])
    u = Unit(name='attrparse', prop='C08', spec=spec, fns=[fn],
             wrap={IMPL_P: "impl<'a> ArxmlParser<'a>", lookups.IMPL_ET: 'impl ElementType', lookups.IMPL_AI: 'impl AttrDefinitionsIter'},
             dropped=['SmallVec -> Vec; Attribute is {attrname, content} with an opaque CharacterData; error payloads opaque (R36); the leftover-text finding is the leaf vx_attr_value_error',
                      'callees are leaves with the contracts proved in units lookups / lexer / valueparse; `accepted` (value validity, unit valueparse) is uninterpreted here',
                      ])
    for name in ('ArxmlParser.error', 'optional_error', 'check_version'):
        u.leaves.append((pf[name], 'lexer'))
    pcd = copy.copy(vp['parse_character_data'])
    pcd.sig_sub = []
    u.leaves.append((pcd, 'valueparse'))
    for name in ('find_attribute_spec', 'attribute_spec_iter', 'AttrDefinitionsIter.next'):
        u.leaves.append((lf[name], 'lookups'))
    return u
