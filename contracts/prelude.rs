// ---- prelude: byte-class specs and verified helpers that stand for std iterator adapters ----
pub open spec fn is_ws(c: u8) -> bool { c == 32 || c == 9 || c == 10 || c == 12 || c == 13 }

pub assume_specification[ u8::is_ascii_whitespace ](c: &u8) -> (r: bool)
    ensures r == is_ws(*c);

// number of occurrences of byte b in s (used for the line count: b == 10)
pub open spec fn count(s: Seq<u8>, b: u8) -> nat
    decreases s.len()
{
    if s.len() == 0 { 0 } else { count(s.drop_last(), b) + if s.last() == b { 1nat } else { 0nat } }
}

pub proof fn lemma_count_bound(s: Seq<u8>, b: u8)
    ensures count(s, b) <= s.len()
    decreases s.len()
{
    if s.len() > 0 { lemma_count_bound(s.drop_last(), b); }
}

pub proof fn lemma_count_push(s: Seq<u8>, c: u8, b: u8)
    ensures count(s.push(c), b) == count(s, b) + if c == b { 1nat } else { 0nat }
{
    assert(s.push(c).drop_last() =~= s);
}

pub proof fn lemma_count_concat(s: Seq<u8>, t: Seq<u8>, b: u8)
    ensures count(s + t, b) == count(s, b) + count(t, b)
    decreases t.len()
{
    if t.len() == 0 {
        assert(s + t =~= s);
    } else {
        lemma_count_concat(s, t.drop_last(), b);
        assert((s + t).drop_last() =~= s + t.drop_last());
    }
}

// count over a split: s[a..c] = s[a..b] ++ s[b..c]
pub proof fn lemma_count_split(s: Seq<u8>, a: int, m: int, c: int, b: u8)
    requires 0 <= a <= m <= c <= s.len()
    ensures count(s.subrange(a, c), b) == count(s.subrange(a, m), b) + count(s.subrange(m, c), b)
{
    assert(s.subrange(a, c) =~= s.subrange(a, m) + s.subrange(m, c));
    lemma_count_concat(s.subrange(a, m), s.subrange(m, c), b);
}

pub proof fn lemma_count_sub_le(s: Seq<u8>, a: int, c: int, b: u8)
    requires 0 <= a <= c <= s.len()
    ensures count(s.subrange(a, c), b) <= count(s, b)
{
    lemma_count_split(s, 0, a, c, b);
    lemma_count_split(s, 0, c, s.len() as int, b);
    assert(s.subrange(0, s.len() as int) =~= s);
}

pub fn vx_count_eq(x: &[u8], b: u8) -> (r: usize)
    ensures r == count(x@, b)
{
    let mut i: usize = 0;
    let mut n: usize = 0;
    while i < x.len()
        invariant i <= x.len(), n == count(x@.subrange(0, i as int), b), n <= i,
        decreases x.len() - i
    {
        proof {
            assert(x@.subrange(0, i + 1) =~= x@.subrange(0, i as int).push(x@[i as int]));
            lemma_count_push(x@.subrange(0, i as int), x@[i as int], b);
        }
        if x[i] == b { n += 1; }
        i += 1;
    }
    proof { assert(x@.subrange(0, i as int) =~= x@); }
    n
}

pub fn vx_position_ws(x: &[u8]) -> (r: Option<usize>)
    ensures
        match r {
            Some(i) => i < x.len() && is_ws(x@[i as int]) && forall|k: int| 0 <= k < i ==> !is_ws(#[trigger] x@[k]),
            None => forall|k: int| 0 <= k < x.len() ==> !is_ws(#[trigger] x@[k]),
        }
{
    let mut i: usize = 0;
    while i < x.len()
        invariant i <= x.len(), forall|k: int| 0 <= k < i ==> !is_ws(#[trigger] x@[k]),
        decreases x.len() - i
    {
        if x[i].is_ascii_whitespace() { return Some(i); }
        i += 1;
    }
    None
}

pub fn vx_position_non_ws(x: &[u8]) -> (r: Option<usize>)
    ensures
        match r {
            Some(i) => i < x.len() && !is_ws(x@[i as int]) && forall|k: int| 0 <= k < i ==> is_ws(#[trigger] x@[k]),
            None => forall|k: int| 0 <= k < x.len() ==> is_ws(#[trigger] x@[k]),
        }
{
    let mut i: usize = 0;
    while i < x.len()
        invariant i <= x.len(), forall|k: int| 0 <= k < i ==> is_ws(#[trigger] x@[k]),
        decreases x.len() - i
    {
        if !x[i].is_ascii_whitespace() { return Some(i); }
        i += 1;
    }
    None
}

pub fn vx_position_eq(x: &[u8], b: u8) -> (r: Option<usize>)
    ensures
        match r {
            Some(i) => i < x.len() && x@[i as int] == b && forall|k: int| 0 <= k < i ==> #[trigger] x@[k] != b,
            None => forall|k: int| 0 <= k < x.len() ==> #[trigger] x@[k] != b,
        }
{
    let mut i: usize = 0;
    while i < x.len()
        invariant i <= x.len(), forall|k: int| 0 <= k < i ==> #[trigger] x@[k] != b,
        decreases x.len() - i
    {
        if x[i] == b { return Some(i); }
        i += 1;
    }
    None
}

pub fn vx_all_ws(x: &[u8]) -> (r: bool)
    ensures r == forall|k: int| 0 <= k < x.len() ==> is_ws(#[trigger] x@[k])
{
    let mut i: usize = 0;
    while i < x.len()
        invariant i <= x.len(), forall|k: int| 0 <= k < i ==> is_ws(#[trigger] x@[k]),
        decreases x.len() - i
    {
        if !x[i].is_ascii_whitespace() { return false; }
        i += 1;
    }
    true
}

// slice == / starts_with / ends_with against a literal
pub fn vx_eq(x: &[u8], y: &[u8]) -> (r: bool)
    ensures r == (x@ == y@),
        r == (x.len() == y.len() && forall|k: int| 0 <= k < y.len() ==> #[trigger] x@[k] == y@[k]),
{
    if x.len() != y.len() { return false; }
    let mut i: usize = 0;
    while i < x.len()
        invariant i <= x.len(), x.len() == y.len(), forall|k: int| 0 <= k < i ==> x@[k] == y@[k],
        decreases x.len() - i
    {
        if x[i] != y[i] { return false; }
        i += 1;
    }
    proof { assert(x@ =~= y@); }
    true
}

pub open spec fn seq_starts_with(s: Seq<u8>, p: Seq<u8>) -> bool {
    s.len() >= p.len() && s.subrange(0, p.len() as int) == p
}
pub open spec fn seq_ends_with(s: Seq<u8>, p: Seq<u8>) -> bool {
    s.len() >= p.len() && s.subrange(s.len() - p.len(), s.len() as int) == p
}

pub fn vx_starts_with(x: &[u8], p: &[u8]) -> (r: bool)
    ensures r == seq_starts_with(x@, p@),
        r == (x.len() >= p.len() && forall|k: int| 0 <= k < p.len() ==> #[trigger] x@[k] == p@[k]),
{
    if x.len() < p.len() { return false; }
    let mut i: usize = 0;
    while i < p.len()
        invariant i <= p.len(), p.len() <= x.len(), forall|k: int| 0 <= k < i ==> x@[k] == p@[k],
        decreases p.len() - i
    {
        if x[i] != p[i] {
            proof { assert(x@.subrange(0, p.len() as int)[i as int] == x@[i as int]); }
            return false;
        }
        i += 1;
    }
    proof { assert(x@.subrange(0, p.len() as int) =~= p@); }
    true
}

pub fn vx_ends_with(x: &[u8], p: &[u8]) -> (r: bool)
    ensures r == seq_ends_with(x@, p@)
{
    if x.len() < p.len() { return false; }
    let off = x.len() - p.len();
    let mut i: usize = 0;
    while i < p.len()
        invariant i <= p.len(), p.len() <= x.len(), off == x.len() - p.len(), forall|k: int| 0 <= k < i ==> x@[off + k] == p@[k],
        decreases p.len() - i
    {
        if x[off + i] != p[i] {
            proof { assert(x@.subrange(x.len() - p.len(), x.len() as int)[i as int] == x@[off + i]); }
            return false;
        }
        i += 1;
    }
    proof { assert(x@.subrange(x.len() - p.len(), x.len() as int) =~= p@); }
    true
}

// rule R10: `debug_assert!(E)` becomes a call whose precondition is E
pub fn vx_debug_assert(b: bool)
    requires b
{}

// ---- ASCII classes (rule R11: std's u8::is_ascii_* are specified, not verified) and `.iter().all(..)` helpers (rule R15)
pub open spec fn is_upper(c: u8) -> bool { 65 <= c <= 90 }
pub open spec fn is_lower(c: u8) -> bool { 97 <= c <= 122 }
pub open spec fn is_alpha(c: u8) -> bool { is_upper(c) || is_lower(c) }
pub open spec fn is_digit(c: u8) -> bool { 48 <= c <= 57 }
pub open spec fn is_alnum(c: u8) -> bool { is_alpha(c) || is_digit(c) }
pub open spec fn is_hexdigit(c: u8) -> bool { is_digit(c) || (65 <= c <= 70) || (97 <= c <= 102) }

pub assume_specification[ u8::is_ascii_alphabetic ](c: &u8) -> (r: bool) ensures r == is_alpha(*c);
pub assume_specification[ u8::is_ascii_alphanumeric ](c: &u8) -> (r: bool) ensures r == is_alnum(*c);
pub assume_specification[ u8::is_ascii_digit ](c: &u8) -> (r: bool) ensures r == is_digit(*c);
pub assume_specification[ u8::is_ascii_hexdigit ](c: &u8) -> (r: bool) ensures r == is_hexdigit(*c);
pub assume_specification[ u8::is_ascii_uppercase ](c: &u8) -> (r: bool) ensures r == is_upper(*c);

pub fn vx_all_digit(x: &[u8]) -> (r: bool)
    ensures r == forall|k: int| 0 <= k < x.len() ==> is_digit(#[trigger] x@[k])
{
    let mut i: usize = 0;
    while i < x.len()
        invariant i <= x.len(), forall|k: int| 0 <= k < i ==> is_digit(#[trigger] x@[k]),
        decreases x.len() - i
    {
        if !x[i].is_ascii_digit() { return false; }
        i += 1;
    }
    true
}

pub fn vx_all_hexdigit(x: &[u8]) -> (r: bool)
    ensures r == forall|k: int| 0 <= k < x.len() ==> is_hexdigit(#[trigger] x@[k])
{
    let mut i: usize = 0;
    while i < x.len()
        invariant i <= x.len(), forall|k: int| 0 <= k < i ==> is_hexdigit(#[trigger] x@[k]),
        decreases x.len() - i
    {
        if !x[i].is_ascii_hexdigit() { return false; }
        i += 1;
    }
    true
}

// `.all(|c| c.is_ascii_alphanumeric() || *c == b1 [|| *c == b2])`
pub fn vx_all_alnum_or2(x: &[u8], b1: u8, b2: u8) -> (r: bool)
    ensures r == forall|k: int| 0 <= k < x.len() ==> (is_alnum(#[trigger] x@[k]) || x@[k] == b1 || x@[k] == b2)
{
    let mut i: usize = 0;
    while i < x.len()
        invariant i <= x.len(), forall|k: int| 0 <= k < i ==> (is_alnum(#[trigger] x@[k]) || x@[k] == b1 || x@[k] == b2),
        decreases x.len() - i
    {
        if !(x[i].is_ascii_alphanumeric() || x[i] == b1 || x[i] == b2) { return false; }
        i += 1;
    }
    true
}

// "all bytes of s[a..] are in class" == "all bytes of s from index a on are in class" (bridges `X[a..].iter().all(..)`)
pub proof fn lemma_all_hexdigit_from(s: Seq<u8>, a: int)
    requires 0 <= a <= s.len()
    ensures (forall|j: int| 0 <= j < s.subrange(a, s.len() as int).len() ==> is_hexdigit(#[trigger] s.subrange(a, s.len() as int)[j]))
         == (forall|k: int| a <= k < s.len() ==> is_hexdigit(#[trigger] s[k]))
{
    let sub = s.subrange(a, s.len() as int);
    if forall|j: int| 0 <= j < sub.len() ==> is_hexdigit(#[trigger] sub[j]) {
        assert forall|k: int| a <= k < s.len() implies is_hexdigit(#[trigger] s[k]) by { assert(sub[k - a] == s[k]); }
    }
    if forall|k: int| a <= k < s.len() ==> is_hexdigit(#[trigger] s[k]) {
        assert forall|j: int| 0 <= j < sub.len() implies is_hexdigit(#[trigger] sub[j]) by { assert(sub[j] == s[j + a]); }
    }
}
pub proof fn lemma_all_digit_from(s: Seq<u8>, a: int)
    requires 0 <= a <= s.len()
    ensures (forall|j: int| 0 <= j < s.subrange(a, s.len() as int).len() ==> is_digit(#[trigger] s.subrange(a, s.len() as int)[j]))
         == (forall|k: int| a <= k < s.len() ==> is_digit(#[trigger] s[k]))
{
    let sub = s.subrange(a, s.len() as int);
    if forall|j: int| 0 <= j < sub.len() ==> is_digit(#[trigger] sub[j]) {
        assert forall|k: int| a <= k < s.len() implies is_digit(#[trigger] s[k]) by { assert(sub[k - a] == s[k]); }
    }
    if forall|k: int| a <= k < s.len() ==> is_digit(#[trigger] s[k]) {
        assert forall|j: int| 0 <= j < sub.len() implies is_digit(#[trigger] sub[j]) by { assert(sub[j] == s[j + a]); }
    }
}

pub proof fn lemma_sub1_index(s: Seq<u8>)
    requires s.len() >= 1
    ensures forall|k: int| 0 <= k < s.len() - 1 ==> #[trigger] s.subrange(1, s.len() as int)[k] == s[k + 1]
{}

// ---- slice::split(|c| *c == sep): lazily yields the maximal sep-free pieces, including empty ones (rule R25)
pub open spec fn first_sep(s: Seq<u8>, sep: u8, from: int) -> int
    decreases s.len() - from
{
    if from >= s.len() { s.len() as int } else if s[from] == sep { from } else { first_sep(s, sep, from + 1) }
}
pub proof fn lemma_first_sep(s: Seq<u8>, sep: u8, from: int)
    requires 0 <= from <= s.len()
    ensures from <= first_sep(s, sep, from) <= s.len(),
            forall|k: int| from <= k < first_sep(s, sep, from) ==> #[trigger] s[k] != sep,
            first_sep(s, sep, from) < s.len() ==> s[first_sep(s, sep, from)] == sep
    decreases s.len() - from
{
    if from < s.len() && s[from] != sep { lemma_first_sep(s, sep, from + 1); }
}
pub struct VxSplit<'a> { pub s: &'a [u8], pub sep: u8, pub pos: usize, pub done: bool }
impl<'a> VxSplit<'a> {
    pub open spec fn wf(&self) -> bool { self.pos <= self.s.len() }
    pub fn new(s: &'a [u8], sep: u8) -> (r: Self)
        ensures r.wf(), r.s == s, r.sep == sep, r.pos == 0, !r.done
    { VxSplit { s, sep, pos: 0, done: false } }
    pub fn next(&mut self) -> (r: Option<&'a [u8]>)
        requires old(self).wf()
        ensures
            final(self).wf(), final(self).s == old(self).s, final(self).sep == old(self).sep,
            old(self).done ==> r.is_none() && final(self).done && final(self).pos == old(self).pos,
            !old(self).done ==> ({
                let e = first_sep(old(self).s@, old(self).sep, old(self).pos as int);
                &&& r matches Some(p) && p@ == old(self).s@.subrange(old(self).pos as int, e)
                &&& (e < old(self).s.len() ==> final(self).pos == e + 1 && !final(self).done)
                &&& (e == old(self).s.len() ==> final(self).pos == e && final(self).done)
            }),
    {
        if self.done { return None; }
        let start = self.pos;
        let mut i = self.pos;
        proof { lemma_first_sep(self.s@, self.sep, start as int); }
        while i < self.s.len() && self.s[i] != self.sep
            invariant start <= i <= self.s.len(), self.pos == start, self.wf(),
                first_sep(self.s@, self.sep, i as int) == first_sep(self.s@, self.sep, start as int),
            decreases self.s.len() - i
        { i += 1; }
        if i < self.s.len() { self.pos = i + 1; } else { self.pos = i; self.done = true; }
        let piece = &self.s[start..i];
        Some(piece)
    }
}
