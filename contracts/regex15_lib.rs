// ---- proof library for validate_regex_15 (template; the percent-placeholders are state numbers read off the minimal DFA)
pub open spec fn allhex(p: Seq<u8>) -> bool { forall|k: int| 0 <= k < p.len() ==> is_hexdigit(#[trigger] p[k]) }
pub open spec fn good15(p: Seq<u8>) -> bool { 1 <= p.len() <= 4 && allhex(p) }
pub open spec fn any_lit() -> Seq<u8> { seq![65u8, 78u8, 89u8] }

// state after a ':'-free piece p read from s15(c, 0)
pub open spec fn st_piece15(c: int, p: Seq<u8>) -> int {
    if p.len() == 0 { s15(c, 0) }
    else if c == 0 && p =~= seq![65u8] { %(qA)dint }
    else if c == 0 && p =~= seq![65u8, 78u8] { %(qAN)dint }
    else if c == 0 && p =~= any_lit() { %(qANY)dint }
    else if good15(p) { s15(c, p.len() as int) }
    else { %(DEAD)dint }
}
pub proof fn lemma_piece_15(c: int, p: Seq<u8>)
    requires 0 <= c <= 7, forall|k: int| 0 <= k < p.len() ==> #[trigger] p[k] != 58
    ensures ref_run_15(s15(c, 0), p) == st_piece15(c, p)
    decreases p.len()
{
    if p.len() > 0 {
        let t = p.drop_last();
        lemma_piece_15(c, t);
        assert forall|k: int| 0 <= k < t.len() implies t[k] == p[k] by {}
        if allhex(t) && is_hexdigit(p.last()) {
            assert forall|k: int| 0 <= k < p.len() implies is_hexdigit(#[trigger] p[k]) by { if k < t.len() { assert(t[k] == p[k]); } }
        }
        if allhex(p) {
            assert forall|k: int| 0 <= k < t.len() implies is_hexdigit(#[trigger] t[k]) by { assert(t[k] == p[k]); }
        }
        if t.len() >= 1 { assert(t[0] == p[0]); }
        if t.len() >= 2 { assert(t[1] == p[1]); }
        if t.len() >= 3 { assert(t[2] == p[2]); }
    }
}

// ---- the pieces of s between separators (forward)
pub open spec fn pstart(s: Seq<u8>, sep: u8, j: nat) -> int
    decreases j
{
    if j == 0 { 0 } else { first_sep(s, sep, pstart(s, sep, (j - 1) as nat)) + 1 }
}
pub open spec fn pend(s: Seq<u8>, sep: u8, j: nat) -> int { first_sep(s, sep, pstart(s, sep, j)) }
pub open spec fn has_piece(s: Seq<u8>, sep: u8, j: nat) -> bool
    decreases j
{
    j == 0 || (has_piece(s, sep, (j - 1) as nat) && pend(s, sep, (j - 1) as nat) < s.len())
}
pub open spec fn piece(s: Seq<u8>, sep: u8, j: nat) -> Seq<u8> { s.subrange(pstart(s, sep, j), pend(s, sep, j)) }
pub proof fn lemma_piece_bounds(s: Seq<u8>, sep: u8, j: nat)
    requires has_piece(s, sep, j)
    ensures 0 <= pstart(s, sep, j) <= pend(s, sep, j) <= s.len(),
            forall|k: int| pstart(s, sep, j) <= k < pend(s, sep, j) ==> #[trigger] s[k] != sep,
            pend(s, sep, j) < s.len() ==> s[pend(s, sep, j)] == sep
    decreases j
{
    if j > 0 { lemma_piece_bounds(s, sep, (j - 1) as nat); }
    lemma_first_sep(s, sep, pstart(s, sep, j));
}

pub proof fn lemma_next_piece(s: Seq<u8>, sep: u8, n: nat)
    requires has_piece(s, sep, n), pend(s, sep, n) < s.len()
    ensures has_piece(s, sep, n + 1), pstart(s, sep, n + 1) == pend(s, sep, n) + 1
{}

// `X.split(|c| *c == sep).collect::<Vec<&[u8]>>()` (rule R26): all pieces, in order; the last one ends at the end of X
#[verifier::spinoff_prover]
pub fn vx_split_collect<'a>(s: &'a [u8], sep: u8) -> (r: Vec<&'a [u8]>)
    ensures r@.len() >= 1, has_piece(s@, sep, (r@.len() - 1) as nat), pend(s@, sep, (r@.len() - 1) as nat) == s.len(),
            forall|j: int| 0 <= j < r@.len() ==> (#[trigger] r@[j])@ == piece(s@, sep, j as nat)
{
    let mut sp = VxSplit::new(s, sep);
    let mut v: Vec<&'a [u8]> = Vec::new();
    loop
        invariant_except_break
            !sp.done, has_piece(s@, sep, v@.len() as nat), sp.pos == pstart(s@, sep, v@.len() as nat),
        invariant
            sp.wf(), sp.s == s, sp.sep == sep,
            forall|j: int| 0 <= j < v@.len() ==> (#[trigger] v@[j])@ == piece(s@, sep, j as nat),
        ensures
            v@.len() >= 1, has_piece(s@, sep, (v@.len() - 1) as nat), pend(s@, sep, (v@.len() - 1) as nat) == s.len(),
        decreases (if sp.done { 0int } else { 1int }) + s.len() - sp.pos
    {
        proof { lemma_piece_bounds(s@, sep, v@.len() as nat); }
        let ghost n = v@.len() as nat;
        let ghost v0 = v@;
        match sp.next() {
            None => { break; }
            Some(p) => {
                v.push(p);
                proof {
                    assert(v@ =~= v0.push(p));
                    assert forall|j: int| 0 <= j < v@.len() implies (#[trigger] v@[j])@ == piece(s@, sep, j as nat) by { if j < n { assert(v@[j] == v0[j]); } }
                    if !sp.done { lemma_next_piece(s@, sep, n); }
                }
                if sp.done { break; }
            }
        }
    }
    v
}

pub open spec fn allgood15(s: Seq<u8>, j: nat) -> bool
    decreases j
{
    j == 0 || (allgood15(s, (j - 1) as nat) && good15(piece(s, 58u8, (j - 1) as nat)))
}
pub proof fn lemma_allgood_mono(s: Seq<u8>, i: nat, j: nat)
    requires i <= j, allgood15(s, j)
    ensures allgood15(s, i)
    decreases j - i
{
    if i < j { lemma_allgood_mono(s, i, (j - 1) as nat); }
}

// what ':' does after a piece
pub proof fn lemma_colon_15(c: int, p: Seq<u8>)
    requires 0 <= c <= 7
    ensures ref_delta_15(st_piece15(c, p), 58u8) == (if good15(p) && c < 7 { s15(c + 1, 0) } else { %(DEAD)dint })
{
    if c == 0 && p =~= seq![65u8] { assert(p.len() == 1 && p[0] == 65u8); assert(allhex(p)); }
    if c == 0 && p =~= seq![65u8, 78u8] { assert(p[1] == 78u8); assert(!is_hexdigit(p[1])); }
    if c == 0 && p =~= any_lit() { assert(p[1] == 78u8); assert(!is_hexdigit(p[1])); }
}

// state after the first j pieces, each followed by its ':'
pub proof fn lemma_prefix_15(s: Seq<u8>, j: nat)
    requires has_piece(s, 58u8, j)
    ensures ref_run_15(0, s.subrange(0, pstart(s, 58u8, j))) == (if j == 0 { 0int } else if j <= 7 && allgood15(s, j) { s15(j as int, 0) } else { %(DEAD)dint })
    decreases j
{
    if j == 0 {
        assert(s.subrange(0, 0) =~= Seq::<u8>::empty());
    } else {
        let i = (j - 1) as nat;
        lemma_prefix_15(s, i);
        lemma_piece_bounds(s, 58u8, i);
        let a = pstart(s, 58u8, i);
        let e = pend(s, 58u8, i);
        let p = piece(s, 58u8, i);
        let pre = s.subrange(0, a);
        assert(s.subrange(0, e) =~= pre + p);
        lemma_concat_15(0, pre, p);
        assert(s.subrange(0, e + 1) =~= s.subrange(0, e).push(58u8));
        lemma_push_15(0, s.subrange(0, e), 58u8);
        let q = ref_run_15(0, pre);
        if q == %(DEAD)d { lemma_dead_15(p); }
        else { lemma_piece_15(i as int, p); lemma_colon_15(i as int, p); }
        assert(allgood15(s, j) == (allgood15(s, i) && good15(p)));
    }
}

// the language, in terms of the pieces: "ANY", or exactly 8 pieces of 1..4 hex digits
pub proof fn lemma_final_15(s: Seq<u8>, n: nat)
    requires n >= 1, has_piece(s, 58u8, (n - 1) as nat), pend(s, 58u8, (n - 1) as nat) == s.len()
    ensures ref_accept_15(ref_run_15(0, s)) == ((n == 1 && s =~= any_lit()) || (n == 8 && allgood15(s, 8)))
{
    let i = (n - 1) as nat;
    lemma_prefix_15(s, i);
    lemma_piece_bounds(s, 58u8, i);
    let a = pstart(s, 58u8, i);
    let p = piece(s, 58u8, i);
    let pre = s.subrange(0, a);
    assert(s =~= pre + p);
    lemma_concat_15(0, pre, p);
    let q = ref_run_15(0, pre);
    if q == %(DEAD)d { lemma_dead_15(p); }
    else { lemma_piece_15(i as int, p); }
    if n == 1 { assert(p =~= s); }
    if n == 8 { assert(allgood15(s, 8) == (allgood15(s, 7) && good15(p))); }
}

pub proof fn lemma_any_15()
    ensures ref_accept_15(ref_run_15(0, any_lit()))
{
    let p = any_lit();
    assert(p.len() == 3 && p[0] == 65u8 && p[1] == 78u8 && p[2] == 89u8);
    lemma_piece_15(0, p);
}
