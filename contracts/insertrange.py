"""C07 / unit `insertrange`: the editing side of "what the editing API builds conforms to the specification":

    ElementRaw::calc_element_insert_range          (elementraw.rs)  the insertion range from sequence / choice / bag groups
    ElementRaw::create_sub_element(_at / _inner)   (elementraw.rs)  "created at position p exactly when p lies in the range"
    ElementRaw::create_named_sub_element(_at), create_copied_sub_element_at: the position test only (their _inner functions are leaves)
    ElementRaw::remove_sub_element                 (elementraw.rs)  only a child is removed, never the SHORT-NAME of an identifiable element;
                                                                    exactly the first entry holding the handle goes, the rest keeps its order
    Element::insert_character_content_item, remove_character_content_item (element.rs)  Ok only for Mixed content and a position inside the
                                                                    content (removal: holding a character item, never a sub-element); exactly that item is
                                                                    inserted / removed, a refused call changes nothing
    ElementRaw::move_element_here / move_element_here_at (elementraw.rs)  the position test of a move: no range, no move; a position outside the
                                                                    range is refused and nothing changes; inside its own parent the element occupies one
                                                                    place of the range (last position b - 1; an element already here stays where it is);
                                                                    the three ways of carrying out the move (position / local / full) are leaves
    ElementRaw::move_element_position, Element::list_valid_sub_elements, ElementRaw::sort (unit sortnode)

The element graph (Arc<RwLock<..>>, SmallVec, HashSet) is out of the verifier's reach, so the *node* is modelled by what these functions
read: ElementRaw { elemname, elemtype, content } with `content` a Vec of ElementContent; a child Element is an opaque handle whose
element name is the uninterpreted function name_of (reading it takes the child's lock in the real code).  Everything else -- the loop,
the comparisons, the early returns, the index arithmetic -- is the real text.

Contract of calc_element_insert_range (strongest postcondition, for every element type, name, version, any children, any table
contents satisfying wf_tables()/wf_modes()).  Write N for the index list of the new element, kid(i) for the index list of child i,
m(i) for the content mode of the innermost group containing both:

    Characters element                        ==> Err
    name not listed for the version           ==> Err
    Bag / Mixed element                       ==> Ok((0, len))
    otherwise  Ok((a, b))  ==>  a <= b <= len
                               every child i < b: no conflict (m(i) == Choice ==> kid(i) == N;  kid(i) == N in a Sequence/Choice ==> N may repeat)
                                                  and, in a Sequence, N is not smaller than kid(i)
                               children a <= i < b that share a Sequence with N are equal to N;  child a-1 shares a Sequence and is smaller
                               b < len ==> child b shares a Sequence with N and N is smaller than it            (b is the *first* such child)
               Err         ==>  some child i conflicts with N (alternative of an exclusive choice, or equal and not repeatable) and no
                                earlier child ends the scan
    and no panic for ANY node: a child that is not listed for `version` (possible after lenient loading) is placed by the versions in
    which it exists (kid() below) -- the pinned tree unwrapped that lookup and panicked (fix 7212767, see known_findings.json); the
    unreachable!() on Characters groups is unreachable.

Property lemma lemma_range_is_exact (the sentence of C07): if all children share a Sequence with N and are in specification order,
then for every position p:  inserting N at p keeps the children in specification order  <==>  a <= p <= b.
General form (insertrange_general.rs), for every content mode: with pair_ok(x, y) := "x may stand before y" (in their common Sequence
group: x <= y, equal only if the element may repeat; in their common Choice group: x == y and repeatable; Bag / Mixed: always) and
conform := pair_ok for all pairs of children,
    lemma_range_is_exact_general   conform  &&  Ok((a, b))  ==>  (inserting at p keeps conform  <==>  a <= p <= b)
    lemma_refusal_is_exact         Err                      ==>  no position keeps conform
    lemma_creation_keeps_conform   conform is a representation invariant: a creation inside the range preserves it
The step that needs real work is the soundness of ending the scan at the first later sibling (lemma_after_chain / lemma_before_chain:
induction over the group tree along the index lists); pair_ok is literally the oracle of the bounded API check `api editconform`.

create_sub_element_at: Ok ==> the range is Ok((a, b)), a <= position <= b, and the content is the old content with the new element
inserted at `position` (nothing else changed); position outside the range ==> Err and the content is unchanged.

Callees: the specification lookups are leaves carrying the contracts that unit lookups proves -- among them find_is: find_sub_element
returns exactly find_from(type, 0, name, version), the depth-first first hit in listing order, so "the index list of child i" is a spec
function of the node and no determinism assumption is needed.
`Vec<usize>::cmp` is the verified helper vx_lex_cmp (lexicographic order, as documented for Vec).

Rules R39: `AutosarDataError::Variant { .. }` / `AutosarDataError::InvalidPosition` -> opaque AutosarDataError::VxOther(0);
`for (idx, x) in self.content.iter().enumerate() {` -> index loop (R18); `A.cmp(&B)` on index lists -> vx_lex_cmp(&A, &B);
`A == B` on index lists -> vx_vec_eq; `&V` passed as slice -> V.as_slice(); `E.ok_or(ERR)?` -> match with early return;
the `ElementRaw { .. }.wrap()` literal -> leaf vx_new_element; `unreachable!(); // ...` kept.
R55 (remove_sub_element): `Cow::from(self.path_unchecked()?)` -> opaque path; the child's write guard is dropped, its `elemname` is read through
element_name(); `.iter().position(closure).ok_or(ERR)?` -> verified helper vx_position_of + early return; the recursive un-registration
`remove_internal` is a leaf (hash maps, locks).  R57 (moves): `model == model_src` -> leaf vx_same_model; `move_element.parent()?.ok_or(ERR)?` -> match with early return; `src_parent.downgrade() == self_weak` ->
leaf vx_is_behind.  R56 (character items): `let mut element = self.0.write();` -> the node behind the write guard
is a `&mut ElementRaw` parameter of the unit's function; `CharacterData::String(chardata.to_owned())` -> leaf vx_string_value.
"""
import copy
import os
import re

from vxlib.verusunit import Unit, FnSpec
from vxlib.rustsrc import Source, Lost
from contracts.deepcopy import INNER_FRAME
from contracts import parser_funnel, lookups, elemcheck

F = 'autosar-data/src/elementraw.rs'
IMPL_R = r'impl ElementRaw'


def check_decls(repo_dir):
    src = Source(os.path.join(repo_dir, 'autosar-data/src/lib.rs'))
    s, o, c = src.find_block(r'^pub\(crate\) struct ElementRaw')
    body = re.sub(r'\s+', ' ', re.sub(r'^\s*///.*\n', '', src.text[o + 1:c], flags=re.M)).strip()
    for want in ('pub(crate) elemname: ElementName,', 'pub(crate) elemtype: ElementType,', 'pub(crate) content: SmallVec<[ElementContent; 4]>,'):
        if want not in body:
            raise Lost('struct ElementRaw changed: %r missing' % want)
    s, o, c = src.find_block(r'^pub enum ElementContent')
    body = re.sub(r'\s+', ' ', re.sub(r'^\s*///.*\n', '', src.text[o + 1:c], flags=re.M)).strip()
    if body != 'Element(Element), CharacterData(CharacterData),':
        raise Lost('enum ElementContent changed: %r' % body)


TYPES = r'''
%(version_enum)s

pub enum AutosarDataError { VxOther(u64) }
pub struct WeakElement { pub opaque: u64 }
#[derive(Clone, Copy, PartialEq, Eq, Structural)]
pub struct Element { pub opaque: u64 }
pub struct CharacterData { pub opaque: u64 }
pub enum ElementContent { Element(Element), CharacterData(CharacterData) }
// the fields these functions read; parent / attributes / file_membership / comment are not touched by them
pub struct ElementRaw { pub elemname: ElementName, pub elemtype: ElementType, pub content: Vec<ElementContent> }

// reading a child's element name takes the child's lock: a function of the handle
pub uninterp spec fn name_of(e: Element) -> ElementName;
pub uninterp spec fn type_of(e: Element) -> ElementType;
impl Element {
    #[verifier::external_body]
    pub fn element_name(&self) -> (r: ElementName) ensures r == name_of(*self) { unimplemented!() }
    #[verifier::external_body]
    pub fn clone(&self) -> (r: Element) ensures r == *self { unimplemented!() }
}
// the node behind a handle (what `self.0.read()` shows); the file version(s) of the element (walks up to the files: leaf, no contract)
pub uninterp spec fn node_of(e: Element) -> ElementRaw;
impl Element {
    #[verifier::external_body]
    pub fn vx_node(&self) -> (r: ElementRaw) ensures r == node_of(*self) { unimplemented!() }
    #[verifier::external_body]
    pub fn min_version(&self) -> (r: Result<AutosarVersion, AutosarDataError>) { unimplemented!() }
}
pub struct ValidSubElementInfo { pub element_name: ElementName, pub is_named: bool, pub is_allowed: bool }
// `ElementRaw { parent, elemname, elemtype, content: smallvec![], .. }.wrap()`: a fresh, empty child of the given name and type
#[verifier::external_body]
pub fn vx_new_element(parent: WeakElement, elemname: ElementName, elemtype: ElementType) -> (r: Element)
    ensures name_of(r) == elemname, type_of(r) == elemtype
{ unimplemented!() }


pub open spec fn lex_cmp(a: Seq<usize>, b: Seq<usize>) -> core::cmp::Ordering
    decreases a.len()
{
    if a.len() == 0 { if b.len() == 0 { core::cmp::Ordering::Equal } else { core::cmp::Ordering::Less } }
    else if b.len() == 0 { core::cmp::Ordering::Greater }
    else if a[0] < b[0] { core::cmp::Ordering::Less }
    else if a[0] > b[0] { core::cmp::Ordering::Greater }
    else { lex_cmp(a.subrange(1, a.len() as int), b.subrange(1, b.len() as int)) }
}
pub open spec fn lex_lt(a: Seq<usize>, b: Seq<usize>) -> bool { lex_cmp(a, b) == core::cmp::Ordering::Less }
pub open spec fn lex_le(a: Seq<usize>, b: Seq<usize>) -> bool { lex_cmp(a, b) != core::cmp::Ordering::Greater }
pub proof fn lemma_lex_eq(a: Seq<usize>, b: Seq<usize>)
    ensures (lex_cmp(a, b) == core::cmp::Ordering::Equal) <==> a == b
    decreases a.len()
{
    if a.len() > 0 && b.len() > 0 && a[0] == b[0] {
        lemma_lex_eq(a.subrange(1, a.len() as int), b.subrange(1, b.len() as int));
        if a.subrange(1, a.len() as int) == b.subrange(1, b.len() as int) {
            assert(a =~= seq![a[0]] + a.subrange(1, a.len() as int));
            assert(b =~= seq![b[0]] + b.subrange(1, b.len() as int));
        }
    } else if a.len() == 0 && b.len() == 0 { assert(a =~= b); }
}
pub proof fn lemma_lex_flip(a: Seq<usize>, b: Seq<usize>)
    ensures lex_cmp(a, b) == core::cmp::Ordering::Less <==> lex_cmp(b, a) == core::cmp::Ordering::Greater,
            lex_cmp(a, b) == core::cmp::Ordering::Equal <==> lex_cmp(b, a) == core::cmp::Ordering::Equal,
    decreases a.len()
{
    if a.len() > 0 && b.len() > 0 && a[0] == b[0] { lemma_lex_flip(a.subrange(1, a.len() as int), b.subrange(1, b.len() as int)); }
}
pub proof fn lemma_lex_trans(a: Seq<usize>, b: Seq<usize>, c: Seq<usize>)
    requires lex_le(a, b), lex_le(b, c)
    ensures lex_le(a, c), (lex_lt(a, b) || lex_lt(b, c)) ==> lex_lt(a, c)
    decreases a.len()
{
    if a.len() > 0 && b.len() > 0 && c.len() > 0 && a[0] == b[0] && b[0] == c[0] {
        lemma_lex_trans(a.subrange(1, a.len() as int), b.subrange(1, b.len() as int), c.subrange(1, c.len() as int));
    }
}
pub fn vx_lex_cmp(a: &Vec<usize>, b: &Vec<usize>) -> (r: core::cmp::Ordering)
    ensures r == lex_cmp(a@, b@)
{
    let mut i: usize = 0;
    proof { assert(a@.subrange(0, a@.len() as int) =~= a@); assert(b@.subrange(0, b@.len() as int) =~= b@); }
    while i < a.len() && i < b.len()
        invariant i <= a.len(), i <= b.len(), lex_cmp(a@, b@) == lex_cmp(a@.subrange(i as int, a@.len() as int), b@.subrange(i as int, b@.len() as int)),
        decreases a.len() - i
    {
        proof {
            let sa = a@.subrange(i as int, a@.len() as int); let sb = b@.subrange(i as int, b@.len() as int);
            assert(sa[0] == a@[i as int] && sb[0] == b@[i as int]);
            assert(sa.subrange(1, sa.len() as int) =~= a@.subrange(i + 1, a@.len() as int));
            assert(sb.subrange(1, sb.len() as int) =~= b@.subrange(i + 1, b@.len() as int));
        }
        if a[i] < b[i] { return core::cmp::Ordering::Less; }
        if a[i] > b[i] { return core::cmp::Ordering::Greater; }
        i += 1;
    }
    if a.len() < b.len() { core::cmp::Ordering::Less } else if a.len() > b.len() { core::cmp::Ordering::Greater } else { core::cmp::Ordering::Equal }
}
pub fn vx_vec_eq(a: &Vec<usize>, b: &Vec<usize>) -> (r: bool) ensures r == (a@ == b@)
{
    let c = vx_lex_cmp(a, b);
    proof { lemma_lex_eq(a@, b@); }
    matches!(c, core::cmp::Ordering::Equal)
}

// ---- the abstract reading of a node
impl ElementRaw {
    pub open spec fn t(&self) -> int { self.elemtype.typ as int }
    // index list of child i (None: character data, or a child that is not listed for the version)
    pub open spec fn kid(&self, i: int, v: u32) -> Option<Seq<usize>> {
        match self.content@[i] {
            ElementContent::Element(e) => match find_from(self.t(), 0, name_of(e), v) {
                Some((_, p)) => Some(p),
                // a child that is not listed for the version (lenient loading) is placed by the version(s) in which it exists
                None => match find_from(self.t(), 0, name_of(e), u32::MAX) { Some((_, p)) => Some(p), None => None },
            },
            ElementContent::CharacterData(_) => None,
        }
    }
    // content mode of the innermost group that contains child i and the new element
    pub open spec fn kmode(&self, n: Seq<usize>, i: int, v: u32) -> Option<ContentMode> {
        match self.kid(i, v) { Some(p) => Some(t_dt(common_group(self.t(), n, p)).mode), None => None }
    }
    pub open spec fn repeat_forbidden(&self, n: Seq<usize>) -> bool {
        resolve(self.t(), n) matches Some((d, _)) && t_el(d as int).multiplicity != ElementMultiplicity::Any
    }
    // child i rules the new element out
    pub open spec fn conflict(&self, n: Seq<usize>, i: int, v: u32) -> bool {
        self.kid(i, v) matches Some(p) && (
            (self.kmode(n, i, v) == Some(ContentMode::Choice) && p != n)
            || ((self.kmode(n, i, v) == Some(ContentMode::Choice) || self.kmode(n, i, v) == Some(ContentMode::Sequence)) && p == n && self.repeat_forbidden(n)))
    }
    // child i ends the scan: it shares a sequence with the new element and comes after it
    pub open spec fn after(&self, n: Seq<usize>, i: int, v: u32) -> bool {
        self.kid(i, v) matches Some(p) && self.kmode(n, i, v) == Some(ContentMode::Sequence) && lex_lt(n, p)
    }
    pub open spec fn before(&self, n: Seq<usize>, i: int, v: u32) -> bool {
        self.kid(i, v) matches Some(p) && self.kmode(n, i, v) == Some(ContentMode::Sequence) && lex_lt(p, n)
    }
    pub open spec fn prefix_ok(&self, n: Seq<usize>, v: u32, a: int, b: int) -> bool {
        &&& 0 <= a <= b <= self.content@.len()
        &&& forall|i: int| 0 <= i < b ==> !#[trigger] self.conflict(n, i, v)
        &&& forall|i: int| 0 <= i < b ==> !#[trigger] self.after(n, i, v)
        &&& forall|i: int| a <= i < b ==> (#[trigger] self.kmode(n, i, v) == Some(ContentMode::Sequence) ==> self.kid(i, v) == Some(n))
        &&& a > 0 ==> self.before(n, a - 1, v)
    }
    // what calc_element_insert_range promises for a sequence / choice element whose new sub-element has index list n
    pub open spec fn range_post(&self, n: Seq<usize>, v: u32, r: Result<(usize, usize), AutosarDataError>) -> bool {
        match r {
            Ok((a, b)) => self.prefix_ok(n, v, a as int, b as int) && (b < self.content@.len() ==> self.after(n, b as int, v)),
            Err(_) => exists|i: int| 0 <= i < self.content@.len() && #[trigger] self.conflict(n, i, v) && (forall|j: int| 0 <= j < i ==> !#[trigger] self.after(n, j, v)),
        }
    }
    pub open spec fn calc_post(&self, name: ElementName, v: u32, r: Result<(usize, usize), AutosarDataError>) -> bool {
        let mode = t_dt(self.t()).mode;
        if mode == ContentMode::Characters { r is Err }
        else { match find_from(self.t(), 0, name, v) {
            None => r is Err,
            Some((_, n)) => if mode == ContentMode::Bag || mode == ContentMode::Mixed { r == Ok::<(usize, usize), AutosarDataError>((0usize, self.content@.len() as usize)) } else { self.range_post(n, v, r) },
        } }
    }

    // ---- the sentence of the property, for a sequence
    pub open spec fn all_in_sequence(&self, n: Seq<usize>, v: u32) -> bool {
        forall|i: int| 0 <= i < self.content@.len() ==> #[trigger] self.kmode(n, i, v) == Some(ContentMode::Sequence)
    }
    pub open spec fn in_order(&self, v: u32) -> bool {
        forall|i: int, j: int| 0 <= i < j < self.content@.len() ==> (#[trigger] self.kid(i, v) matches Some(p) && (#[trigger] self.kid(j, v) matches Some(q) && lex_le(p, q)))
    }
    // inserting n at position p keeps the order
    pub open spec fn keeps_order(&self, n: Seq<usize>, v: u32, p: int) -> bool {
        &&& forall|i: int| 0 <= i < p ==> (#[trigger] self.kid(i, v) matches Some(q) && lex_le(q, n))
        &&& forall|i: int| p <= i < self.content@.len() ==> (#[trigger] self.kid(i, v) matches Some(q) && lex_le(n, q))
    }
}

pub proof fn lemma_range_unique(s: &ElementRaw, n: Seq<usize>, v: u32, a: usize, b: usize, c: usize, d: usize)
    requires s.range_post(n, v, Ok((a, b))), s.range_post(n, v, Ok((c, d)))
    ensures a == c && b == d
{
    if b < d { assert(s.after(n, b as int, v)); assert(!s.after(n, b as int, v)); }
    if d < b { assert(s.after(n, d as int, v)); assert(!s.after(n, d as int, v)); }
    lemma_lex_eq(n, n);
    if a < c { assert(s.before(n, c - 1, v)); assert(s.kmode(n, c - 1, v) == Some(ContentMode::Sequence)); assert(s.kid(c - 1, v) == Some(n)); }
    if c < a { assert(s.before(n, a - 1, v)); assert(s.kmode(n, a - 1, v) == Some(ContentMode::Sequence)); assert(s.kid(a - 1, v) == Some(n)); }
}
pub proof fn lemma_calc_unique(s: &ElementRaw, name: ElementName, v: u32, a: usize, b: usize, c: usize, d: usize)
    requires s.calc_post(name, v, Ok((a, b))), s.calc_post(name, v, Ok((c, d)))
    ensures a == c && b == d
{
    let mode = t_dt(s.t()).mode;
    if mode != ContentMode::Characters {
        match find_from(s.t(), 0, name, v) {
            Some((_, n)) => { if !(mode == ContentMode::Bag || mode == ContentMode::Mixed) { lemma_range_unique(s, n, v, a, b, c, d); } }
            None => {}
        }
    }
}

// a refusal and a range exclude each other (so `calc(..).is_ok()` decides "some position is allowed")
pub proof fn lemma_calc_exclusive(s: &ElementRaw, name: ElementName, v: u32, a: usize, b: usize, e: AutosarDataError)
    requires s.calc_post(name, v, Ok((a, b))), s.calc_post(name, v, Err(e))
    ensures false
{
    let mode = t_dt(s.t()).mode;
    if mode != ContentMode::Characters {
        match find_from(s.t(), 0, name, v) {
            Some((_, n)) => {
                if !(mode == ContentMode::Bag || mode == ContentMode::Mixed) {
                    let i = choose|i: int| 0 <= i < s.content@.len() && #[trigger] s.conflict(n, i, v) && (forall|j: int| 0 <= j < i ==> !#[trigger] s.after(n, j, v));
                    if i < b { assert(!s.conflict(n, i, v)); }
                    else {
                        assert(s.after(n, b as int, v));
                        if (b as int) < i { assert(!s.after(n, b as int, v)); }
                        else { lemma_lex_eq(n, n); assert(s.kmode(n, i, v) == Some(ContentMode::Sequence)); }
                    }
                }
            }
            None => {}
        }
    }
}
// one entry of list_valid_sub_elements: the name is listed for the version, and is_allowed says whether some position is allowed now
pub open spec fn entry_ok(x: ValidSubElementInfo, n: ElementRaw, v: u32) -> bool {
    &&& exists|p: Seq<usize>| (#[trigger] resolve(n.t(), p)) matches Some((d, m)) && t_el(d as int).name == x.element_name && m & v != 0
            && x.is_named == (sn_mask(t_el(d as int).elemtype as int) matches Some(sm) && sm & v != 0)
    &&& x.is_allowed <==> exists|a: usize, b: usize| n.calc_post(x.element_name, v, Ok((a, b)))
}

// ---- character items of mixed content
pub uninterp spec fn cd_string(s: Seq<char>) -> CharacterData;
// `CharacterData::String(chardata.to_owned())`
#[verifier::external_body]
pub fn vx_string_value(s: &str) -> (r: CharacterData) ensures r == cd_string(s@) { unimplemented!() }
impl ElementRaw {
    #[verifier::external_body]
    pub fn element_name(&self) -> (r: ElementName) ensures r == self.elemname { unimplemented!() }
}
pub fn vx_mode_of(e: &ElementRaw) -> (r: ContentMode)
    requires e.elemtype.typ < n_dt(), wf_tables()
    ensures r == t_dt(e.elemtype.typ as int).mode
{ e.elemtype.content_mode() }
// ---- moving an element into this node (the position test; the three ways of carrying out the move are leaves)
pub uninterp spec fn parent_of(e: Element) -> Option<Element>;
pub uninterp spec fn is_handle_of(w: WeakElement, e: Element) -> bool;        // `e.downgrade() == w`
pub uninterp spec fn same_model(a: AutosarModel, b: AutosarModel) -> bool;    // `model == model_src` (Arc pointer equality)
pub uninterp spec fn moved_local(before: ElementRaw, after: ElementRaw, e: Element, position: usize, r: Result<Element, AutosarDataError>) -> bool;
pub uninterp spec fn moved_full(before: ElementRaw, after: ElementRaw, e: Element, position: usize, r: Result<Element, AutosarDataError>) -> bool;
impl Element {
    #[verifier::external_body]
    pub fn parent(&self) -> (r: Result<Option<Element>, AutosarDataError>) ensures r matches Ok(p) ==> p == parent_of(*self) { unimplemented!() }
    #[verifier::external_body]
    pub fn vx_is_behind(&self, w: &WeakElement) -> (r: bool) ensures r == is_handle_of(*w, *self) { unimplemented!() }
}
#[verifier::external_body]
pub fn vx_same_model(a: &AutosarModel, b: &AutosarModel) -> (r: bool) ensures r == same_model(*a, *b) { unimplemented!() }
impl ElementRaw {
    #[verifier::external_body]
    pub fn move_element_local(&mut self, self_weak: WeakElement, move_element: &Element, position: usize, model: &AutosarModel, version: AutosarVersion) -> (r: Result<Element, AutosarDataError>)
        requires position <= old(self).content@.len()
        ensures moved_local(*old(self), *final(self), *move_element, position, r)
    { unimplemented!() }
    #[verifier::external_body]
    pub fn move_element_full(&mut self, self_weak: WeakElement, move_element: &Element, position: usize, model: &AutosarModel, model_src: &AutosarModel, version: AutosarVersion) -> (r: Result<Element, AutosarDataError>)
        requires position <= old(self).content@.len()
        ensures moved_full(*old(self), *final(self), *move_element, position, r)
    { unimplemented!() }
}
// ---- removing a child
pub struct VxPath { pub opaque: u64 }
impl ElementRaw {
    #[verifier::external_body]
    pub fn path_unchecked(&self) -> (r: Result<VxPath, AutosarDataError>) { unimplemented!() }
}
impl Element {
    // `sub_element.0.write().remove_internal(sub_element.downgrade(), model, path)`: unregisters everything below the removed child from the
    // model's indexes and clears it (hash maps, recursion over the subtree through write locks): graph code, not modelled
    #[verifier::external_body]
    pub fn vx_remove_internal(&self, model: &AutosarModel, path: VxPath) { unimplemented!() }
}
// ---- moving a child inside its parent
// `self.content.iter().position(|item| matches Element(e) && *e == *move_element)`: first position holding this handle
pub fn vx_position_of(c: &Vec<ElementContent>, h: &Element) -> (r: Option<usize>)
    ensures match r { Some(i) => i < c@.len() && c@[i as int] == ElementContent::Element(*h) && forall|k: int| 0 <= k < i ==> #[trigger] c@[k] != ElementContent::Element(*h),
                      None => forall|k: int| 0 <= k < c@.len() ==> #[trigger] c@[k] != ElementContent::Element(*h) }
{
    let mut i: usize = 0;
    while i < c.len()
        invariant i <= c.len(), forall|k: int| 0 <= k < i ==> #[trigger] c@[k] != ElementContent::Element(*h),
        decreases c.len() - i
    {
        let hit = match &c[i] { ElementContent::Element(e) => *e == *h, ElementContent::CharacterData(_) => false };
        if hit { return Some(i); }
        i += 1;
    }
    None
}
// std: `v[a..=b].rotate_left(1)` moves the first element of the range to its end; `rotate_right(1)` the last one to its start
#[verifier::external_body]
pub fn vx_rotate_left1(v: &mut Vec<ElementContent>, a: usize, b: usize)
    requires a <= b < old(v)@.len()
    ensures final(v)@ == old(v)@.remove(a as int).insert(b as int, old(v)@[a as int])
{ unimplemented!() }
#[verifier::external_body]
pub fn vx_rotate_right1(v: &mut Vec<ElementContent>, a: usize, b: usize)
    requires a <= b < old(v)@.len()
    ensures final(v)@ == old(v)@.remove(b as int).insert(a as int, old(v)@[b as int])
{ unimplemented!() }

// ---- sort (C14): the node after sorting
impl Element {
    // the recursive sort of a child goes through the child's own lock: its effect is inside the child, not in this node
    #[verifier::external_body]
    pub fn vx_sort_child(&self, version: AutosarVersion) { unimplemented!() }
}
pub open spec fn pair_elems(s: Seq<(Vec<usize>, Element)>) -> Seq<Element> { s.map(|i: int, x: (Vec<usize>, Element)| x.1) }
pub open spec fn content_elems(c: Seq<ElementContent>) -> Seq<Element>
    decreases c.len()
{
    if c.len() == 0 { Seq::empty() }
    else { match c[c.len() - 1] { ElementContent::Element(e) => content_elems(c.drop_last()).push(e), ElementContent::CharacterData(_) => content_elems(c.drop_last()) } }
}
// p is a permutation of 0..n
pub open spec fn is_perm(p: Seq<int>, n: int) -> bool {
    p.len() == n && (forall|k: int| 0 <= k < n ==> 0 <= #[trigger] p[k] < n) && (forall|i: int, j: int| 0 <= i < j < n ==> #[trigger] p[i] != #[trigger] p[j])
}
// `sorting_vec.sort_by(|(ia, a), (ib, b)| ia.cmp(ib).then(a.cmp(b)))`: std's stable sort permutes, and the result is ordered by the
// first key (ASSUMED: slice::sort_by with a comparator that is a total order -- unit cmp / C14 -- yields a sorted permutation)
#[verifier::external_body]
pub fn vx_sort_pairs(v: &mut Vec<(Vec<usize>, Element)>)
    ensures final(v)@.len() == old(v)@.len(),
            exists|p: Seq<int>| #[trigger] is_perm(p, old(v)@.len() as int) && forall|k: int| 0 <= k < p.len() ==> #[trigger] final(v)@[k] == old(v)@[p[k]],
            forall|i: int, j: int| 0 <= i < j < final(v)@.len() ==> lex_le(#[trigger] final(v)@[i].0@, #[trigger] final(v)@[j].0@)
{ unimplemented!() }
impl ElementRaw {
    // every child element is listed for the version or for some version (what the .unwrap() in sort needs; the loader and the editor
    // only ever store such children)
    pub open spec fn kids_known(&self, v: u32) -> bool {
        forall|i: int| 0 <= i < self.content@.len() ==> (#[trigger] self.content@[i] matches ElementContent::Element(e) ==>
            find_from(self.t(), 0, name_of(e), v) is Some || find_from(self.t(), 0, name_of(e), u32::MAX) is Some)
    }
    pub open spec fn only_elements(&self) -> bool { forall|i: int| 0 <= i < self.content@.len() ==> #[trigger] self.content@[i] is Element }
    pub open spec fn sortable(&self) -> bool {
        (t_dt(self.t()).mode == ContentMode::Sequence || t_dt(self.t()).mode == ContentMode::Choice || t_dt(self.t()).mode == ContentMode::Bag)
        && !t_el(self.elemtype.def as int).ordered && self.content@.len() > 1
    }
}
// the index list the sort uses for a child handle
pub open spec fn key_of(t: int, e: Element, v: u32) -> Seq<usize> {
    match find_from(t, 0, name_of(e), v) { Some((_, p)) => p, None => match find_from(t, 0, name_of(e), u32::MAX) { Some((_, p)) => p, None => Seq::empty() } }
}

pub open spec fn list_ok(r: Seq<ValidSubElementInfo>, n: ElementRaw, ver: AutosarVersion) -> bool {
    forall|i: int| 0 <= i < r.len() ==> entry_ok(#[trigger] r[i], n, ver as u32)
}

// C07: "that range is exactly the set of positions that keep the sub-elements in specification order"
pub proof fn lemma_range_is_exact(s: &ElementRaw, n: Seq<usize>, v: u32, a: usize, b: usize, p: int)
    requires s.all_in_sequence(n, v), s.in_order(v), s.range_post(n, v, Ok((a, b))), 0 <= p <= s.content@.len()
    ensures s.keeps_order(n, v, p) <==> a <= p <= b
{
    let len = s.content@.len() as int;
    assert forall|i: int| 0 <= i < len implies s.kid(i, v) is Some by { assert(s.kmode(n, i, v) == Some(ContentMode::Sequence)); }
    if a <= p <= b {
        assert forall|i: int| 0 <= i < p implies (#[trigger] s.kid(i, v) matches Some(q) && lex_le(q, n)) by {
            let q = s.kid(i, v).unwrap();
            assert(s.kmode(n, i, v) == Some(ContentMode::Sequence));
            assert(!s.after(n, i, v));
            lemma_lex_flip(n, q);
        }
        assert forall|i: int| p <= i < len implies (#[trigger] s.kid(i, v) matches Some(q) && lex_le(n, q)) by {
            let q = s.kid(i, v).unwrap();
            assert(s.kmode(n, i, v) == Some(ContentMode::Sequence));
            if i < b { assert(s.kid(i, v) == Some(n)); lemma_lex_eq(n, q); }
            else {
                assert(s.after(n, b as int, v));
                let qb = s.kid(b as int, v).unwrap();
                if i > b { assert(s.kid(b as int, v) is Some && s.kid(i, v) is Some && lex_le(qb, q)); lemma_lex_trans(n, qb, q); }
            }
        }
    } else if p < a {
        // child a-1 is smaller than n but would come after it
        assert(s.before(n, a - 1, v));
        let q = s.kid(a - 1, v).unwrap();
        lemma_lex_flip(q, n);
        assert(!lex_le(n, q));
    } else {
        // child b is greater than n but would come before it
        assert(s.after(n, b as int, v));
        let q = s.kid(b as int, v).unwrap();
        lemma_lex_flip(n, q);
        assert(!lex_le(q, n));
    }
}
'''

ERR = 'AutosarDataError::VxOther(0)'
R39 = [
    (r'AutosarDataError::\w+ \{[^{}]*\}', lambda m: ERR, 'R39'),
    (r'AutosarDataError::InvalidPosition\b', lambda m: ERR, 'R39'),
    (r'for \((\w+), (\w+)\) in ((?:\w+\.)*\w+)\.iter\(\)\.enumerate\(\) \{',
     lambda m: 'let mut vx_i: usize = 0; while vx_i < %s.len() { let %s = vx_i; let %s = &%s[vx_i]; vx_i += 1;' % (m.group(3), m.group(1), m.group(2), m.group(3)), 'R18'),
    (r'let Some\(\(_, existing_element_indices\)\) = elemtype\s*\.find_sub_element\(subelement\.element_name\(\), version as u32\)\s*\.or_else\(\|\| elemtype\.find_sub_element\(subelement\.element_name\(\), u32::MAX\)\)\s*else \{',
     lambda m: 'let vx_name = subelement.element_name(); let Some((_, existing_element_indices)) = (match elemtype.find_sub_element(vx_name, version as u32) { Some(vx_v) => Some(vx_v), None => elemtype.find_sub_element(vx_name, u32::MAX) }) else {', 'R39'),
    (r'match (\w+)\.cmp\(&(\w+)\) \{', lambda m: 'match vx_lex_cmp(&%s, &%s) {' % (m.group(1), m.group(2)), 'R39'),
    (r'if (new_element_indices) == (existing_element_indices) \{', lambda m: 'if vx_vec_eq(&%s, &%s) {' % (m.group(1), m.group(2)), 'R39'),
    (r'find_common_group\(&(\w+), &(\w+)\)', lambda m: 'find_common_group(%s.as_slice(), %s.as_slice())' % (m.group(1), m.group(2)), 'R39'),
    (r'get_sub_element_multiplicity\(&(\w+)\)', lambda m: 'get_sub_element_multiplicity(%s.as_slice())' % m.group(1), 'R39'),
    (r'let \((\w+), _\) = ((?:[^;{}]|\n)*?)\.ok_or\(\s*(AutosarDataError::VxOther\(0\)),?\s*\)\?;',
     lambda m: 'let (%s, _) = match %s { Some(vx_v) => vx_v, None => { return Err(%s); } };' % (m.group(1), m.group(2).strip(), m.group(3)), 'R39'),
    (r'let sub_element = ElementRaw \{\s*parent: ElementOrModel::Element\(self_weak\),\s*elemname: element_name,\s*elemtype,\s*content: smallvec!\[\],\s*attributes: smallvec!\[\],\s*file_membership: HashSet::with_capacity\(0\),\s*comment: None,\s*\}\s*\.wrap\(\);',
     lambda m: 'let sub_element = vx_new_element(self_weak, element_name, elemtype);', 'R39'),
    (r'let other_elemname = \{\s*(?://[^\n]*\n\s*)*let other_element = other\.0\.read\(\);\s*other_element\.elemname\s*\};', lambda m: 'let other_elemname = other.element_name();', 'R39'),
]

R47 = [
    (r'for ec_elem in &self\.content \{', lambda m: 'let mut vx_c: usize = 0; while vx_c < self.content.len() { let ec_elem = &self.content[vx_c]; vx_c += 1;', 'R18'),
    (r'for ec in &self\.content \{', lambda m: 'let mut vx_d: usize = 0; while vx_d < self.content.len() { let ec = &self.content[vx_d]; vx_d += 1;', 'R18'),
    (r'elem\.0\.write\(\)\.sort\(version\);', lambda m: 'elem.vx_sort_child(version);', 'R47'),
    (r'let \(_, elem_indices\) = self\s*\.elemtype\s*\.find_sub_element\(elem\.element_name\(\), version as u32\)\s*\.or_else\(\|\| self\.elemtype\.find_sub_element\(elem\.element_name\(\), u32::MAX\)\)\s*\.unwrap\(\);',
     lambda m: 'let vx_name = elem.element_name(); let (_, elem_indices) = (match self.elemtype.find_sub_element(vx_name, version as u32) { Some(vx_v) => Some(vx_v), None => self.elemtype.find_sub_element(vx_name, u32::MAX) }).unwrap();', 'R39'),
    (r'sorting_vec\.sort_by\(\|\(elem_indices_a, elem_a\), \(elem_indices_b, elem_b\)\| \{\s*elem_indices_a\.cmp\(elem_indices_b\)\.then\(elem_a\.cmp\(elem_b\)\)\s*\}\);', lambda m: 'vx_sort_pairs(&mut sorting_vec);', 'R47'),
    (r'for \(_, elem\) in sorting_vec \{', lambda m: 'let mut vx_s: usize = 0; while vx_s < sorting_vec.len() { let elem = sorting_vec[vx_s].1; vx_s += 1;', 'R47'),
]
MOVEPOS = (r'let current_position = self\s*\.content\s*\.iter\(\)\s*\.position\(\|item\| \{\s*if let ElementContent::Element\(elem\) = item \{\s*\*elem == \*move_element\s*\} else \{\s*false\s*\}\s*\}\)\s*\.unwrap\(\);')
REMPOS = (r'let pos = self\s*\.content\s*\.iter\(\)\s*\.position\(\|item\| \{\s*if let ElementContent::Element\(elem\) = item \{\s*\*elem == sub_element\s*\} else \{\s*false\s*\}\s*\}\)\s*\.ok_or\(AutosarDataError::VxOther\(0\)\)\?;')
R55 = [
    (r'AutosarDataError::\w+ \{[^{}]*\}', lambda m: 'AutosarDataError::VxOther(0)', 'R39'),
    (r'AutosarDataError::ShortNameRemovalForbidden\b', lambda m: 'AutosarDataError::VxOther(0)', 'R39'),
    (r'let path = Cow::from\(self\.path_unchecked\(\)\?\);', lambda m: 'let path = self.path_unchecked()?;', 'R55'),
    (r'let mut sub_element_locked = sub_element\.0\.write\(\);', lambda m: '', 'R55'),
    (REMPOS, lambda m: 'let pos = match vx_position_of(&self.content, &sub_element) { Some(vx_p) => vx_p, None => { return Err(AutosarDataError::VxOther(0)); } };', 'R55'),
    (r'sub_element_locked\.elemname', lambda m: 'sub_element.element_name()', 'R55'),
    (r'sub_element_locked\.remove_internal\(sub_element\.downgrade\(\), model, path\);', lambda m: 'sub_element.vx_remove_internal(model, path);', 'R55'),
]
# R56: `let mut element = self.0.write();` -- the node behind the write guard is a `&mut ElementRaw` parameter of the unit's function
R56 = [
    (r'AutosarDataError::\w+ \{[^{}]*\}', lambda m: 'AutosarDataError::VxOther(0)', 'R39'),
    (r'AutosarDataError::InvalidPosition\b', lambda m: 'AutosarDataError::VxOther(0)', 'R39'),
    (r'let mut element = self\.0\.write\(\);', lambda m: '', 'R56'),
    (r'CharacterData::String\(chardata\.to_owned\(\)\)', lambda m: 'vx_string_value(chardata)', 'R56'),
    (r'if let ContentMode::Mixed = element\.elemtype\.content_mode\(\) \{', lambda m: 'if let ContentMode::Mixed = vx_mode_of(element) {', 'R56'),
    (r'if let ElementContent::CharacterData\(_\) = element\.content\[position\] \{', lambda m: 'if let ElementContent::CharacterData(_) = &element.content[position] {', 'R56'),
]
SIG56 = [(r'\(&self, ', '(&self, element: &mut ElementRaw, ')]
R57 = [
    (r'AutosarDataError::\w+ \{[^{}]*\}', lambda m: 'AutosarDataError::VxOther(0)', 'R39'),
    (r'AutosarDataError::InvalidPosition\b', lambda m: 'AutosarDataError::VxOther(0)', 'R39'),
    (r'if model == model_src \{', lambda m: 'if vx_same_model(model, model_src) {', 'R57'),
    (r'let src_parent = move_element\.parent\(\)\?\.ok_or\(AutosarDataError::VxOther\(0\)\)\?;', lambda m: 'let src_parent = match move_element.parent()? { Some(vx_p) => vx_p, None => { return Err(AutosarDataError::VxOther(0)); } };', 'R57'),
    (r'if src_parent\.downgrade\(\) == self_weak \{', lambda m: 'if src_parent.vx_is_behind(&self_weak) {', 'R57'),
]
R50 = [
    (r'AutosarDataError::InvalidPosition\b', lambda m: 'AutosarDataError::VxOther(0)', 'R39'),
    (MOVEPOS, lambda m: 'let current_position = vx_position_of(&self.content, move_element).unwrap();', 'R50'),
    (r'self\.content\[current_position\.\.=position\]\.rotate_left\(1\);', lambda m: 'vx_rotate_left1(&mut self.content, current_position, position);', 'R50'),
    (r'self\.content\[position\.\.=current_position\]\.rotate_right\(1\);', lambda m: 'vx_rotate_right1(&mut self.content, position, current_position);', 'R50'),
]
F_E = 'autosar-data/src/element.rs'
IMPL_E = r'impl Element'
R46 = [
    (r'self\.0\.read\(\)\.elemtype', lambda m: 'self.vx_node().elemtype', 'R46'),
    (r'let is_allowed = self\.0\.read\(\)\.calc_element_insert_range\(element_name, version\)\.is_ok\(\);', lambda m: 'let vx_calc = self.vx_node().calc_element_insert_range(element_name, version); let is_allowed = vx_calc.is_ok();', 'R46'),
    (r'for \(element_name, _, version_mask, named_mask\) in etype\.sub_element_spec_iter\(\) \{',
     lambda m: 'let mut vx_it = etype.sub_element_spec_iter(); loop { let (element_name, vx_et, version_mask, named_mask) = match vx_it.next() { Some(vx_x) => vx_x, None => { break; } };', 'R44'),
]

LEAVES = ['is_ordered', 'sub_element_spec_iter', 'SubelemDefinitionsIter.next', 'compatible', 'is_named_in_version', 'find_sub_element', 'find_common_group', 'ElementType.content_mode', 'GroupType.content_mode', 'get_sub_element_multiplicity', 'is_named', 'short_name_version_mask']

V = 'version as u32'
UNIQ = '''proof {
    assert forall|a: usize, b: usize| old(self).calc_post(%s, version as u32, Ok((a, b))) implies a == start_pos && b == end_pos by {
        lemma_calc_unique(&*old(self), %s, version as u32, a, b, start_pos, end_pos);
    }
}'''
EXCL = '''proof {
    if old(self).calc_post(move_element_name, version as u32, Err(AutosarDataError::VxOther(0))) && old(self).calc_post(move_element_name, version as u32, Ok((%s, %s))) {
        lemma_calc_exclusive(&*old(self), move_element_name, version as u32, %s, %s, AutosarDataError::VxOther(0));
    }
}'''
LOOP_PROOF = r'''proof {
    // facts about child idx, whatever branch is taken
    assert(self.content@[idx as int] == *content_item);
}'''


def make_unit(repo_dir, which='edit'):
    """which='edit': unit insertrange (C07); which='sort': unit sortnode (C14) -- ElementRaw::sort over the same reading of the node"""
    check_decls(repo_dir)
    lookups.check_decls(repo_dir)
    sz = lookups.table_sizes(repo_dir)
    lspec = lookups.TYPES % dict(version_enum='', STATICS='', REFERENCE_TYPE_IDX=sz['REFERENCE_TYPE_IDX'], **{k: v[1] for k, v in sz.items() if isinstance(v, tuple)})
    # wf_modes / lemma_common_group_mode are shared with unit elemcheck
    a = elemcheck.TYPES.index('// Table fact used by the panic!')
    b = elemcheck.TYPES.index('pub proof fn lemma_hit_idx')
    spec = lspec + elemcheck.TYPES[a:b] + TYPES % dict(version_enum=parser_funnel.version_enum(repo_dir))
    spec += r'''
// what the two inner creation paths (locks, path index, deep copy: leaves) do to the node, as uninterpreted relations of their arguments
pub uninterp spec fn named_inner_post(before: ElementRaw, after: ElementRaw, name: ElementName, item_name: Seq<char>, position: usize, v: u32, r: Result<Element, AutosarDataError>) -> bool;
pub uninterp spec fn copied_inner_post(before: ElementRaw, after: ElementRaw, other: Element, position: usize, v: u32, r: Result<Element, AutosarDataError>) -> bool;
impl ElementRaw {
    #[verifier::external_body]
    pub fn create_named_sub_element_inner(&mut self, self_weak: WeakElement, element_name: ElementName, item_name: &str, position: usize, model: &AutosarModel, version: AutosarVersion) -> (r: Result<Element, AutosarDataError>)
        requires position <= old(self).content@.len()
        ensures named_inner_post(*old(self), *final(self), element_name, item_name@, position, version as u32, r)
    { unimplemented!() }
    #[verifier::external_body]
    pub fn create_copied_sub_element_inner(&mut self, self_weak: WeakElement, other: &Element, position: usize, model: &AutosarModel, version: AutosarVersion) -> (r: Result<Element, AutosarDataError>)
        requires position <= old(self).content@.len()
        ensures copied_inner_post(*old(self), *final(self), *other, position, version as u32, r),
            // the two clauses below are proved on the real text of this function in unit deepcopy (C13), same wording
            final(self).elemname == old(self).elemname && final(self).elemtype == old(self).elemtype,
            %(INNER_FRAME0)s,
            %(INNER_FRAME1)s
    { unimplemented!() }
}
pub struct AutosarModel { pub opaque: u64 }
''' % dict(INNER_FRAME0=INNER_FRAME[0], INNER_FRAME1=INNER_FRAME[1])
    lf = {f.label: f for f in lookups.fns(sz)}
    TT = 'self.elemtype.typ < n_dt()'
    inv = ['vx_i <= self.content@.len()', 'wf_tables()', 'wf_modes()', 'self.elemtype.typ < n_dt()', 'elemtype == self.elemtype',
           'find_from(self.t(), 0, element_name, %s) matches Some((_, p)) && p == new_element_indices@' % V,
           'hit(self.t(), new_element_indices@, element_name, %s)' % V, 'idx_ok(self.t(), new_element_indices@)', 'new_element_indices@.len() > 0',
           't_dt(self.t()).mode != ContentMode::Characters && t_dt(self.t()).mode != ContentMode::Bag && t_dt(self.t()).mode != ContentMode::Mixed',
           'self.prefix_ok(new_element_indices@, %s, start_pos as int, end_pos as int)' % V]
    calc = FnSpec('calc_element_insert_range', F, impl=IMPL_R, ret='r', body_sub=R39, requires=[TT],
                  ensures=['self.calc_post(element_name, %s, r)' % V,
                           'r matches Ok((a, b)) ==> a <= b <= self.content@.len()'],
                  loops={0: dict(invariant=inv, invariant_except_break=['end_pos == vx_i'],
                                 ensures=['self.prefix_ok(new_element_indices@, %s, start_pos as int, end_pos as int)' % V,
                                          'end_pos < self.content@.len() ==> self.after(new_element_indices@, end_pos as int, %s)' % V],
                                 decreases='self.content@.len() - vx_i')},
                  proofs=[dict(at='body_start', text='proof { axiom_tables(); axiom_modes(); }'),
                          dict(after=r'if let Some\(\(_, new_element_indices\)\) = elemtype\.find_sub_element\(element_name, version as u32\) \{', indent=True,
                               text='proof { lemma_resolve_any(self.t(), new_element_indices@); }'),
                          dict(after=r'vx_i \+= 1;', indent=True, text='''proof {
    assert(self.content@[idx as int] == *content_item);
}'''),
                          dict(after=r'^\s*continue;\s*\n\s*\};', indent=False, text='''proof {
    assert(self.kid(idx as int, version as u32) == Some(existing_element_indices@));
    lemma_common_group_mode(self.t(), new_element_indices@, existing_element_indices@);
    lemma_lex_eq(new_element_indices@, existing_element_indices@);
    lemma_lex_flip(new_element_indices@, existing_element_indices@);
    lemma_lex_flip(existing_element_indices@, new_element_indices@);
    lemma_resolve_any(self.t(), new_element_indices@);
}''')] + [dict(before=r'^\s*return Err\(AutosarDataError::VxOther\(0\)\);', nth=k, text='proof { assert(self.conflict(new_element_indices@, idx as int, version as u32)); }') for k in (1, 2, 3)]
                  + [dict(at='loop_end', loop=0, text='''proof {
    let n = new_element_indices@; let v = version as u32;
    assert(!self.conflict(n, idx as int, v));
    assert(!self.after(n, idx as int, v));
    assert(start_pos as int <= idx as int ==> (self.kmode(n, idx as int, v) == Some(ContentMode::Sequence) ==> self.kid(idx as int, v) == Some(n)));
}''')])
    fns = [calc,
           FnSpec('create_sub_element_inner', F, impl=IMPL_R, ret='r', body_sub=R39,
                  requires=['old(self).elemtype.typ < n_dt()', 'position <= old(self).content@.len()'],
                  ensures=['final(self).elemname == old(self).elemname && final(self).elemtype == old(self).elemtype',
                           'match r { Ok(e) => name_of(e) == element_name && final(self).content@ == old(self).content@.insert(position as int, ElementContent::Element(e)) '
                           '&& (find_from(old(self).t(), 0, element_name, %s) matches Some((d, _)) && type_of(e) == et_of(d) && !(sn_mask(et_of(d).typ as int) matches Some(m) && m & (%s) != 0)), Err(_) => final(self).content@ == old(self).content@ }' % (V, V)]),
           FnSpec('create_sub_element', F, impl=IMPL_R, ret='r', body_sub=R39, requires=['old(self).elemtype.typ < n_dt()'],
                  ensures=['final(self).elemname == old(self).elemname && final(self).elemtype == old(self).elemtype',
                           'match r { Ok(e) => name_of(e) == element_name && exists|a: usize, b: usize| old(self).calc_post(element_name, %s, Ok((a, b))) && final(self).content@ == old(self).content@.insert(b as int, ElementContent::Element(e)), '
                           'Err(_) => final(self).content@ == old(self).content@ }' % V]),
           FnSpec('create_sub_element_at', F, impl=IMPL_R, ret='r', body_sub=R39, requires=['old(self).elemtype.typ < n_dt()'],
                  ensures=['final(self).elemname == old(self).elemname && final(self).elemtype == old(self).elemtype',
                           'match r { Ok(e) => name_of(e) == element_name && exists|a: usize, b: usize| old(self).calc_post(element_name, %s, Ok((a, b))) && a <= position <= b && final(self).content@ == old(self).content@.insert(position as int, ElementContent::Element(e)), '
                           'Err(_) => final(self).content@ == old(self).content@ }' % V,
                           # a position outside the reported range is refused
                           'forall|a: usize, b: usize| old(self).calc_post(element_name, %s, Ok((a, b))) && !(a <= position <= b) ==> r is Err' % V],
                  proofs=[dict(after=r'let \(start_pos, end_pos\) = self\.calc_element_insert_range\(element_name, version\)\?;', text='''proof {
    assert forall|a: usize, b: usize| old(self).calc_post(element_name, version as u32, Ok((a, b))) implies a == start_pos && b == end_pos by {
        lemma_calc_unique(&*old(self), element_name, version as u32, a, b, start_pos, end_pos);
    }
}''')]),
           FnSpec('create_named_sub_element', F, impl=IMPL_R, ret='r', body_sub=R39, requires=['old(self).elemtype.typ < n_dt()'],
                  ensures=['(r is Err && *final(self) == *old(self) && old(self).calc_post(element_name, %s, Err(AutosarDataError::VxOther(0)))) || exists|a: usize, b: usize| old(self).calc_post(element_name, %s, Ok((a, b))) && named_inner_post(*old(self), *final(self), element_name, item_name@, b, %s, r)' % (V, V, V)]),
           FnSpec('create_named_sub_element_at', F, impl=IMPL_R, ret='r', body_sub=R39, requires=['old(self).elemtype.typ < n_dt()'],
                  ensures=['(r is Err && *final(self) == *old(self)) || exists|a: usize, b: usize| old(self).calc_post(element_name, %s, Ok((a, b))) && a <= position <= b && named_inner_post(*old(self), *final(self), element_name, item_name@, position, %s, r)' % (V, V),
                           'forall|a: usize, b: usize| old(self).calc_post(element_name, %s, Ok((a, b))) && !(a <= position <= b) ==> r is Err && *final(self) == *old(self)' % V],
                  proofs=[dict(after=r'let \(start_pos, end_pos\) = self\.calc_element_insert_range\(element_name, version\)\?;', text=UNIQ % ('element_name', 'element_name'))]),
           FnSpec('create_copied_sub_element', F, impl=IMPL_R, ret='r', body_sub=R39, requires=['old(self).elemtype.typ < n_dt()'],
                  ensures=['(r is Err && *final(self) == *old(self)) || exists|a: usize, b: usize| old(self).calc_post(name_of(*other), %s, Ok((a, b))) && copied_inner_post(*old(self), *final(self), *other, b, %s, r)' % (V, V),
                           'final(self).elemname == old(self).elemname && final(self).elemtype == old(self).elemtype',
                           'match r { Ok(e) => exists|a: usize, b: usize| old(self).calc_post(name_of(*other), %s, Ok((a, b))) && final(self).content@ == old(self).content@.insert(b as int, ElementContent::Element(e)), Err(_) => final(self).content@ == old(self).content@ }' % V]),
           FnSpec('create_copied_sub_element_at', F, impl=IMPL_R, ret='r', body_sub=R39, requires=['old(self).elemtype.typ < n_dt()'],
                  ensures=['(r is Err && *final(self) == *old(self)) || exists|a: usize, b: usize| old(self).calc_post(name_of(*other), %s, Ok((a, b))) && a <= position <= b && copied_inner_post(*old(self), *final(self), *other, position, %s, r)' % (V, V),
                           'forall|a: usize, b: usize| old(self).calc_post(name_of(*other), %s, Ok((a, b))) && !(a <= position <= b) ==> r is Err && *final(self) == *old(self)' % V,
                           'final(self).elemname == old(self).elemname && final(self).elemtype == old(self).elemtype',
                           'match r { Ok(e) => exists|a: usize, b: usize| old(self).calc_post(name_of(*other), %s, Ok((a, b))) && a <= position <= b && final(self).content@ == old(self).content@.insert(position as int, ElementContent::Element(e)), Err(_) => final(self).content@ == old(self).content@ }' % V],
                  proofs=[dict(after=r'let \(start_pos, end_pos\) = self\.calc_element_insert_range\(other_elemname, version\)\?;', text=UNIQ % ('other_elemname', 'other_elemname'))]),
           FnSpec('move_element_here_at', F, impl=IMPL_R, ret='r', body_sub=R57,
                  requires=['old(self).elemtype.typ < n_dt()',
                            # the handle that is its own parent's child (model consistency): when the element already stands in this node it is among the children
                            '(parent_of(*move_element) matches Some(p) && is_handle_of(self_weak, p)) ==> exists|i: int| 0 <= i < old(self).content@.len() && #[trigger] old(self).content@[i] == ElementContent::Element(*move_element)'],
                  ensures=[# a position outside the reported range is refused and nothing changes; no range, no move
                           'forall|a: usize, b: usize| old(self).calc_post(name_of(*move_element), %s, Ok((a, b))) && !(a <= position <= b) ==> r is Err && *final(self) == *old(self)' % V,
                           'old(self).calc_post(name_of(*move_element), %s, Err(AutosarDataError::VxOther(0))) ==> r is Err && *final(self) == *old(self)' % V,
                           # inside its own parent the element itself occupies one place of the range: the last position is b - 1
                           '(r is Ok && same_model(*model, *model_src) && (parent_of(*move_element) matches Some(p) && is_handle_of(self_weak, p))) ==> '
                           'exists|a: usize, b: usize| old(self).calc_post(name_of(*move_element), %s, Ok((a, b))) && a <= position < b' % V],
                  proofs=[dict(after=r'let \(start_pos, end_pos\) = self\.calc_element_insert_range\(move_element_name, version\)\?;', text=UNIQ % ('move_element_name', 'move_element_name') + '\n' + EXCL % ('start_pos', 'end_pos', 'start_pos', 'end_pos'))]),
           FnSpec('move_element_here', F, impl=IMPL_R, ret='r', body_sub=R57, requires=['old(self).elemtype.typ < n_dt()'],
                  ensures=['old(self).calc_post(name_of(*move_element), %s, Err(AutosarDataError::VxOther(0))) ==> r is Err && *final(self) == *old(self)' % V,
                           # an element that already stands in this node stays where it is
                           '(r is Ok && same_model(*model, *model_src) && (parent_of(*move_element) matches Some(p) && is_handle_of(self_weak, p))) ==> *final(self) == *old(self) && r == Ok::<Element, AutosarDataError>(*move_element)'],
                  proofs=[dict(after=r'let \(_, end_pos\) = self\.calc_element_insert_range\(move_element_name, version\)\?;', text='let ghost vx_start: usize = choose|a: usize| old(self).calc_post(move_element_name, version as u32, Ok((a, end_pos)));\n' + EXCL % ('vx_start', 'end_pos', 'vx_start', 'end_pos'))]),
           FnSpec('remove_sub_element', F, impl=IMPL_R, ret='r', body_sub=R55, requires=['old(self).elemtype.typ < n_dt()'],
                  ensures=['final(self).elemname == old(self).elemname && final(self).elemtype == old(self).elemtype',
                           # a refused removal changes nothing; only a child of this element can be removed; the SHORT-NAME of an identifiable element cannot
                           'r is Err ==> final(self).content@ == old(self).content@',
                           '(forall|k: int| 0 <= k < old(self).content@.len() ==> #[trigger] old(self).content@[k] != ElementContent::Element(sub_element)) ==> r is Err',
                           '(sn_mask(old(self).elemtype.typ as int) is Some && name_of(sub_element) == ElementName::ShortName) ==> r is Err',
                           # success: exactly the first entry holding this handle is taken out, everything else keeps its order
                           'r is Ok ==> exists|pos: int| 0 <= pos < old(self).content@.len() && old(self).content@[pos] == ElementContent::Element(sub_element) '
                           '&& (forall|k: int| 0 <= k < pos ==> #[trigger] old(self).content@[k] != ElementContent::Element(sub_element)) && final(self).content@ == old(self).content@.remove(pos)'],
                  proofs=[dict(at='body_start', text='proof { axiom_tables(); }')]),
           FnSpec('move_element_position', F, impl=IMPL_R, ret='r', body_sub=R50,
                  requires=['exists|i: int| 0 <= i < old(self).content@.len() && #[trigger] old(self).content@[i] == ElementContent::Element(*move_element)'],
                  ensures=['final(self).elemname == old(self).elemname && final(self).elemtype == old(self).elemtype',
                           'position >= old(self).content@.len() ==> r is Err && final(self).content@ == old(self).content@',
                           'position < old(self).content@.len() ==> r == Ok::<Element, AutosarDataError>(*move_element) && exists|cur: int| 0 <= cur < old(self).content@.len() && old(self).content@[cur] == ElementContent::Element(*move_element) '
                           '&& (forall|k: int| 0 <= k < cur ==> #[trigger] old(self).content@[k] != ElementContent::Element(*move_element)) '
                           '&& final(self).content@ == old(self).content@.remove(cur).insert(position as int, ElementContent::Element(*move_element))']),
           FnSpec('sort', F, impl=IMPL_R, body_sub=R47,
                  requires=['old(self).elemtype.typ < n_dt()', 'old(self).elemtype.def < n_el()', 'old(self).kids_known(version as u32)'],
                  ensures=['final(self).elemname == old(self).elemname && final(self).elemtype == old(self).elemtype',
                           # where reordering is not permitted nothing moves
                           '!old(self).sortable() ==> final(self).content@ == old(self).content@',
                           # otherwise: only element children remain, they are a permutation of the old element children, in the order of the file version
                           'old(self).sortable() ==> exists|p: Seq<int>| #[trigger] is_perm(p, content_elems(old(self).content@).len() as int) && final(self).content@.len() == p.len() && forall|k: int| 0 <= k < p.len() ==> #[trigger] final(self).content@[k] == ElementContent::Element(content_elems(old(self).content@)[p[k]])',
                           'old(self).sortable() ==> forall|i: int, j: int| 0 <= i < j < final(self).content@.len() ==> lex_le(key_of(old(self).t(), (#[trigger] final(self).content@[i])->Element_0, version as u32), key_of(old(self).t(), (#[trigger] final(self).content@[j])->Element_0, version as u32))'],
                  loops={0: dict(invariant=['vx_c <= self.content.len()', 'self.content@ == old(self).content@', 'self.elemtype == old(self).elemtype', 'self.elemname == old(self).elemname', 'wf_tables()', 'self.elemtype.typ < n_dt()', 'self.kids_known(version as u32)',
                                            'pair_elems(sorting_vec@) =~= content_elems(self.content@.subrange(0, vx_c as int))',
                                            'forall|k: int| 0 <= k < sorting_vec@.len() ==> (#[trigger] sorting_vec@[k]).0@ == key_of(self.t(), sorting_vec@[k].1, version as u32)'],
                                 decreases='self.content.len() - vx_c'),
                         1: dict(invariant=['vx_s <= sorting_vec.len()', 'self.elemtype == old(self).elemtype', 'self.elemname == old(self).elemname', 'self.content@.len() == vx_s',
                                            'forall|k: int| 0 <= k < vx_s ==> #[trigger] self.content@[k] == ElementContent::Element(sorting_vec@[k].1)',
                                            'sorting_vec@.len() == before_sort.len()', 'is_perm(perm, before_sort.len() as int)', 'forall|k: int| 0 <= k < perm.len() ==> #[trigger] sorting_vec@[k] == before_sort[perm[k]]',
                                            'pair_elems(before_sort) =~= content_elems(old(self).content@)',
                                            'forall|k: int| 0 <= k < sorting_vec@.len() ==> (#[trigger] sorting_vec@[k]).0@ == key_of(old(self).t(), sorting_vec@[k].1, version as u32)',
                                            'forall|i: int, j: int| 0 <= i < j < sorting_vec@.len() ==> lex_le(#[trigger] sorting_vec@[i].0@, #[trigger] sorting_vec@[j].0@)'],
                                 decreases='sorting_vec.len() - vx_s'),
                         2: dict(invariant=['vx_d <= self.content.len()', 'self.content@ == old(self).content@', 'self.elemtype == old(self).elemtype', 'self.elemname == old(self).elemname'], decreases='self.content.len() - vx_d')},
                  proofs=[dict(at='body_start', text='proof { axiom_tables(); }'),
                          dict(after=r'vx_c \+= 1;', indent=True, text='''proof {
    let c = self.content@; let k = vx_c as int;
    assert(c.subrange(0, k).drop_last() =~= c.subrange(0, k - 1));
    assert(c.subrange(0, k)[k - 1] == c[k - 1]);
}'''),
                          dict(before=r'^\s*vx_sort_pairs\(&mut sorting_vec\);', text='''proof { assert(self.content@.subrange(0, self.content@.len() as int) =~= self.content@); }
let ghost before_sort = sorting_vec@;'''),
                          dict(after=r'vx_sort_pairs\(&mut sorting_vec\);', text='''let ghost perm: Seq<int> = choose|p: Seq<int>| #[trigger] is_perm(p, before_sort.len() as int) && forall|k: int| 0 <= k < p.len() ==> #[trigger] sorting_vec@[k] == before_sort[p[k]];
proof {
    assert(is_perm(perm, before_sort.len() as int) && forall|k: int| 0 <= k < perm.len() ==> #[trigger] sorting_vec@[k] == before_sort[perm[k]]);
    assert(pair_elems(before_sort) =~= content_elems(old(self).content@));
    assert forall|k: int| 0 <= k < sorting_vec@.len() implies (#[trigger] sorting_vec@[k]).0@ == key_of(old(self).t(), sorting_vec@[k].1, version as u32) by {
        assert(sorting_vec@[k] == before_sort[perm[k]]);
    }
}'''),
                          ]),
           FnSpec('insert_character_content_item', F_E, impl=IMPL_E, ret='r', body_sub=R56, sig_sub=SIG56, requires=['old(element).elemtype.typ < n_dt()'],
                  ensures=['final(element).elemname == old(element).elemname && final(element).elemtype == old(element).elemtype',
                           'r is Ok ==> t_dt(old(element).elemtype.typ as int).mode == ContentMode::Mixed && position <= old(element).content@.len()',
                           'r is Ok ==> final(element).content@ == old(element).content@.insert(position as int, ElementContent::CharacterData(cd_string(chardata@)))',
                           'r is Err ==> final(element).content@ == old(element).content@'],
                  proofs=[dict(at='body_start', text='proof { axiom_tables(); }')]),
           FnSpec('remove_character_content_item', F_E, impl=IMPL_E, ret='r', body_sub=R56, sig_sub=SIG56, requires=['old(element).elemtype.typ < n_dt()'],
                  ensures=['final(element).elemname == old(element).elemname && final(element).elemtype == old(element).elemtype',
                           'r is Ok ==> t_dt(old(element).elemtype.typ as int).mode == ContentMode::Mixed && position < old(element).content@.len() && old(element).content@[position as int] is CharacterData',
                           'r is Ok ==> final(element).content@ == old(element).content@.remove(position as int)',
                           'r is Err ==> final(element).content@ == old(element).content@'],
                  proofs=[dict(at='body_start', text='proof { axiom_tables(); }')]),
           FnSpec('list_valid_sub_elements', F_E, impl=IMPL_E, ret='r', body_sub=R46, requires=['node_of(*self).elemtype.typ < n_dt()'],
                  ensures=['r@.len() == 0 || exists|ver: AutosarVersion| #[trigger] list_ok(r@, node_of(*self), ver)'],
                  loops={0: dict(invariant=['wf_tables()', 'it_inv(vx_it.type_id_stack@, vx_it.indices@)', 'etype == node_of(*self).elemtype', 'etype.typ < n_dt()',
                                            'vx_it.type_id_stack@.len() > 0 ==> vx_it.type_id_stack@[0] == etype.typ',
                                            'list_ok(valid_sub_elements@, node_of(*self), version)'],
                                 decreases='it_measure(vx_it.type_id_stack@, vx_it.indices@)')},
                  proofs=[dict(at='body_start', text='proof { axiom_tables(); }'),
                          dict(before=r'^\s*valid_sub_elements\.push\(ValidSubElementInfo \{', text='''let ghost old_list = valid_sub_elements@;'''),
                          dict(after=r'is_allowed,\s*\n\s*\}\);', text='''proof {
    let n = node_of(*self); let v = version as u32;
    let x = valid_sub_elements@[valid_sub_elements@.len() - 1];
    assert(version_mask & v == v & version_mask) by(bit_vector);
    assert(named_mask & v == v & named_mask) by(bit_vector);
    assert(0u32 & v == 0) by(bit_vector);
    assert(x.element_name == element_name && x.is_allowed == is_allowed && x.is_named == is_named);
    let p = choose|p: Seq<usize>| resolve(etype.typ as int, p) == Some((vx_et.def, version_mask));
    assert(resolve(n.t(), p) matches Some((d, m)) && t_el(d as int).name == x.element_name && m & v != 0
        && x.is_named == (sn_mask(t_el(d as int).elemtype as int) matches Some(sm) && sm & v != 0));
    match vx_calc {
        Ok((a, b)) => { assert(n.calc_post(element_name, v, Ok((a, b)))); }
        Err(e) => {
            assert forall|a: usize, b: usize| n.calc_post(element_name, v, Ok((a, b))) implies false by { lemma_calc_exclusive(&n, element_name, v, a, b, e); }
        }
    }
    assert(entry_ok(x, n, v));
    assert forall|i: int| 0 <= i < valid_sub_elements@.len() implies entry_ok(#[trigger] valid_sub_elements@[i], n, v) by {
        if i < valid_sub_elements@.len() - 1 { assert(valid_sub_elements@[i] == old_list[i]); }
    }
}''')]),
           ]
    fns = [f for f in fns if (f.name == 'sort') == (which == 'sort')]
    if which == 'edit':
        spec += open(os.path.join(os.path.dirname(os.path.abspath(__file__)), 'insertrange_general.rs')).read()
    u = Unit(name='insertrange' if which == 'edit' else 'sortnode', prop='C07' if which == 'edit' else 'C14', spec=spec, fns=fns,
             wrap={IMPL_R: 'impl ElementRaw', IMPL_E: 'impl Element', lookups.IMPL_ET: 'impl ElementType', lookups.IMPL_GT: 'impl GroupType', lookups.IMPL_AV: 'impl AutosarVersion', lookups.IMPL_SI: 'impl SubelemDefinitionsIter'},
             dropped=['the element graph: ElementRaw is {elemname, elemtype, content: Vec<ElementContent>} (the fields these functions read; SmallVec -> Vec), a child Element is an opaque handle with uninterpreted name_of/type_of (the real accessors take the child lock); error payloads opaque (R39)',
                      'specification lookups are leaves with the contracts proved in unit lookups (find_sub_element == the spec function find_from); table contents uninterpreted (wf_tables, wf_modes discharged by native ground checks)',
                      '`ElementRaw { .. }.wrap()` (Arc/RwLock allocation) is the leaf vx_new_element'])
    if which == 'edit':
        u.property_lemmas = {'lemma_range_is_exact': 'for children in specification order inside a sequence: inserting at p keeps the order <==> p lies in the reported range',
                             'lemma_range_is_exact_general': 'all content modes: for conformant children (sequence order, one alternative per choice, single-occurrence elements once), inserting at p keeps them conformant <==> p lies in the reported range',
                             'lemma_refusal_is_exact': 'a refusal means that no position keeps the children conformant',
                             'lemma_creation_keeps_conform': 'representation invariant: a creation inside the reported range keeps the children of a sequence / choice element conformant',
                             'lemma_after_chain': 'the early end of the scan is sound (right side)', 'lemma_before_chain': 'the start of the range is sound (left side)'}
    for name in LEAVES:
        f = copy.copy(lf[name])
        u.leaves.append((f, 'lookups'))
    return u
