"""C19 / unit `regex_hand`: hand-written validators brought under an unbounded Verus contract.

Contract (same as for the table validators): ensures r == ref_accept_n(ref_run_n(0, s@)), but here
ref_delta_n / ref_accept_n are *concrete* spec functions generated from the minimal DFA of the published regex
(byte-range conditions per state), so nothing is assumed about the automaton.  The bridge between the validator's
declarative shape and the automaton is an induction lemma:

  * class validators (7, 8, 10, 11, 19, 20, 27): the minimal DFA has exactly the states start / dead / accept;
    lemma_run_n: run(0, s) = 0 if s is empty, 2 if A_n(s[0]) and B_n(s[k]) for all k >= 1, else dead -- A_n and B_n
    are read off the generated automaton (A_n(c) := delta(0,c) == 2, B_n(c) := delta(2,c) == 2), so the lemma is
    generated, not hand-written, and the shape is checked mechanically;
  * validator 1 (0[xX][0-9a-fA-F]+): a hand-written lemma over the 5-state chain; the state numbers it mentions are
    checked against access strings on every run.

Rules: R15 `X.iter().all(u8::is_ascii_digit|hexdigit)` / `.all(|c| c.is_ascii_alphanumeric() || *c == b'_' [|| *c == b'-'])`
-> verified prelude helpers vx_all_*; R16 `X.is_empty()` -> `(X.len() == 0)`.
"""
import re

from vxlib.verusunit import Unit, FnSpec
from vxlib.rustsrc import Lost

F = 'autosar-data-specification/src/regex.rs'

R15 = [
    (r'((?:\w+)(?:\[[^\]\n]*\])?)\.iter\(\)\.all\(u8::is_ascii_digit\)', lambda m: 'vx_all_digit(%s)' % (('&' + m.group(1)) if '[' in m.group(1) else m.group(1)), 'R15'),
    (r'((?:\w+)(?:\[[^\]\n]*\])?)\.iter\(\)\.all\(u8::is_ascii_hexdigit\)', lambda m: 'vx_all_hexdigit(%s)' % (('&' + m.group(1)) if '[' in m.group(1) else m.group(1)), 'R15'),
    (r"(\w+)\.iter\(\)\.all\(\|c\| c\.is_ascii_alphanumeric\(\) \|\| \*c == (b'.') \|\| \*c == (b'.')\)", lambda m: 'vx_all_alnum_or2(%s, %s, %s)' % (m.group(1), m.group(2), m.group(3)), 'R15'),
    (r"(\w+)\.iter\(\)\.all\(\|c\| c\.is_ascii_alphanumeric\(\) \|\| \*c == (b'.')\)", lambda m: 'vx_all_alnum_or2(%s, %s, %s)' % (m.group(1), m.group(2), m.group(2)), 'R15'),
    (r'(\w+)\.is_empty\(\)', lambda m: '(%s.len() == 0)' % m.group(1), 'R16'),
]


_BAL = r'((?:[^()]|\((?:[^()]|\([^()]*\))*\))*)'   # balanced parentheses, nesting depth <= 2
# R25: `X.split(|c| *c == SEP).all(|p| E)` -> explicit loop over the verified splitter VxSplit (prelude); `all` stops at
# the first piece for which E is false, and so does the loop
R25 = [
    (r'(\w+)\s*\.split\(\|c\| \*c == (b\'.\')\)\s*\.all\(\|(\w+)\| ' + _BAL + r'\)',
     lambda m: ('{ let mut vx_sp = VxSplit::new(%s, %s); let mut vx_ok = true;\n        loop {\n            match vx_sp.next() {\n                None => { break; }\n'
                '                Some(%s) => {\n                    if !(%s) { vx_ok = false; break; }\n                }\n            }\n        }\n        vx_ok }')
     % (m.group(1), m.group(2), m.group(3), ' '.join(m.group(4).split())), 'R25'),
]


def ranges(bs):
    out = []
    for b in sorted(bs):
        if out and out[-1][1] == b - 1:
            out[-1][1] = b
        else:
            out.append([b, b])
    return out


def cond(bs):
    if not bs:
        return 'false'
    return ' || '.join('(c == %d)' % a if a == b else '(%d <= c <= %d)' % (a, b) for a, b in ranges(bs))


def ref_text(n, dfa):
    """concrete spec functions of the reference DFA"""
    lines = ['pub open spec fn ref_delta_%d(q: int, c: u8) -> int {' % n]
    first = True
    for q in range(dfa.n):
        if q == dfa.dead:
            continue
        tg = {}
        for c in range(256):
            t = dfa.delta[q][c]
            if t != dfa.dead:
                tg.setdefault(t, []).append(c)
        inner = ''
        for t, bs in sorted(tg.items()):
            inner += 'if %s { %d } else ' % (cond(bs), t)
        inner += '{ %d }' % dfa.dead
        lines.append('    %sif q == %d { %s }' % ('' if first else 'else ', q, inner))
        first = False
    lines.append('    else { %d }' % dfa.dead)
    lines.append('}')
    lines.append('pub open spec fn ref_accept_%d(q: int) -> bool { %s }' % (n, ' || '.join('q == %d' % a for a in sorted(dfa.accept)) or 'false'))
    lines.append('''pub open spec fn ref_run_%(n)d(q: int, s: Seq<u8>) -> int
    decreases s.len()
{
    if s.len() == 0 { q } else { ref_delta_%(n)d(ref_run_%(n)d(q, s.drop_last()), s.last()) }
}''' % dict(n=n))
    return '\n'.join(lines)


def ref_text_compressed(n, dfa):
    """Same functions as ref_text, but consecutive states whose rows have the same shape -- byte class C1 -> q + 1, other
    classes -> fixed states -- are emitted as one range case (`lo <= q <= hi`).  The emitted text is re-evaluated here on
    every (state, byte) against the DFA table, so the compression cannot change the automaton unnoticed."""
    def row_sig(q):
        tg = {}
        for c in range(256):
            t = dfa.delta[q][c]
            if t != dfa.dead:
                key = ('rel', 1) if t == q + 1 else ('abs', t)
                tg.setdefault(key, []).append(c)
        return tuple(sorted((k, tuple(v)) for k, v in tg.items()))
    groups = []
    for q in range(dfa.n):
        if q == dfa.dead:
            continue
        s = row_sig(q)
        if groups and groups[-1][2] == s and groups[-1][1] == q - 1:
            groups[-1][1] = q
        else:
            groups.append([q, q, s])
    lines = ['pub open spec fn ref_delta_%d(q: int, c: u8) -> int {' % n]
    first = True
    for lo, hi, sig in groups:
        inner = ''
        for key, bs in sig:
            inner += 'if %s { %s } else ' % (cond(list(bs)), 'q + 1' if key[0] == 'rel' else '%d' % key[1])
        inner += '{ %d }' % dfa.dead
        guard = 'q == %d' % lo if lo == hi else '%d <= q <= %d' % (lo, hi)
        lines.append('    %sif %s { %s }' % ('' if first else 'else ', guard, inner))
        first = False
    lines.append('    else { %d }' % dfa.dead)
    lines.append('}')
    # self-check of the emitted case analysis against the table
    for q in range(dfa.n):
        for c in range(256):
            want = dfa.delta[q][c]
            got = dfa.dead
            for lo, hi, sig in groups:
                if lo <= q <= hi:
                    for key, bs in sig:
                        if c in bs:
                            got = q + 1 if key[0] == 'rel' else key[1]
                            break
                    break
            if got != want:
                raise Lost('regex %d: compressed reference automaton disagrees with the DFA at state %d byte %d' % (n, q, c))
    lines.append('pub open spec fn ref_accept_%d(q: int) -> bool { %s }' % (n, ' || '.join('(%d <= q <= %d)' % (a, b) if a != b else 'q == %d' % a for a, b in ranges(sorted(dfa.accept))) or 'false'))
    lines.append('''pub open spec fn ref_run_%(n)d(q: int, s: Seq<u8>) -> int
    decreases s.len()
{
    if s.len() == 0 { q } else { ref_delta_%(n)d(ref_run_%(n)d(q, s.drop_last()), s.last()) }
}
pub proof fn lemma_concat_%(n)d(q: int, a: Seq<u8>, b: Seq<u8>)
    ensures ref_run_%(n)d(q, a + b) == ref_run_%(n)d(ref_run_%(n)d(q, a), b)
    decreases b.len()
{
    if b.len() == 0 { assert(a + b =~= a); } else { lemma_concat_%(n)d(q, a, b.drop_last()); assert((a + b).drop_last() =~= a + b.drop_last()); }
}
pub proof fn lemma_dead_%(n)d(s: Seq<u8>)
    ensures ref_run_%(n)d(%(dead)d, s) == %(dead)d
    decreases s.len()
{
    if s.len() > 0 { lemma_dead_%(n)d(s.drop_last()); }
}
pub proof fn lemma_push_%(n)d(q: int, s: Seq<u8>, c: u8)
    ensures ref_run_%(n)d(q, s.push(c)) == ref_delta_%(n)d(ref_run_%(n)d(q, s), c)
{
    assert(s.push(c).drop_last() =~= s);
}''' % dict(n=n, dead=dfa.dead))
    return '\n'.join(lines)


CLASS_LEMMA = r'''
pub open spec fn cls_a_%(n)d(c: u8) -> bool { %(A)s }
pub open spec fn cls_b_%(n)d(c: u8) -> bool { %(B)s }
pub open spec fn v_%(n)d(s: Seq<u8>) -> bool {
    s.len() > 0 && cls_a_%(n)d(s[0]) && forall|k: int| 1 <= k < s.len() ==> cls_b_%(n)d(#[trigger] s[k])
}
pub proof fn lemma_run_%(n)d(s: Seq<u8>)
    ensures ref_run_%(n)d(0, s) == (if s.len() == 0 { 0int } else if v_%(n)d(s) { %(acc)dint } else { %(dead)dint })
    decreases s.len()
{
    if s.len() > 0 {
        let t = s.drop_last();
        lemma_run_%(n)d(t);
        if t.len() > 0 {
            assert(t[0] == s[0]);
            if v_%(n)d(t) && cls_b_%(n)d(s.last()) {
                assert forall|k: int| 1 <= k < s.len() implies cls_b_%(n)d(#[trigger] s[k]) by {
                    if k < t.len() { assert(t[k] == s[k]); }
                }
            }
            if v_%(n)d(s) {
                assert forall|k: int| 1 <= k < t.len() implies cls_b_%(n)d(#[trigger] t[k]) by { assert(t[k] == s[k]); }
            }
        }
    }
}
'''

LEMMA_1 = r'''
// 0[xX][0-9a-fA-F]+ : states 0 -'0'-> %(s1)d -[xX]-> %(s2)d -hex-> %(s3)d -hex-> %(s3)d, dead %(dead)d
pub open spec fn v_1(s: Seq<u8>) -> bool {
    s.len() >= 3 && s[0] == 48 && (s[1] == 120 || s[1] == 88) && forall|k: int| 2 <= k < s.len() ==> is_hexdigit(#[trigger] s[k])
}
pub open spec fn st_1(s: Seq<u8>) -> int {
    if s.len() == 0 { 0 }
    else if s[0] != 48 { %(dead)d }
    else if s.len() == 1 { %(s1)d }
    else if !(s[1] == 120 || s[1] == 88) { %(dead)d }
    else if s.len() == 2 { %(s2)d }
    else if forall|k: int| 2 <= k < s.len() ==> is_hexdigit(#[trigger] s[k]) { %(s3)d } else { %(dead)d }
}
pub proof fn lemma_run_1(s: Seq<u8>)
    ensures ref_run_1(0, s) == st_1(s), ref_accept_1(st_1(s)) == v_1(s)
    decreases s.len()
{
    if s.len() > 0 {
        let t = s.drop_last();
        lemma_run_1(t);
        if t.len() > 0 { assert(t[0] == s[0]); }
        if t.len() > 1 { assert(t[1] == s[1]); }
        if t.len() >= 2 {
            if (forall|k: int| 2 <= k < t.len() ==> is_hexdigit(#[trigger] t[k])) && is_hexdigit(s.last()) {
                assert forall|k: int| 2 <= k < s.len() implies is_hexdigit(#[trigger] s[k]) by { if k < t.len() { assert(t[k] == s[k]); } }
            }
            if forall|k: int| 2 <= k < s.len() ==> is_hexdigit(#[trigger] s[k]) {
                assert forall|k: int| 2 <= k < t.len() implies is_hexdigit(#[trigger] t[k]) by { assert(t[k] == s[k]); }
            }
        }
    }
}
'''


TREE_VALIDATORS = (1, 4, 5, 6, 7, 8, 10, 11, 19, 20, 23, 27)
# extra proof lines at the start of the body (bridges between `X[a..]` slices and index ranges of s)
EXTRA_PROOF = {
    1: 'if s.len() >= 2 { lemma_all_hexdigit_from(s@, 2); }',
    23: 'if s.len() >= 1 { lemma_all_digit_from(s@, 1); lemma_sub1_index(s@); }',
}


class Shape(Exception):
    pass


def tree_lemma(n, d, cap=600):
    """Closed form st_n(s) of ref_run_n(0, s) for a DFA whose live part is a DAG plus self-loops whose other exits
    all lead to the dead state; the induction lemma ref_run_n(0, s) == st_n(s) is *proved by Verus*, so nothing about
    this generator is trusted."""
    dead = d.dead
    if dead is None:
        raise Shape('no dead state')
    loops = {}
    for q in range(d.n):
        if q == dead:
            continue
        own = [c for c in range(256) if d.delta[q][c] == q]
        if own:
            if any(d.delta[q][c] not in (q, dead) for c in range(256)):
                raise Shape('state %d has a self-loop and another live exit' % q)
            loops[q] = own
    nodes = [0]
    loopnodes = set()
    maxdepth = [0]

    def gen(q, depth, path):
        nodes[0] += 1
        if nodes[0] > cap:
            raise Shape('tree expansion too large')
        if q == dead:
            return '%dint' % dead
        if q in loops:
            loopnodes.add((depth, q))
            return '(if forall|k: int| %d <= k < s.len() ==> cls_%d_%d(#[trigger] s[k]) { %dint } else { %dint })' % (depth, n, q, q, dead)
        if q in path:
            raise Shape('cycle through state %d' % q)
        maxdepth[0] = max(maxdepth[0], depth + 1)
        tg = {}
        for c in range(256):
            t = d.delta[q][c]
            if t != dead:
                tg.setdefault(t, []).append(c)
        inner = ''
        for t2, bs in sorted(tg.items()):
            inner += 'if %s { %s } else ' % (cond(bs).replace('c', 's[%d]' % depth), gen(t2, depth + 1, path | {q}))
        inner += '{ %dint }' % dead
        return '(if s.len() == %d { %dint } else { %s })' % (depth, q, inner)

    body = gen(0, 0, frozenset())
    out = []
    for q, own in sorted(loops.items()):
        out.append('pub open spec fn cls_%d_%d(c: u8) -> bool { %s }' % (n, q, cond(own)))
    out.append('pub open spec fn st_%d(s: Seq<u8>) -> int {\n    %s\n}' % (n, body))
    pf = ['pub proof fn lemma_run_%d(s: Seq<u8>)' % n, '    ensures ref_run_%d(0, s) == st_%d(s)' % (n, n), '    decreases s.len()', '{',
          '    if s.len() > 0 {', '        let t = s.drop_last();', '        lemma_run_%d(t);' % n]
    for k in range(maxdepth[0]):
        pf.append('        if t.len() > %d { assert(t[%d] == s[%d]); }' % (k, k, k))
    for depth, q in sorted(loopnodes):
        c = 'cls_%d_%d' % (n, q)
        pf.append('        if t.len() >= %d {' % depth)
        pf.append('            if (forall|k: int| %d <= k < t.len() ==> %s(#[trigger] t[k])) && %s(s.last()) {' % (depth, c, c))
        pf.append('                assert forall|k: int| %d <= k < s.len() implies %s(#[trigger] s[k]) by { if k < t.len() { assert(t[k] == s[k]); } }' % (depth, c))
        pf.append('            }')
        pf.append('            if forall|k: int| %d <= k < s.len() ==> %s(#[trigger] s[k]) {' % (depth, c))
        pf.append('                assert forall|k: int| %d <= k < t.len() implies %s(#[trigger] t[k]) by { assert(t[k] == s[k]); }' % (depth, c))
        pf.append('            }')
        pf.append('        }')
    pf += ['    }', '}']
    return '\n'.join(out) + '\n' + '\n'.join(pf) + '\n', dict(tree_nodes=nodes[0], loop_nodes=len(loopnodes), depth=maxdepth[0])


PAT17 = 'forall|k: int| 0 <= k < %s ==> (if k %% 3 == 2 { s@[k] == 58 } else { is_hexdigit(#[trigger] s@[k]) })'

SPLIT_VALIDATORS = {
    # ([0-9a-fA-F]{2}:){5}[0-9a-fA-F]{2}: the DFA is a chain, so the generated closed form st_17 applies; the loop invariant
    # says that the text before the splitter position follows the pattern hex hex ':' ...
    17: dict(loops={0: dict(
        invariant_except_break=['vx_ok', '!vx_sp.done ==> vx_sp.pos % 3 == 0 && vx_sp.pos <= 15', 'vx_sp.done ==> vx_sp.pos == 17', PAT17 % 'vx_sp.pos'],
        invariant=['vx_sp.wf()', 'vx_sp.s == s', 'vx_sp.sep == 58u8', 's.len() == 17'],
        ensures=['vx_ok ==> (%s)' % (PAT17 % '17'), '!vx_ok ==> !ref_accept_17(st_17(s@))'],
        decreases='(if vx_sp.done { 0int } else { 1int }) + s.len() - vx_sp.pos')},
        proofs=[dict(after=r'loop\s*\{', indent=True, text='proof { if !vx_sp.done { lemma_first_sep(s@, 58u8, vx_sp.pos as int); } }')]),
}


PIECE_24 = r'''
pub open spec fn valid8(p: Seq<u8>) -> bool { ref_accept_8(st_8(p)) }

// one '/'-free piece, read from the start state (0) or from the state after a '/' (%(Q)d): it ends in segment state
// %(Q)d + len if the piece is a regex-8 identifier of at most %(MAX)d bytes, stays put if it is empty, and is dead otherwise
pub proof fn lemma_piece_24(q: int, p: Seq<u8>)
    requires q == 0 || q == %(Q)d, forall|k: int| 0 <= k < p.len() ==> #[trigger] p[k] != 47
    ensures ref_run_24(q, p) == (if p.len() == 0 { q } else if valid8(p) && p.len() <= %(MAX)d { %(Q)d + p.len() as int } else { %(DEAD)dint })
    decreases p.len()
{
    if p.len() > 0 {
        let t = p.drop_last();
        lemma_piece_24(q, t);
        if t.len() > 0 {
            assert(t[0] == p[0]);
            if (forall|k: int| 1 <= k < t.len() ==> cls_8_%(ACC8)d(#[trigger] t[k])) && cls_8_%(ACC8)d(p.last()) {
                assert forall|k: int| 1 <= k < p.len() implies cls_8_%(ACC8)d(#[trigger] p[k]) by { if k < t.len() { assert(t[k] == p[k]); } }
            }
            if forall|k: int| 1 <= k < p.len() ==> cls_8_%(ACC8)d(#[trigger] p[k]) {
                assert forall|k: int| 1 <= k < t.len() implies cls_8_%(ACC8)d(#[trigger] t[k]) by { assert(t[k] == p[k]); }
            }
        }
    }
}
'''


def split24(infos):
    """/?SEG(/SEG)* with SEG = regex 8 limited to 128 bytes: the proof template names the states start / after-slash /
    segment(len) / dead; their numbers are read off the minimal DFA and the template's assumptions about it are checked here
    (the lemmas themselves are proved by Verus against the concrete automaton, so a wrong reading cannot verify)."""
    d = infos[24]['dfa']
    d8 = infos[8]['dfa']
    Q = d.run(b'/')
    ok = d.start == 0 and d.dead is not None and d.run(b'a/') == Q and all(d.run(b'a' * j) == Q + j for j in range(1, 129)) and d.run(b'a' * 129) == d.dead \
        and d.run(b'//') == d.dead and d8.n == 3 and len(d8.accept) == 1
    if not ok:
        raise Lost('regex 24: the minimal DFA no longer has the shape start / after-slash / segment(1..128) / dead that the proof template assumes')
    acc8 = list(d8.accept)[0]
    spec = ref_text_compressed(24, d) + PIECE_24 % dict(Q=Q, MAX=128, DEAD=d.dead, ACC8=acc8)
    run = 'ref_run_24(0, s@'
    loops = {0: dict(
        invariant_except_break=['vx_ok',
                                '!vx_sp.done ==> %s.subrange(0, off + vx_sp.pos)) == (if vx_sp.pos == 0 && off == 0 { 0int } else { %dint })' % (run, Q),
                                'vx_sp.done ==> ref_accept_24(%s))' % run],
        invariant=['vx_sp.wf()', 'vx_sp.s == path', 'vx_sp.sep == 47u8', 's.len() > 0', '(off == 0 || off == 1)', 'path@ =~= s@.subrange(off, s.len() as int)', 'off == 0 ==> s@[0] != 47'],
        ensures=['vx_ok == ref_accept_24(%s))' % run],
        decreases='(if vx_sp.done { 0int } else { 1int }) + path.len() - vx_sp.pos')}
    proofs = [
        dict(before=r'^\s*\{ let mut vx_sp = VxSplit::new\(path', text='''let ghost off: int = s.len() - path.len();
proof {
    assert(s@.subrange(0, 0) =~= Seq::<u8>::empty());
    if off == 1 { assert(s@.subrange(0, 1) =~= Seq::<u8>::empty().push(s@[0])); lemma_push_24(0, Seq::<u8>::empty(), s@[0]); }
}'''),
        dict(after=r'loop\s*\{', indent=True, text='let ghost p0 = vx_sp.pos as int;'),
        dict(after=r'Some\(part\) => \{', indent=True, text='''proof {
    let e = first_sep(path@, 47u8, p0);
    lemma_first_sep(path@, 47u8, p0);
    let q = if p0 == 0 && off == 0 { 0int } else { %(Q)dint };
    let pre = s@.subrange(0, off + p0);
    assert forall|k: int| 0 <= k < part@.len() implies #[trigger] part@[k] != 47 by { assert(part@[k] == path@[p0 + k]); }
    lemma_piece_24(q, part@);
    lemma_concat_24(0, pre, part@);
    assert(s@.subrange(0, off + e) =~= pre + part@);
    lemma_run_8(part@);
    if e < path.len() {
        assert(s@[off + e] == 47);
        assert(s@.subrange(0, off + e + 1) =~= s@.subrange(0, off + e).push(47u8));
        lemma_push_24(0, s@.subrange(0, off + e), 47u8);
        let rest = s@.subrange(off + e + 1, s.len() as int);
        assert(s@ =~= s@.subrange(0, off + e + 1) + rest);
        lemma_concat_24(0, s@.subrange(0, off + e + 1), rest);
        lemma_dead_24(rest);
    } else {
        assert(s@.subrange(0, off + e) =~= s@);
    }
    if part.len() == 0 && p0 == 0 && off == 0 { assert(path@[0] == s@[0]); }
}''' % dict(Q=Q))]
    return spec, loops, proofs, dict(states=d.n, after_slash=Q, segment_states='%d..%d' % (Q + 1, Q + 128))


def make_unit(infos):
    spec = ''
    fns = []
    shapes = {}
    for n in TREE_VALIDATORS:
        if n not in infos or infos[n]['kind'] != 'hand':
            continue
        d = infos[n]['dfa']
        try:
            lem, sh = tree_lemma(n, d)
        except Shape as e:
            raise Lost('regex %d: minimal DFA of %r is outside the shape the generated lemma handles (%s)' % (n, infos[n]['regex'], e))
        shapes[n] = sh
        spec += ref_text(n, d) + '\n' + lem
        extra = EXTRA_PROOF.get(n, '')
        fns.append(FnSpec('validate_regex_%d' % n, F, ret='r', body_sub=R15, sig_sub=[(r'pub\(crate\) fn', 'pub fn')],
                          ensures=['r == ref_accept_%d(ref_run_%d(0, s@))' % (n, n)],
                          proofs=[dict(at='body_start', text='proof { lemma_run_%d(s@); %s }' % (n, extra))]))
    for n, cfg in SPLIT_VALIDATORS.items():
        if n not in infos or infos[n]['kind'] != 'hand':
            continue
        d = infos[n]['dfa']
        try:
            lem, sh = tree_lemma(n, d)
        except Shape as e:
            raise Lost('regex %d: minimal DFA of %r is outside the shape the generated lemma handles (%s)' % (n, infos[n]['regex'], e))
        shapes[n] = sh
        spec += ref_text(n, d) + '\n' + lem
        fns.append(FnSpec('validate_regex_%d' % n, F, ret='r', body_sub=R25 + R15, sig_sub=[(r'pub\(crate\) fn', 'pub fn')],
                          ensures=['r == ref_accept_%d(ref_run_%d(0, s@))' % (n, n)], loops=cfg['loops'],
                          proofs=[dict(at='body_start', text='proof { lemma_run_%d(s@); }' % n)] + cfg['proofs']))
    u = Unit(name='regex_hand', prop='C19', spec=spec, fns=fns,
             dropped=['doc comments; `pub(crate)` -> `pub`'])
    u.shapes = shapes
    return u
