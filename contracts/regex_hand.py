"""C19 / unit `regex_hand`: hand-written validators brought under an unbounded Verus contract.

Contract (same as for the table validators): ensures r == ref_accept_n(ref_run_n(0, s@)), but here
ref_delta_n / ref_accept_n are *concrete* spec functions generated from the minimal DFA of the published regex
(byte-range conditions per state), so nothing is assumed about the automaton.  The bridge between the validator's
declarative shape and the automaton is an induction lemma:

  * class validators (7, 8, 10, 11, 19, 20, 27): the minimal DFA has exactly the states start / dead / accept;
    lemma_run_n: run(0, s) = 0 if s is empty, 2 if A_n(s[0]) and B_n(s[k]) for all k >= 1, else dead -- A_n and B_n
    are read off the generated automaton (A_n(c) := delta(0,c) == 2, B_n(c) := delta(2,c) == 2), so the lemma is
    generated, not hand-written, and the shape is checked mechanically;
  * validator 1 (0[xX][0-9a-fA-F]+): a hand-written lemma over the 5-state chain; the state numbers it mentions are
    checked against access strings on every run.

Rules: R15 `X.iter().all(u8::is_ascii_digit|hexdigit)` / `.all(|c| c.is_ascii_alphanumeric() || *c == b'_' [|| *c == b'-'])`
-> verified prelude helpers vx_all_*; R16 `X.is_empty()` -> `(X.len() == 0)`.
"""
import re

from vxlib.verusunit import Unit, FnSpec
from vxlib.rustsrc import Lost

F = 'autosar-data-specification/src/regex.rs'

R15 = [
    (r'((?:\w+)(?:\[[^\]\n]*\])?)\.iter\(\)\.all\(u8::is_ascii_digit\)', lambda m: 'vx_all_digit(%s)' % (('&' + m.group(1)) if '[' in m.group(1) else m.group(1)), 'R15'),
    (r'((?:\w+)(?:\[[^\]\n]*\])?)\.iter\(\)\.all\(u8::is_ascii_hexdigit\)', lambda m: 'vx_all_hexdigit(%s)' % (('&' + m.group(1)) if '[' in m.group(1) else m.group(1)), 'R15'),
    (r"(\w+)\.iter\(\)\.all\(\|c\| c\.is_ascii_alphanumeric\(\) \|\| \*c == (b'.') \|\| \*c == (b'.')\)", lambda m: 'vx_all_alnum_or2(%s, %s, %s)' % (m.group(1), m.group(2), m.group(3)), 'R15'),
    (r"(\w+)\.iter\(\)\.all\(\|c\| c\.is_ascii_alphanumeric\(\) \|\| \*c == (b'.')\)", lambda m: 'vx_all_alnum_or2(%s, %s, %s)' % (m.group(1), m.group(2), m.group(2)), 'R15'),
    (r'(\w+)\.is_empty\(\)', lambda m: '(%s.len() == 0)' % m.group(1), 'R16'),
]


def ranges(bs):
    out = []
    for b in sorted(bs):
        if out and out[-1][1] == b - 1:
            out[-1][1] = b
        else:
            out.append([b, b])
    return out


def cond(bs):
    if not bs:
        return 'false'
    return ' || '.join('(c == %d)' % a if a == b else '(%d <= c <= %d)' % (a, b) for a, b in ranges(bs))


def ref_text(n, dfa):
    """concrete spec functions of the reference DFA"""
    lines = ['pub open spec fn ref_delta_%d(q: int, c: u8) -> int {' % n]
    first = True
    for q in range(dfa.n):
        if q == dfa.dead:
            continue
        tg = {}
        for c in range(256):
            t = dfa.delta[q][c]
            if t != dfa.dead:
                tg.setdefault(t, []).append(c)
        inner = ''
        for t, bs in sorted(tg.items()):
            inner += 'if %s { %d } else ' % (cond(bs), t)
        inner += '{ %d }' % dfa.dead
        lines.append('    %sif q == %d { %s }' % ('' if first else 'else ', q, inner))
        first = False
    lines.append('    else { %d }' % dfa.dead)
    lines.append('}')
    lines.append('pub open spec fn ref_accept_%d(q: int) -> bool { %s }' % (n, ' || '.join('q == %d' % a for a in sorted(dfa.accept)) or 'false'))
    lines.append('''pub open spec fn ref_run_%(n)d(q: int, s: Seq<u8>) -> int
    decreases s.len()
{
    if s.len() == 0 { q } else { ref_delta_%(n)d(ref_run_%(n)d(q, s.drop_last()), s.last()) }
}''' % dict(n=n))
    return '\n'.join(lines)


CLASS_LEMMA = r'''
pub open spec fn cls_a_%(n)d(c: u8) -> bool { %(A)s }
pub open spec fn cls_b_%(n)d(c: u8) -> bool { %(B)s }
pub open spec fn v_%(n)d(s: Seq<u8>) -> bool {
    s.len() > 0 && cls_a_%(n)d(s[0]) && forall|k: int| 1 <= k < s.len() ==> cls_b_%(n)d(#[trigger] s[k])
}
pub proof fn lemma_run_%(n)d(s: Seq<u8>)
    ensures ref_run_%(n)d(0, s) == (if s.len() == 0 { 0int } else if v_%(n)d(s) { %(acc)dint } else { %(dead)dint })
    decreases s.len()
{
    if s.len() > 0 {
        let t = s.drop_last();
        lemma_run_%(n)d(t);
        if t.len() > 0 {
            assert(t[0] == s[0]);
            if v_%(n)d(t) && cls_b_%(n)d(s.last()) {
                assert forall|k: int| 1 <= k < s.len() implies cls_b_%(n)d(#[trigger] s[k]) by {
                    if k < t.len() { assert(t[k] == s[k]); }
                }
            }
            if v_%(n)d(s) {
                assert forall|k: int| 1 <= k < t.len() implies cls_b_%(n)d(#[trigger] t[k]) by { assert(t[k] == s[k]); }
            }
        }
    }
}
'''

LEMMA_1 = r'''
// 0[xX][0-9a-fA-F]+ : states 0 -'0'-> %(s1)d -[xX]-> %(s2)d -hex-> %(s3)d -hex-> %(s3)d, dead %(dead)d
pub open spec fn v_1(s: Seq<u8>) -> bool {
    s.len() >= 3 && s[0] == 48 && (s[1] == 120 || s[1] == 88) && forall|k: int| 2 <= k < s.len() ==> is_hexdigit(#[trigger] s[k])
}
pub open spec fn st_1(s: Seq<u8>) -> int {
    if s.len() == 0 { 0 }
    else if s[0] != 48 { %(dead)d }
    else if s.len() == 1 { %(s1)d }
    else if !(s[1] == 120 || s[1] == 88) { %(dead)d }
    else if s.len() == 2 { %(s2)d }
    else if forall|k: int| 2 <= k < s.len() ==> is_hexdigit(#[trigger] s[k]) { %(s3)d } else { %(dead)d }
}
pub proof fn lemma_run_1(s: Seq<u8>)
    ensures ref_run_1(0, s) == st_1(s), ref_accept_1(st_1(s)) == v_1(s)
    decreases s.len()
{
    if s.len() > 0 {
        let t = s.drop_last();
        lemma_run_1(t);
        if t.len() > 0 { assert(t[0] == s[0]); }
        if t.len() > 1 { assert(t[1] == s[1]); }
        if t.len() >= 2 {
            if (forall|k: int| 2 <= k < t.len() ==> is_hexdigit(#[trigger] t[k])) && is_hexdigit(s.last()) {
                assert forall|k: int| 2 <= k < s.len() implies is_hexdigit(#[trigger] s[k]) by { if k < t.len() { assert(t[k] == s[k]); } }
            }
            if forall|k: int| 2 <= k < s.len() ==> is_hexdigit(#[trigger] s[k]) {
                assert forall|k: int| 2 <= k < t.len() implies is_hexdigit(#[trigger] t[k]) by { assert(t[k] == s[k]); }
            }
        }
    }
}
'''

CLASS_VALIDATORS = (7, 8, 10, 11, 19, 20, 27)


def make_unit(infos):
    spec = ''
    fns = []
    for n in CLASS_VALIDATORS:
        if n not in infos or infos[n]['kind'] != 'hand':
            continue
        d = infos[n]['dfa']
        live = [q for q in range(d.n) if q != d.dead and q != 0]
        ok = d.n == 3 and len(live) == 1 and d.accept == {live[0]} and all(d.delta[0][c] in (live[0], d.dead) for c in range(256)) \
            and all(d.delta[live[0]][c] in (live[0], d.dead) for c in range(256))
        if not ok:
            raise Lost('regex %d: minimal DFA is no longer of the shape start/dead/accept (regex_hand lemma does not apply)' % n)
        acc = live[0]
        A = cond([c for c in range(256) if d.delta[0][c] == acc])
        B = cond([c for c in range(256) if d.delta[acc][c] == acc])
        spec += ref_text(n, d) + CLASS_LEMMA % dict(n=n, A=A, B=B, acc=acc, dead=d.dead)
        fns.append(FnSpec('validate_regex_%d' % n, F, ret='r', body_sub=R15, sig_sub=[(r'pub\(crate\) fn', 'pub fn')],
                          ensures=['r == ref_accept_%d(ref_run_%d(0, s@))' % (n, n)],
                          proofs=[dict(at='body_start', text='proof { lemma_run_%d(s@); }' % n)]))
    if 1 in infos and infos[1]['kind'] == 'hand':
        d = infos[1]['dfa']
        s1, s2, s3 = d.run(b'0'), d.run(b'0x'), d.run(b'0xa')
        if d.n != 5 or d.run(b'0X') != s2 or d.run(b'0xaF') != s3 or d.accept != {s3} or len({0, s1, s2, s3, d.dead}) != 5:
            raise Lost('regex 1: minimal DFA is no longer the 5-state chain the hand-written lemma assumes')
        spec += ref_text(1, d) + LEMMA_1 % dict(s1=s1, s2=s2, s3=s3, dead=d.dead)
        fns.append(FnSpec('validate_regex_1', F, ret='r', body_sub=R15, sig_sub=[(r'pub\(crate\) fn', 'pub fn')],
                          ensures=['r == ref_accept_1(ref_run_1(0, s@))'],
                          proofs=[dict(at='body_start', text='''proof {
    lemma_run_1(s@);
    if s.len() >= 2 {
        let p = s@.subrange(0, 2);
        assert(p.len() == 2 && p[0] == s@[0] && p[1] == s@[1]);
        let lx = seq![48u8, 120u8];
        let ux = seq![48u8, 88u8];
        assert(lx.len() == 2 && lx[0] == 48 && lx[1] == 120 && ux.len() == 2 && ux[0] == 48 && ux[1] == 88);
        assert((p =~= lx) == (s@[0] == 48 && s@[1] == 120));
        assert((p =~= ux) == (s@[0] == 48 && s@[1] == 88));
    }
    if s.len() >= 3 {
        assert forall|k: int| 0 <= k < s.len() - 2 implies s@.subrange(2, s.len() as int)[k] == s@[k + 2] by {}
    }
}''')]))
    return Unit(name='regex_hand', prop='C19', spec=spec, fns=fns,
                dropped=['doc comments; `pub(crate)` -> `pub`'])
