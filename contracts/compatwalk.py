"""C17 / unit `compatwalk`: the tree walk of the version-compatibility check (element.rs)

    Element::recalc_element_type(target)                  r == new_type(e, target)
    Element::check_version_compatibility(file, target)    the list of incompatibilities is empty  <==>  tree_compat(e, file, target)

tree_compat is the recursive statement of "every element, attribute and value below e that belongs to the file is permitted in the target
version", written over the specification tables (uninterpreted contents, wf_tables) and over an abstract reading of the element graph:

  * an Element is an opaque handle; name_of / type_of / parent_of / attrs_of / content_of / sub_elems are uninterpreted functions of the
    handle (the real accessors take the element's lock); the leaves element_name(), element_type(), parent(), get_sub_element(),
    the read guard (vx_read) and sub_elements() (vx_sub_elements) return exactly these.  Single-threaded reading: parent() succeeds.
  * the tree is well-founded: height(child) < height(parent) for every sub-element (ASSUMED: this is property C03).
  * model consistency (precondition type_consistent, for e and -- as part of the recursion -- its descendants): an element's type is
    one of the types its parent's type lists for its name.  Together with the closed table fact crosstype (ASSUMED here, discharged on the
    real statics by `ground lib tables_crosstype`: an index list found in one listing of a name resolves in every other listing of that
    name under the same parent type) this makes the `.unwrap()` of `self.element_type().get_sub_element_version_mask(&indices)` safe --
    the code looks the indices up in the target version's type but reads the mask from the element's own type.

The value-level check CharacterData::check_version_compatibility is a leaf with two clauses of the contract unit chardata proves
(compat_post): `r.0 == valid(value, spec, target)`; `valid` is uninterpreted here.  Specification lookups are leaves with the contracts of
unit lookups.

Rules R45: `{ let element = self.0.read(); ... }` -> `let element = self.vx_read();` (a value with the attribute and content lists of the
handle); `for x in &V {` -> index loop; `for sub_element in self.sub_elements() {` -> index loop over vx_sub_elements(self);
the file-membership test -> vx_relevant; the mask of the versions in which the type is not identifiable
(`expand_version_mask(..).iter().filter(..).fold(..)`) -> vx_unnamed_mask; CompatibilityError literals -> opaque value;
`A.or(B)` -> match; `X.map_or(0, |spec| spec.version)` -> match; `.unwrap()` kept (proved safe).
"""
import copy
import os
import re

from vxlib.verusunit import Unit, FnSpec
from vxlib.rustsrc import Source, Lost
from contracts import parser_funnel, lookups

F = 'autosar-data/src/element.rs'
IMPL_E = r'impl Element'

TYPES = r'''
%(version_enum)s

#[derive(Clone, Copy)]
pub struct Element { pub opaque: u64 }
pub struct WeakArxmlFile { pub opaque: u64 }
pub struct CharacterData { pub opaque: u64 }
pub struct Attribute { pub attrname: AttributeName, pub content: CharacterData }
pub enum ElementContent { Element(Element), CharacterData(CharacterData) }
pub enum CompatibilityError { VxOther(u64) }
pub enum AutosarDataError { VxOther(u64) }
// what a read guard shows
pub struct ElementView { pub attributes: Vec<Attribute>, pub content: Vec<ElementContent> }

pub uninterp spec fn name_of(e: Element) -> ElementName;
pub uninterp spec fn type_of(e: Element) -> ElementType;
pub uninterp spec fn parent_of(e: Element) -> Option<Element>;
pub uninterp spec fn attrs_of_elem(e: Element) -> Seq<Attribute>;
pub uninterp spec fn content_of(e: Element) -> Seq<ElementContent>;
pub uninterp spec fn sub_elems(e: Element) -> Seq<Element>;
pub uninterp spec fn relevant(e: Element, f: WeakArxmlFile) -> bool;
pub uninterp spec fn height(e: Element) -> nat;
// value-level validity (defined in unit chardata)
pub uninterp spec fn valid(v: CharacterData, spec: CharacterDataSpec, ver: u32) -> bool;

// ASSUMED: the element tree is well-founded (property C03)
#[verifier::external_body]
pub proof fn axiom_height(e: Element, i: int) requires 0 <= i < sub_elems(e).len() ensures height(sub_elems(e)[i]) < height(e) {}

impl CharacterData {
    // two clauses of compat_post, proved in unit chardata
    #[verifier::external_body]
    pub fn check_version_compatibility(&self, data_spec: &CharacterDataSpec, target_version: AutosarVersion) -> (r: (bool, u32))
        ensures valid(*self, *data_spec, target_version as u32) ==> r.0,    // lemma_valid_implies_compatible in unit chardata
            r.0 ==> r.1 & (target_version as u32) != 0,
            // third clause (lemma_compat_iff in unit chardata): when an enumeration value is held wherever one is expected, the mask has the target exactly when compatible
            value_kind_ok(*self, *data_spec) ==> (r.0 <==> r.1 & (target_version as u32) != 0)
    { unimplemented!() }
    // full validity of a value for a spec in a version: contract proved in unit chardata (check_value:ensures:0), same `valid`
    #[verifier::external_body]
    pub fn check_value(value: &CharacterData, spec: &CharacterDataSpec, file_version: AutosarVersion) -> (r: bool)
        ensures r == valid(*value, *spec, file_version as u32)
    { unimplemented!() }
    #[verifier::external_body]
    pub fn to_string(&self) -> (r: String) { unimplemented!() }
}
impl Element {
    #[verifier::external_body]
    pub fn element_name(&self) -> (r: ElementName) ensures r == name_of(*self) { unimplemented!() }
    #[verifier::external_body]
    pub fn element_type(&self) -> (r: ElementType) ensures r == type_of(*self) { unimplemented!() }
    #[verifier::external_body]
    pub fn clone(&self) -> (r: Element) ensures r == *self { unimplemented!() }
    // single-threaded reading: the upward step succeeds
    #[verifier::external_body]
    pub fn parent(&self) -> (r: Result<Option<Element>, AutosarDataError>) ensures r == Ok::<Option<Element>, AutosarDataError>(parent_of(*self)) { unimplemented!() }
    #[verifier::external_body]
    pub fn get_sub_element(&self, name: ElementName) -> (r: Option<Element>)
        ensures r is Some <==> exists|i: int| 0 <= i < sub_elems(*self).len() && name_of(#[trigger] sub_elems(*self)[i]) == name
    { unimplemented!() }
    #[verifier::external_body]
    pub fn vx_read(&self) -> (r: ElementView) ensures r.attributes@ == attrs_of_elem(*self), r.content@ == content_of(*self) { unimplemented!() }
    #[verifier::external_body]
    pub fn vx_sub_elements(&self) -> (r: Vec<Element>) ensures r@ == sub_elems(*self) { unimplemented!() }
    #[verifier::external_body]
    pub fn vx_relevant(&self, f: &WeakArxmlFile) -> (r: bool) ensures r == relevant(*self, *f) { unimplemented!() }
}
// ---- the file-level entry points (arxmlfile.rs)
#[derive(Clone, Copy)]
pub struct ArxmlFile { pub opaque: u64 }
pub struct AutosarModel { pub opaque: u64 }
pub uninterp spec fn root_of_file(f: ArxmlFile) -> Option<Element>;
pub uninterp spec fn weak_of(f: ArxmlFile) -> WeakArxmlFile;
impl AutosarModel {
    #[verifier::external_body]
    pub fn root_element(&self) -> (r: Element) ensures r == model_root(*self) { unimplemented!() }
}
pub uninterp spec fn model_root(m: AutosarModel) -> Element;
impl ArxmlFile {
    // the model the file belongs to (None after the file was removed); its root element is root_of_file
    #[verifier::external_body]
    pub fn model(&self) -> (r: Result<AutosarModel, AutosarDataError>) ensures r matches Ok(m) ==> root_of_file(*self) == Some(model_root(m)), r is Err ==> root_of_file(*self) is None { unimplemented!() }
    #[verifier::external_body]
    pub fn downgrade(&self) -> (r: WeakArxmlFile) ensures r == weak_of(*self) { unimplemented!() }
    // `self.0.write().version = v` (R45)
    #[verifier::external_body]
    pub fn vx_write_version(&self, v: AutosarVersion) { unimplemented!() }
}
#[verifier::external_body]
pub fn vx_unnamed_mask(t: ElementType) -> (r: u32)
    // what the fold computes: the union of the versions in which the type is not identifiable (ASSUMED reading of the iterator chain)
    ensures forall|v: AutosarVersion| named_in(t.typ as int, #[trigger] ver_bits(v)) ==> r & ver_bits(v) == 0
{ unimplemented!() }
#[verifier::external_body]
pub fn vx_compat_error() -> (r: CompatibilityError) { unimplemented!() }

pub open spec fn single_bit(v: u32) -> bool { v != 0 && v & sub(v, 1) == 0 }
pub proof fn lemma_and_mask(a: u32, b: u32, v: u32)
    ensures (single_bit(v) && a & v != 0 && b & v != 0) ==> (a & b) & v != 0, single_bit(v) ==> u32::MAX & v != 0,
        (a & v == 0 || b & v == 0) ==> (a & b) & v == 0
{
    assert((v != 0 && v & sub(v, 1) == 0 && a & v != 0 && b & v != 0) ==> (a & b) & v != 0) by(bit_vector);
    assert(v != 0 ==> 0xffff_ffffu32 & v != 0) by(bit_vector);
    assert((a & v == 0 || b & v == 0) ==> (a & b) & v == 0) by(bit_vector);
}
%(single_bit_lemma)s
// ---- the statement
pub open spec fn type_listed(pt: int, n: ElementName, t: ElementType) -> bool {
    exists|v0: u32| (#[trigger] find_from(pt, 0, n, v0)) matches Some((d, _)) && t == et_of(d)
}
// an element's type is one of the types its parent's type lists for its name (model consistency), and lies inside the tables
pub open spec fn type_consistent(e: Element) -> bool {
    type_of(e).typ < n_dt() && (parent_of(e) matches Some(p) ==> type_of(p).typ < n_dt() && type_listed(type_of(p).typ as int, name_of(e), type_of(e)))
}
pub open spec fn new_type(e: Element, v: u32) -> ElementType {
    match parent_of(e) {
        Some(p) => match find_from(type_of(p).typ as int, 0, name_of(e), v) { Some((d, _)) => et_of(d), None => type_of(e) },
        None => type_of(e),
    }
}
// the lookup of a child name in the target type: for the target version, else in any version
pub open spec fn child_idx(tn: int, n: ElementName, v: u32) -> Option<Seq<usize>> {
    match find_from(tn, 0, n, v) { Some((_, p)) => Some(p), None => match find_from(tn, 0, n, u32::MAX) { Some((_, p)) => Some(p), None => None } }
}
pub open spec fn attr_compat(a: Attribute, tn: int, v: u32) -> bool {
    exists|k: int| attr_at(tn, k, a.attrname) && v & t_ver(t_dt(tn).attributes_ver + k) != 0 && valid(a.content, t_cd(attrs_of(tn)[k].1 as int), v)
}
pub open spec fn named_in(tn: int, v: u32) -> bool { sn_mask(tn) matches Some(m) && m & v != 0 }
pub open spec fn has_short_name(e: Element) -> bool { exists|i: int| 0 <= i < sub_elems(e).len() && name_of(#[trigger] sub_elems(e)[i]) == ElementName::ShortName }
pub open spec fn chardata_compat(c: ElementContent, tn: int, v: u32) -> bool {
    c matches ElementContent::CharacterData(cd) ==> (t_dt(tn).character_data matches Some(s) ==> valid(cd, t_cd(s as int), v))
}
// one child: permitted in the target version (mask read from the parent's own type, as the code does) and compatible below
pub open spec fn child_compat(e: Element, c: Element, f: WeakArxmlFile, v: u32) -> bool
    decreases height(e), 0nat
    when exists|i: int| 0 <= i < sub_elems(e).len() && sub_elems(e)[i] == c
    via child_compat_decreases
{
    relevant(c, f) ==> match child_idx(new_type(e, v).typ as int, name_of(c), v) {
        Some(idx) => (resolve_any(type_of(e).typ as int, idx) matches Some((_, vm)) && v & vm != 0) && tree_compat(c, f, v),
        None => true,
    }
}
pub open spec fn tree_compat(e: Element, f: WeakArxmlFile, v: u32) -> bool
    decreases height(e), 1nat
{
    let tn = new_type(e, v).typ as int;
    &&& !(named_in(tn, v) && !has_short_name(e))
    &&& forall|i: int| 0 <= i < attrs_of_elem(e).len() ==> attr_compat(#[trigger] attrs_of_elem(e)[i], tn, v)
    &&& forall|i: int| 0 <= i < content_of(e).len() ==> chardata_compat(#[trigger] content_of(e)[i], tn, v)
    &&& forall|i: int| 0 <= i < sub_elems(e).len() ==> child_compat(e, #[trigger] sub_elems(e)[i], f, v)
}
#[via_fn]
proof fn child_compat_decreases(e: Element, c: Element, f: WeakArxmlFile, v: u32) {
    let i = choose|i: int| 0 <= i < sub_elems(e).len() && sub_elems(e)[i] == c;
    axiom_height(e, i);
}
// every element below e (that the walk visits) is consistent
pub open spec fn subtree_consistent(e: Element) -> bool
    decreases height(e)
{
    type_consistent(e) && forall|i: int| 0 <= i < sub_elems(e).len() ==> (#[trigger] parent_of(sub_elems(e)[i]) == Some(e) && subtree_consistent_child(e, i))
}
pub open spec fn subtree_consistent_child(e: Element, i: int) -> bool
    decreases height(e), 0nat when 0 <= i < sub_elems(e).len() via stc_decreases
{ subtree_consistent(sub_elems(e)[i]) }
#[via_fn]
proof fn stc_decreases(e: Element, i: int) { axiom_height(e, i); }

// ---- value kinds (model consistency, ASSUMED as a precondition): wherever the target version's type expects an enumeration value, the
// element holds one (the loader and the editing API only store enumeration values there; a text where an enumeration item is expected
// would be reported as incompatible with the mask u32::MAX)
pub uninterp spec fn is_enum_value(cd: CharacterData) -> bool;
pub open spec fn value_kind_ok(cd: CharacterData, s: CharacterDataSpec) -> bool { s is Enum ==> is_enum_value(cd) }
pub open spec fn attr_kind_ok(a: Attribute, tn: int) -> bool { forall|k: int| attr_at(tn, k, a.attrname) ==> value_kind_ok(a.content, t_cd(attrs_of(tn)[k].1 as int)) }
pub open spec fn content_kind_ok(c: ElementContent, tn: int) -> bool {
    c matches ElementContent::CharacterData(cd) ==> (t_dt(tn).character_data matches Some(s) ==> value_kind_ok(cd, t_cd(s as int)))
}
pub open spec fn kinds_ok(e: Element, v: u32) -> bool
    decreases height(e)
{
    let tn = new_type(e, v).typ as int;
    &&& forall|i: int| 0 <= i < attrs_of_elem(e).len() ==> attr_kind_ok(#[trigger] attrs_of_elem(e)[i], tn)
    &&& forall|i: int| 0 <= i < content_of(e).len() ==> content_kind_ok(#[trigger] content_of(e)[i], tn)
    &&& forall|i: int| 0 <= i < sub_elems(e).len() ==> (#[trigger] parent_of(sub_elems(e)[i]) == Some(e) ==> kinds_ok_child(e, i, v))
}
pub open spec fn kinds_ok_child(e: Element, i: int, v: u32) -> bool
    decreases height(e), 0nat when 0 <= i < sub_elems(e).len() via kok_decreases
{ kinds_ok(sub_elems(e)[i], v) }
#[via_fn]
proof fn kok_decreases(e: Element, i: int, v: u32) { axiom_height(e, i); }

pub open spec fn ver_bits(tv: AutosarVersion) -> u32 { tv as u32 }
// Closed table fact, ASSUMED here and discharged on the real statics by `ground lib tables_crosstype`:
// an index list found in one listing of a name resolves (to an element entry) in every other listing of that name under the same parent type
#[verifier::external_body]
pub proof fn axiom_crosstype(pt: int, n: ElementName, t_own: ElementType, t_new: ElementType, child: ElementName, v: u32, idx: Seq<usize>)
    requires type_listed(pt, n, t_own), type_listed(pt, n, t_new), find_from(t_new.typ as int, 0, child, v) matches Some((_, p)) && p == idx,
        v == u32::MAX || exists|tv: AutosarVersion| #[trigger] ver_bits(tv) == v
    ensures idx_ok(t_own.typ as int, idx), resolve_any(t_own.typ as int, idx) is Some
{}
'''

R45 = [
    (r'overall_version_mask &= (\w+);', lambda m: 'let ghost vx_om = overall_version_mask; overall_version_mask &= %s; proof { lemma_and_mask(vx_om, %s, target_version as u32); }' % (m.group(1), m.group(1)), 'ghost'),
    (r'value_version_mask &= !\(target_version as u32\);', lambda m: 'let ghost vx_vm = value_version_mask; value_version_mask &= !(target_version as u32); proof { let vx_w: u32 = target_version as u32; assert((vx_vm & !vx_w) & vx_w == 0) by(bit_vector); }', 'ghost'),
    (r'CompatibilityError::\w+ \{[^{}]*\}', lambda m: 'vx_compat_error()', 'R45'),
    (r'let version_mask = autosar_data_specification::expand_version_mask\(u32::MAX\)\s*\.iter\(\)\s*\.filter\(\|ver\| !elemtype_new\.is_named_in_version\(\*\*ver\)\)\s*\.fold\(0u32, \|mask, ver\| mask \| \*ver as u32\);',
     lambda m: 'let version_mask = vx_unnamed_mask(elemtype_new);', 'R45'),
    (r'\{\s*let element = self\.0\.read\(\);', lambda m: '{ let element = self.vx_read();', 'R45'),
    (r'for (\w+) in &(\w+)\.(\w+) \{', lambda m: 'let mut vx_%s: usize = 0; while vx_%s < %s.%s.len() { let %s = &%s.%s[vx_%s]; vx_%s += 1;' % (m.group(3), m.group(3), m.group(2), m.group(3), m.group(1), m.group(2), m.group(3), m.group(3), m.group(3)), 'R18'),
    (r'for sub_element in self\.sub_elements\(\) \{', lambda m: 'let vx_subs = self.vx_sub_elements(); let mut vx_si: usize = 0; while vx_si < vx_subs.len() { let sub_element = vx_subs[vx_si]; vx_si += 1;', 'R45'),
    (r'sub_element\.0\.read\(\)\.file_membership\.is_empty\(\) \|\| sub_element\.0\.read\(\)\.file_membership\.contains\(file\)', lambda m: 'sub_element.vx_relevant(file)', 'R45'),
    (r'elemtype_new\s*\.find_sub_element\(sub_element\.element_name\(\), target_version as u32\)\s*\.or\(elemtype_new\.find_sub_element\(sub_element\.element_name\(\), u32::MAX\)\)',
     lambda m: '(match elemtype_new.find_sub_element(sub_element.element_name(), target_version as u32) { Some(vx_v) => Some(vx_v), None => elemtype_new.find_sub_element(sub_element.element_name(), u32::MAX) })', 'R45'),
    (r'let version_mask = self\s*\.element_type\(\)\s*\.find_attribute_spec\(attribute\.attrname\)\s*\.map_or\(0, \|spec\| spec\.version\)\s*& !\(target_version as u32\);',
     lambda m: 'let vx_own: u32 = (match self.element_type().find_attribute_spec(attribute.attrname) { Some(spec) => spec.version, None => 0 }); let version_mask = vx_own & !(target_version as u32); '
               'proof { let vx_w: u32 = target_version as u32; assert((vx_own & !vx_w) & vx_w == 0) by(bit_vector); }', 'R45'),
    (r'get_sub_element_version_mask\(&indices\)', lambda m: 'get_sub_element_version_mask(indices.as_slice())', 'R45'),
    (r'attribute_value: attribute\.content\.to_string\(\),', lambda m: '', 'none'),
]

LEAVES = ['find_sub_element', 'find_attribute_spec', 'get_sub_element_version_mask', 'is_named_in_version', 'chardata_spec', 'compatible']

TV = 'target_version as u32'


def make_unit(repo_dir):
    lookups.check_decls(repo_dir)
    sz = lookups.table_sizes(repo_dir)
    lspec = lookups.TYPES % dict(version_enum='', STATICS='', REFERENCE_TYPE_IDX=sz['REFERENCE_TYPE_IDX'], **{k: v[1] for k, v in sz.items() if isinstance(v, tuple)})
    ve = parser_funnel.version_enum(repo_dir)
    arms = ''.join('        AutosarVersion::%s => { assert(single_bit(%su32)) by(bit_vector); }\n' % (n, h) for n, h in re.findall(r'(\w+)\s*=\s*(0x[0-9a-fA-F]+)', ve))
    sb = 'pub proof fn lemma_single_bit(v: AutosarVersion) ensures single_bit(v as u32) {\n    match v {\n%s    }\n}\n' % arms
    spec = lspec + TYPES % dict(version_enum=ve, single_bit_lemma=sb)
    lf = {f.label: f for f in lookups.fns(sz)}
    fns = [
        FnSpec('recalc_element_type', F, impl=IMPL_E, ret='r', requires=['type_consistent(*self)'],
               ensures=['r == new_type(*self, %s)' % TV, 'r.typ < n_dt()',
                        'parent_of(*self) matches Some(p) ==> type_listed(type_of(p).typ as int, name_of(*self), r)'],
               proofs=[dict(at='body_start', text='proof { axiom_tables(); }')]),
    ]
    E0 = 'compat_errors@.len() == 0'
    N = '!(named_in(elemtype_new.typ as int, %s) && !has_short_name(*self))' % TV
    def A(k):
        return 'forall|i: int| 0 <= i < %s ==> attr_compat(#[trigger] attrs_of_elem(*self)[i], elemtype_new.typ as int, %s)' % (k, TV)

    def C(k):
        return 'forall|i: int| 0 <= i < %s ==> chardata_compat(#[trigger] content_of(*self)[i], elemtype_new.typ as int, %s)' % (k, TV)

    def S(k):
        return 'forall|i: int| 0 <= i < %s ==> child_compat(*self, #[trigger] sub_elems(*self)[i], *file, %s)' % (k, TV)
    base = ['(%s) ==> overall_version_mask & (%s) != 0' % (E0, TV), '!(%s) ==> overall_version_mask & (%s) == 0' % (E0, TV), 'kinds_ok(*self, %s)' % TV, 'single_bit(%s)' % TV, 'wf_tables()', 'subtree_consistent(*self)', 'elemtype_new == new_type(*self, %s)' % TV, 'elemtype_new.typ < n_dt()',
            'parent_of(*self) matches Some(p) ==> type_listed(type_of(p).typ as int, name_of(*self), elemtype_new)']
    fns.append(FnSpec('check_version_compatibility', F, impl=IMPL_E, ret='r', body_sub=R45, sig_sub=[(r'pub\(crate\) fn', 'pub fn')],
               requires=['subtree_consistent(*self)', 'kinds_ok(*self, %s)' % TV],
               ensures=['r.0@.len() == 0 <==> tree_compat(*self, *file, %s)' % TV,
                        # the returned mask contains the target version exactly when nothing is listed
                        'r.0@.len() == 0 <==> r.1 & (%s) != 0' % TV],
               decreases='height(*self)',
               loops={0: dict(invariant=base + ['vx_attributes <= element.attributes.len()', 'element.attributes@ == attrs_of_elem(*self)', 'element.content@ == content_of(*self)',
                                                '(%s) <==> ((%s) && (%s))' % (E0, N, A('vx_attributes'))], decreases='element.attributes.len() - vx_attributes'),
                      1: dict(invariant=base + ['vx_content <= element.content.len()', 'element.content@ == content_of(*self)',
                                                't_dt(elemtype_new.typ as int).character_data matches Some(cs) && *value_spec == t_cd(cs as int)',
                                                '(%s) <==> ((%s) && (%s) && (%s))' % (E0, N, A('attrs_of_elem(*self).len()'), C('vx_content'))], decreases='element.content.len() - vx_content'),
                      2: dict(invariant=base + ['vx_si <= vx_subs.len()', 'vx_subs@ == sub_elems(*self)',
                                                '(%s) <==> ((%s) && (%s) && (%s) && (%s))' % (E0, N, A('attrs_of_elem(*self).len()'), C('content_of(*self).len()'), S('vx_si'))], decreases='vx_subs.len() - vx_si')},
               proofs=[dict(at='body_start', text='proof { axiom_tables(); lemma_single_bit(target_version); lemma_and_mask(0, 0, target_version as u32); assert forall|a: u32, b: u32| #[trigger] (a & b) == b & a by { assert(a & b == b & a) by(bit_vector); } assert forall|x: u32, w: u32| #[trigger] ((x & !w) & w) == 0 by { assert((x & !w) & w == 0) by(bit_vector); } }'),
                       dict(after=r'let version_mask = vx_unnamed_mask\(elemtype_new\);', text='proof { assert(ver_bits(target_version) == target_version as u32); assert(version_mask & ver_bits(target_version) == 0); }'),
                       dict(after=r'vx_attributes \+= 1;', indent=True, text='''let ghost n0 = compat_errors@.len();
proof { assert(*attribute == attrs_of_elem(*self)[vx_attributes - 1]); }'''),
                       dict(after=r'\}\) = elemtype_new\.find_attribute_spec\(attribute\.attrname\)\s*\n\s*\{', indent=True, text='''let ghost k0: int = choose|k: int| attr_at(elemtype_new.typ as int, k, attribute.attrname) && version_mask == t_ver(t_dt(elemtype_new.typ as int).attributes_ver + k) && *value_spec == t_cd(attrs_of(elemtype_new.typ as int)[k].1 as int);
proof {
    let tn = elemtype_new.typ as int;
    assert(attr_at(tn, k0, attribute.attrname) && version_mask == t_ver(t_dt(tn).attributes_ver + k0) && *value_spec == t_cd(attrs_of(tn)[k0].1 as int));
    assert forall|k: int| attr_at(tn, k, attribute.attrname) implies k == k0 by {
        if k < k0 { assert(attrs_of(tn)[k].0 != attribute.attrname); } else if k0 < k { assert(attrs_of(tn)[k0].0 != attribute.attrname); }
    }
}'''),
                       dict(after=r'compat_errors\.push\(vx_compat_error\(\)\);', nth=1, text='''proof {
    let tn = elemtype_new.typ as int; let v = target_version as u32;
    assert(version_mask & v == v & version_mask) by(bit_vector);
    if attr_compat(*attribute, tn, v) {
        let k = choose|k: int| attr_at(tn, k, attribute.attrname) && v & t_ver(t_dt(tn).attributes_ver + k) != 0 && valid(attribute.content, t_cd(attrs_of(tn)[k].1 as int), v);
        assert(k == k0);
        assert(false);
    }
}'''),
                       dict(after=r'overall_version_mask &= value_version_mask;', nth=0, text='''proof {
    let tn = elemtype_new.typ as int; let v = target_version as u32;
    assert(version_mask & v == v & version_mask) by(bit_vector);
    if attr_compat(*attribute, tn, v) {
        let k = choose|k: int| attr_at(tn, k, attribute.attrname) && v & t_ver(t_dt(tn).attributes_ver + k) != 0 && valid(attribute.content, t_cd(attrs_of(tn)[k].1 as int), v);
        assert(k == k0);
        assert(is_compatible);
    }
    assert(attr_kind_ok(*attribute, tn));
    assert(value_kind_ok(attribute.content, *value_spec));
    if is_compatible { assert(attr_at(tn, k0, attribute.attrname) && v & t_ver(t_dt(tn).attributes_ver + k0) != 0 && valid(attribute.content, t_cd(attrs_of(tn)[k0].1 as int), v)); }
    assert((compat_errors@.len() == n0) <==> attr_compat(*attribute, tn, v));
}'''),
                       dict(after=r'compat_errors\.push\(vx_compat_error\(\)\);', nth=3, text='proof { assert(!attr_compat(*attribute, elemtype_new.typ as int, target_version as u32)); }'),
                       dict(after=r'compat_errors\.push\(vx_compat_error\(\)\);', nth=5, text='''proof {
    let v = target_version as u32;
    assert(version_mask & v == v & version_mask) by(bit_vector);
    assert(resolve_any(type_of(*self).typ as int, indices@) matches Some((_, vm)) && vm == version_mask);
    assert(!child_compat(*self, sub_element, *file, v));
}'''),
                       dict(after=r'overall_version_mask &= sub_element_mask;', text='''proof {
    let v = target_version as u32;
    assert(version_mask & v == v & version_mask) by(bit_vector);
    assert(resolve_any(type_of(*self).typ as int, indices@) matches Some((_, vm)) && vm == version_mask);
    assert(child_compat(*self, sub_element, *file, v) <==> tree_compat(sub_element, *file, v));
    assert((compat_errors@.len() == n2) <==> child_compat(*self, sub_element, *file, v));
}'''),
                       dict(at='loop_end', loop=0, text='''proof {
    let tn = elemtype_new.typ as int; let v = target_version as u32; let a = attrs_of_elem(*self)[vx_attributes - 1];
    assert forall|k1: int, k2: int| attr_at(tn, k1, a.attrname) && attr_at(tn, k2, a.attrname) implies k1 == k2 by {
        if k1 < k2 { assert(attrs_of(tn)[k1].0 != a.attrname); } else if k2 < k1 { assert(attrs_of(tn)[k2].0 != a.attrname); }
    }
    assert((compat_errors@.len() == n0) <==> attr_compat(a, tn, v));
}'''),
                       dict(after=r'vx_si \+= 1;', indent=True, text='''let ghost n2 = compat_errors@.len();
proof {
    axiom_height(*self, vx_si - 1);
    assert(sub_elems(*self)[vx_si - 1] == sub_element);
    assert(subtree_consistent_child(*self, vx_si - 1));
    assert(kinds_ok_child(*self, vx_si - 1, target_version as u32));
    assert(exists|i: int| 0 <= i < sub_elems(*self).len() && sub_elems(*self)[i] == sub_element);
}'''),
                       dict(before=r'^\s*let version_mask = self\.element_type\(\)\.get_sub_element_version_mask\(indices\.as_slice\(\)\)\.unwrap\(\);', text='''proof {
    let tn = elemtype_new; let cname = name_of(sub_element); let v = target_version as u32;
    let vv = if find_from(tn.typ as int, 0, cname, v) is Some { v } else { u32::MAX };
    assert(ver_bits(target_version) == v);
    assert(find_from(tn.typ as int, 0, cname, vv) matches Some((_, p)) && p == indices@);
    assert(child_idx(tn.typ as int, cname, v) == Some(indices@));
    match parent_of(*self) {
        Some(p) => { axiom_crosstype(type_of(p).typ as int, name_of(*self), type_of(*self), tn, cname, vv, indices@); }
        None => { lemma_resolve_any(tn.typ as int, indices@); }
    }
}'''),
                       dict(at='loop_end', loop=2, text='''proof {
    let v = target_version as u32;
    assert(exists|i: int| 0 <= i < sub_elems(*self).len() && sub_elems(*self)[i] == sub_element) by { assert(sub_elems(*self)[vx_si - 1] == sub_element); }
    assert((compat_errors@.len() == n2) <==> child_compat(*self, sub_element, *file, v));
}'''),
                       ]))
    F_A = 'autosar-data/src/arxmlfile.rs'
    IMPL_A = r'impl ArxmlFile'
    fns.append(FnSpec('check_version_compatibility', F_A, impl=IMPL_A, ret='r', label='ArxmlFile.check_version_compatibility',
               requires=['root_of_file(*self) matches Some(root) ==> subtree_consistent(root) && kinds_ok(root, %s)' % TV],
               ensures=['root_of_file(*self) matches Some(root) ==> (r.0@.len() == 0 <==> tree_compat(root, weak_of(*self), %s)) && (r.0@.len() == 0 <==> r.1 & (%s) != 0)' % (TV, TV),
                        'root_of_file(*self) is None ==> r.0@.len() == 0 && r.1 == 0']))
    fns.append(FnSpec('set_version', F_A, impl=IMPL_A, ret='r',
               body_sub=[(r'let mut file = self\.0\.write\(\);\s*file\.version = new_ver;', lambda m: 'self.vx_write_version(new_ver);', 'R45'),
                         (r'AutosarDataError::VersionIncompatibleData \{[^{}]*\}', lambda m: 'AutosarDataError::VxOther(0)', 'R45')],
               requires=['root_of_file(*self) matches Some(root) ==> subtree_consistent(root) && kinds_ok(root, new_ver as u32)'],
               ensures=['r is Ok ==> (root_of_file(*self) matches Some(root) ==> tree_compat(root, weak_of(*self), new_ver as u32))',
                        'r is Err ==> (root_of_file(*self) matches Some(root) && !tree_compat(root, weak_of(*self), new_ver as u32))']))
    u = Unit(name='compatwalk', prop='C17', spec=spec, fns=fns,
             wrap={IMPL_E: 'impl Element', r'impl ArxmlFile': 'impl ArxmlFile', lookups.IMPL_ET: 'impl ElementType', lookups.IMPL_AV: 'impl AutosarVersion'},
             dropped=['the element graph: an Element is an opaque handle with uninterpreted name / type / parent / attributes / content / sub-elements (the real accessors take the lock); the read guard is a value with the two lists; error payloads opaque (R45)',
                      'specification lookups are leaves with the contracts proved in unit lookups; CharacterData::check_version_compatibility is a leaf with a clause of the contract proved in unit chardata (`valid` uninterpreted)',
                      'ASSUMED: single-threaded reading (parent() succeeds), tree well-founded (C03), model consistency as a precondition (type_consistent), table fact crosstype (ground check)'])
    for name in LEAVES:
        u.leaves.append((lf[name], 'lookups'))
    return u
