"""C14 / unit `cmp`: the pure comparison links that `sort` is built on, for *all* values (every kind, strings and
names of every length):

    impl Ord for CharacterData :: cmp          (autosar-data/src/chardata.rs)
    impl Ord for Attribute :: cmp              (autosar-data/src/lib.rs)
    compare_item_names                         (autosar-data/src/element.rs)

"The result does not depend on the order the siblings had before" and "never fails" (sort_by may panic on an
inconsistent order) need every link to be a total preorder that is consistent with equality.  These are 2- and
3-safety statements, so they cannot be a postcondition of one call.  Construction:

  * each real function is emitted twice from the same rule-processed text: as the exec function and as its *spec
    twin* (`cmp_spec`, ...: identical match arms / let chain, exec helpers renamed to their spec counterparts);
    Verus proves `ensures r == twin(arguments)` on the exec text, i.e. the twin IS the function's input/output relation;
  * the property is then a lemma over the twin (lemma_cd_cmp_laws, lemma_attr_cmp_laws, lemma_name_cmp_laws):
    reflexive, antisymmetric (cmp(a,b) == reverse(cmp(b,a))), transitive (<= and ==), and for names: Equal only for
    equal names.  A change that keeps the function a consistent order (e.g. another ranking of the kinds) keeps the
    lemmas true; a change that makes two arms disagree fails the lemma -> VIOLATION (counterexamples come from the
    Kani harnesses cmp_laws_* / the native enumerations, which share the law definitions).

Leaves (assumed, listed in the evidence): String/str comparison of std is a total order with Equal <=> same text
(axiom_str_ord); EnumItem / AttributeName comparison by to_str() text is a total order (to_str injective: C18);
the Float x Float arm is a total preorder (axiom_f64_ord) -- that one is *discharged* on the real arm by the complete
Kani harness cmp_laws_FFF (all f64 bit patterns); decompose_item_name is a function of the name's text.

Rules: R19 the four same-kind arms of CharacterData::cmp -> vx_cmp_{enum,string,u64,f64}; R24 `A.then(B)` /
`A.then_with(|| B)` on Ordering with B pure -> vx_then(A, B) (eager); `X.to_str().cmp(Y.to_str())` -> vx_cmp_*;
trait-impl methods are emitted as inherent methods.
"""
import os
import re

from vxlib.verusunit import Unit, FnSpec
from vxlib.rustsrc import Source, Lost

F_CD = 'autosar-data/src/chardata.rs'
F_LIB = 'autosar-data/src/lib.rs'
F_EL = 'autosar-data/src/element.rs'
IMPL_CD = r'impl Ord for CharacterData'
IMPL_AT = r'impl Ord for Attribute'

SPEC = r'''
use core::cmp::Ordering;

#[derive(Clone, Copy, PartialEq, Eq, Structural)]
pub struct EnumItem { pub id: u16 }
#[derive(Clone, Copy, PartialEq, Eq, Structural)]
pub struct AttributeName { pub id: u16 }
pub enum CharacterData { Enum(EnumItem), String(String), UnsignedInteger(u64), Float(f64) }
pub struct Attribute { pub attrname: AttributeName, pub content: CharacterData }

pub open spec fn rev(o: Ordering) -> Ordering { match o { Ordering::Less => Ordering::Greater, Ordering::Equal => Ordering::Equal, Ordering::Greater => Ordering::Less } }
pub open spec fn then(a: Ordering, b: Ordering) -> Ordering { if a == Ordering::Equal { b } else { a } }

// ---- leaves
pub uninterp spec fn str_ord(a: Seq<char>, b: Seq<char>) -> Ordering;      // std: str::cmp / String::cmp
pub uninterp spec fn enum_ord(a: EnumItem, b: EnumItem) -> Ordering;        // a.to_str().cmp(b.to_str())
pub uninterp spec fn attrname_ord(a: AttributeName, b: AttributeName) -> Ordering;
pub uninterp spec fn f64_ord(a: f64, b: f64) -> Ordering;                   // the Float x Float arm
pub uninterp spec fn decomp(a: Seq<char>) -> Option<(Seq<char>, u64)>;      // decompose_item_name
pub open spec fn u64_ord(a: u64, b: u64) -> Ordering { if a < b { Ordering::Less } else if a == b { Ordering::Equal } else { Ordering::Greater } }
pub open spec fn opt_ord(a: Option<u64>, b: Option<u64>) -> Ordering {
    match (a, b) { (None, None) => Ordering::Equal, (None, Some(_)) => Ordering::Less, (Some(_), None) => Ordering::Greater, (Some(x), Some(y)) => u64_ord(x, y) }
}
pub open spec fn string_ord(a: String, b: String) -> Ordering { str_ord(a@, b@) }

// the laws, pointwise on a triple
pub open spec fn laws3(ab: Ordering, ba: Ordering, bc: Ordering, ac: Ordering, aa: Ordering) -> bool {
    &&& aa == Ordering::Equal
    &&& ab == rev(ba)
    &&& (ab != Ordering::Greater && bc != Ordering::Greater ==> ac != Ordering::Greater)
    &&& (ab == Ordering::Equal && bc == Ordering::Equal ==> ac == Ordering::Equal)
}

#[verifier::external_body]
pub proof fn axiom_str_ord(a: Seq<char>, b: Seq<char>, c: Seq<char>)
    ensures laws3(str_ord(a, b), str_ord(b, a), str_ord(b, c), str_ord(a, c), str_ord(a, a)), (str_ord(a, b) == Ordering::Equal) == (a == b) {}
#[verifier::external_body]
pub proof fn axiom_enum_ord(a: EnumItem, b: EnumItem, c: EnumItem)
    ensures laws3(enum_ord(a, b), enum_ord(b, a), enum_ord(b, c), enum_ord(a, c), enum_ord(a, a)) {}
#[verifier::external_body]
pub proof fn axiom_attrname_ord(a: AttributeName, b: AttributeName, c: AttributeName)
    ensures laws3(attrname_ord(a, b), attrname_ord(b, a), attrname_ord(b, c), attrname_ord(a, c), attrname_ord(a, a)) {}
// discharged on the real Float x Float arm by the Kani harness cmp_laws_FFF (all bit patterns)
#[verifier::external_body]
pub proof fn axiom_f64_ord(a: f64, b: f64, c: f64)
    ensures laws3(f64_ord(a, b), f64_ord(b, a), f64_ord(b, c), f64_ord(a, c), f64_ord(a, a)) {}

// ---- exec helpers the rules map the leaves to
#[verifier::external_body]
pub fn vx_cmp_string(a: &String, b: &String) -> (r: Ordering) ensures r == string_ord(*a, *b) { a.cmp(b) }
#[verifier::external_body]
pub fn vx_cmp_str(a: &str, b: &str) -> (r: Ordering) ensures r == str_ord(a@, b@) { a.cmp(b) }
#[verifier::external_body]
pub fn vx_cmp_enum(a: &EnumItem, b: &EnumItem) -> (r: Ordering) ensures r == enum_ord(*a, *b) { unimplemented!() }
#[verifier::external_body]
pub fn vx_cmp_attrname(a: &AttributeName, b: &AttributeName) -> (r: Ordering) ensures r == attrname_ord(*a, *b) { unimplemented!() }
#[verifier::external_body]
pub fn vx_cmp_f64(a: &f64, b: &f64) -> (r: Ordering) ensures r == f64_ord(*a, *b) { unimplemented!() }
pub fn vx_cmp_u64(a: &u64, b: &u64) -> (r: Ordering) ensures r == u64_ord(*a, *b) {
    if *a < *b { Ordering::Less } else if *a == *b { Ordering::Equal } else { Ordering::Greater }
}
pub fn vx_cmp_opt_u64(a: &Option<u64>, b: &Option<u64>) -> (r: Ordering) ensures r == opt_ord(*a, *b) {
    match (a, b) {
        (None, None) => Ordering::Equal, (None, Some(_)) => Ordering::Less, (Some(_), None) => Ordering::Greater,
        (Some(x), Some(y)) => if *x < *y { Ordering::Less } else if *x == *y { Ordering::Equal } else { Ordering::Greater },
    }
}
pub fn vx_then(a: Ordering, b: Ordering) -> (r: Ordering) ensures r == then(a, b) { match a { Ordering::Equal => b, _ => a } }
#[verifier::external_body]
fn decompose_item_name(name: &str) -> (r: Option<(String, u64)>)
    ensures (match r { Some((s, i)) => Some((s@, i)), None => None }) == decomp(name@)
{ unimplemented!() }
pub open spec fn decomp_s(n: Seq<char>) -> Option<(Seq<char>, u64)> { decomp(n) }
'''

LEMMAS = r'''
// ---- the property, over the spec twins of the real functions
pub proof fn lemma_cd_cmp_laws(a: CharacterData, b: CharacterData, c: CharacterData)
    ensures laws3(a.cmp_spec(b), b.cmp_spec(a), b.cmp_spec(c), a.cmp_spec(c), a.cmp_spec(a))
{
    match (a, b, c) {
        (CharacterData::String(x), CharacterData::String(y), CharacterData::String(z)) => { axiom_str_ord(x@, y@, z@); }
        (CharacterData::Enum(x), CharacterData::Enum(y), CharacterData::Enum(z)) => { axiom_enum_ord(x, y, z); }
        (CharacterData::Float(x), CharacterData::Float(y), CharacterData::Float(z)) => { axiom_f64_ord(x, y, z); }
        _ => {}
    }
    match (a, b) {
        (CharacterData::String(x), CharacterData::String(y)) => { axiom_str_ord(x@, y@, y@); axiom_str_ord(x@, x@, x@); }
        (CharacterData::Enum(x), CharacterData::Enum(y)) => { axiom_enum_ord(x, y, y); axiom_enum_ord(x, x, x); }
        (CharacterData::Float(x), CharacterData::Float(y)) => { axiom_f64_ord(x, y, y); axiom_f64_ord(x, x, x); }
        _ => {}
    }
    match a {
        CharacterData::String(x) => { axiom_str_ord(x@, x@, x@); }
        CharacterData::Enum(x) => { axiom_enum_ord(x, x, x); }
        CharacterData::Float(x) => { axiom_f64_ord(x, x, x); }
        _ => {}
    }
}

pub proof fn lemma_attr_cmp_laws(a: Attribute, b: Attribute, c: Attribute)
    ensures laws3(a.cmp_spec(b), b.cmp_spec(a), b.cmp_spec(c), a.cmp_spec(c), a.cmp_spec(a))
{
    axiom_attrname_ord(a.attrname, b.attrname, c.attrname); lemma_cd_cmp_laws(a.content, b.content, c.content);
    axiom_attrname_ord(a.attrname, c.attrname, b.attrname); lemma_cd_cmp_laws(a.content, c.content, b.content);
    axiom_attrname_ord(b.attrname, a.attrname, c.attrname); lemma_cd_cmp_laws(b.content, a.content, c.content);
    axiom_attrname_ord(b.attrname, c.attrname, a.attrname); lemma_cd_cmp_laws(b.content, c.content, a.content);
    axiom_attrname_ord(c.attrname, a.attrname, b.attrname); lemma_cd_cmp_laws(c.content, a.content, b.content);
    axiom_attrname_ord(c.attrname, b.attrname, a.attrname); lemma_cd_cmp_laws(c.content, b.content, a.content);
}

pub proof fn lemma_name_cmp_laws(a: Seq<char>, b: Seq<char>, c: Seq<char>)
    ensures
        laws3(compare_item_names_spec(a, b), compare_item_names_spec(b, a), compare_item_names_spec(b, c), compare_item_names_spec(a, c), compare_item_names_spec(a, a)),
        (compare_item_names_spec(a, b) == Ordering::Equal) == (a == b),
{
    let ka = match decomp(a) { Some((s, i)) => s, None => a };
    let kb = match decomp(b) { Some((s, i)) => s, None => b };
    let kc = match decomp(c) { Some((s, i)) => s, None => c };
    axiom_str_ord(ka, kb, kc); axiom_str_ord(a, b, c);
    axiom_str_ord(ka, kc, kb); axiom_str_ord(a, c, b);
    axiom_str_ord(kb, ka, kc); axiom_str_ord(b, a, c);
    axiom_str_ord(kb, kc, ka); axiom_str_ord(b, c, a);
    axiom_str_ord(kc, ka, kb); axiom_str_ord(c, a, b);
    axiom_str_ord(kc, kb, ka); axiom_str_ord(c, b, a);
}
'''

# R19: the same-kind arms of CharacterData::cmp (arm-specific, because `a.cmp(b)` is spelled the same for String and u64)
R19 = [
    (r'\(CharacterData::Enum\(a\), CharacterData::Enum\(b\)\) => a\.to_str\(\)\.cmp\(b\.to_str\(\)\),', lambda m: '(CharacterData::Enum(a), CharacterData::Enum(b)) => vx_cmp_enum(a, b),', 'R19'),
    (r'\(CharacterData::String\(a\), CharacterData::String\(b\)\) => a\.cmp\(b\),', lambda m: '(CharacterData::String(a), CharacterData::String(b)) => vx_cmp_string(a, b),', 'R19'),
    (r'\(CharacterData::UnsignedInteger\(a\), CharacterData::UnsignedInteger\(b\)\) => a\.cmp\(b\),', lambda m: '(CharacterData::UnsignedInteger(a), CharacterData::UnsignedInteger(b)) => vx_cmp_u64(a, b),', 'R19'),
    (r'a\.partial_cmp\(b\)\.unwrap_or_else\(\|\| a\.is_nan\(\)\.cmp\(&b\.is_nan\(\)\)\)', lambda m: 'vx_cmp_f64(a, b)', 'R19'),
]
R24_ATTR = [
    (r'self\.attrname\s*\.to_str\(\)\s*\.cmp\(other\.attrname\.to_str\(\)\)\s*\.then\(self\.content\.cmp\(&other\.content\)\)',
     lambda m: 'vx_then(vx_cmp_attrname(&self.attrname, &other.attrname), self.content.cmp(&other.content))', 'R24'),
]
R24_NAME = [
    (r'base1\s*\.cmp\(&base2\)\s*\.then\(idx1\.cmp\(&idx2\)\)\s*\.then_with\(\|\| name1\.cmp\(name2\)\)',
     lambda m: 'vx_then(vx_then(vx_cmp_string(&base1, &base2), vx_cmp_opt_u64(&idx1, &idx2)), vx_cmp_str(name1, name2))', 'R24'),
]

TWIN_COMMON = [(r'std::cmp::Ordering', 'Ordering'), (r'\bvx_then\(', 'then('), (r'\bvx_cmp_enum\(', 'enum_ord('), (r'\bvx_cmp_string\(', 'string_ord('),
               (r'\bvx_cmp_u64\(', 'u64_ord('), (r'\bvx_cmp_f64\(', 'f64_ord('), (r'\bvx_cmp_attrname\(', 'attrname_ord('), (r'\bvx_cmp_opt_u64\(', 'opt_ord('),
               (r'\bvx_cmp_str\(', 'str_ord(')]


def check_decls(repo_dir):
    lib = Source(os.path.join(repo_dir, F_LIB))
    s, o, c = lib.find_block(r'pub enum CharacterData')
    body = re.sub(r'\s+', ' ', re.sub(r'^\s*///.*\n', '', lib.text[o + 1:c], flags=re.M)).strip()
    if body != 'Enum(EnumItem), String(String), UnsignedInteger(u64), Float(f64),':
        raise Lost('enum CharacterData changed: %r' % body)
    s, o, c = lib.find_block(r'pub struct Attribute\b')
    body = re.sub(r'\s+', ' ', re.sub(r'^\s*///.*\n', '', lib.text[o + 1:c], flags=re.M)).strip()
    if body != 'pub attrname: AttributeName, pub content: CharacterData,':
        raise Lost('struct Attribute changed: %r' % body)


def make_unit(repo_dir):
    check_decls(repo_dir)
    fns = [
        FnSpec('cmp', F_CD, impl=IMPL_CD, ret='r', label='CharacterData.cmp', body_sub=R19,
               ensures=['r == self.cmp_spec(*other)'],
               twin=dict(sig='pub open spec fn cmp_spec(self, other: Self) -> Ordering', subs=TWIN_COMMON)),
        FnSpec('cmp', F_LIB, impl=IMPL_AT, ret='r', label='Attribute.cmp', body_sub=R24_ATTR,
               ensures=['r == self.cmp_spec(*other)'],
               twin=dict(sig='pub open spec fn cmp_spec(self, other: Self) -> Ordering',
                         subs=TWIN_COMMON + [(r'&self\.attrname, &other\.attrname', 'self.attrname, other.attrname'), (r'self\.content\.cmp\(&other\.content\)', 'self.content.cmp_spec(other.content)')])),
        FnSpec('compare_item_names', F_EL, ret='r', body_sub=R24_NAME,
               ensures=['r == compare_item_names_spec(name1@, name2@)'],
               twin=dict(sig='pub open spec fn compare_item_names_spec(name1: Seq<char>, name2: Seq<char>) -> Ordering',
                         subs=TWIN_COMMON + [(r'\bdecompose_item_name\(', 'decomp_s('), (r'\.to_owned\(\)', ''), (r'&base1, &base2', 'base1, base2'), (r'&idx1, &idx2', 'idx1, idx2'),
                                             (r'string_ord\(base1, base2\)', 'str_ord(base1, base2)')])),
    ]
    u = Unit(name='cmp', prop='C14', spec=SPEC + LEMMAS, fns=fns, wrap={IMPL_CD: 'impl CharacterData', IMPL_AT: 'impl Attribute'},
             dropped=['`impl Ord for T { fn cmp }` is emitted as an inherent method of T (and once more as its spec twin); doc comments',
                      'EnumItem / AttributeName are opaque stand-ins; the four same-kind comparisons are leaves (rules R19): String/str/enum-text orders are std (assumed total orders), the Float arm is discharged by Kani cmp_laws_FFF'])
    u.property_lemmas = {
        'lemma_cd_cmp_laws': 'CharacterData::cmp (its spec twin) is reflexive, antisymmetric and transitive for all values of all kinds',
        'lemma_attr_cmp_laws': 'Attribute::cmp (its spec twin) is reflexive, antisymmetric and transitive',
        'lemma_name_cmp_laws': 'compare_item_names (its spec twin) is reflexive, antisymmetric, transitive, and Equal exactly for equal names',
    }
    return u
