// ---- proof library of unit `escape` (verified prototype; see contracts/escape.py)
pub enum VxCow<'a> { Borrowed(&'a str), Owned(String) }
impl<'a> VxCow<'a> {
    pub open spec fn view(&self) -> Seq<char> { match self { VxCow::Borrowed(s) => s@, VxCow::Owned(s) => s@ } }
}
pub struct AutosarDataError { pub opaque: u8 }
pub struct ArxmlParser { pub strict: bool, pub nwarn: usize }
impl ArxmlParser {
    // the funnel (contract proved in unit lexer): strict => Err, lenient => Ok and one more warning
    #[verifier::external_body]
    pub fn vx_invalid_entity(&mut self, input: &str) -> (r: Result<(), AutosarDataError>)
        ensures final(self).strict == old(self).strict, old(self).strict ==> r is Err && final(self).nwarn == old(self).nwarn,
                !old(self).strict ==> r is Ok && final(self).nwarn == old(self).nwarn + 1
    { unimplemented!() }
}

pub uninterp spec fn u32_of(s: Seq<char>, radix: u32) -> Option<u32>;   // u32::from_str_radix / u32::from_str
pub uninterp spec fn char_of(v: u32) -> Option<char>;                    // char::from_u32

pub open spec fn first_amp(s: Seq<char>, c: char, from: int) -> int
    decreases s.len() - from
{ if from >= s.len() { s.len() as int } else if s[from] == c { from } else { first_amp(s, c, from + 1) } }
pub proof fn lemma_first(s: Seq<char>, c: char, from: int)
    requires 0 <= from <= s.len()
    ensures from <= first_amp(s, c, from) <= s.len(), forall|k: int| from <= k < first_amp(s, c, from) ==> #[trigger] s[k] != c,
            first_amp(s, c, from) < s.len() ==> s[first_amp(s, c, from)] == c
    decreases s.len() - from
{ if from < s.len() && s[from] != c { lemma_first(s, c, from + 1); } }

pub open spec fn starts(s: Seq<char>, lit: Seq<char>) -> bool { s.len() >= lit.len() && s.subrange(0, lit.len() as int) =~= lit }
pub open spec fn tail(s: Seq<char>, n: int) -> Seq<char> { s.subrange(n, s.len() as int) }

// one entity at the start of s (s[0] == '&'): the decoded char and the number of chars consumed, or None if malformed
pub open spec fn entity(s: Seq<char>) -> Option<(char, int)> {
    if starts(s, seq!['&', 'l', 't', ';']) { Some(('<', 4int)) }
    else if starts(s, seq!['&', 'g', 't', ';']) { Some(('>', 4int)) }
    else if starts(s, seq!['&', 'a', 'm', 'p', ';']) { Some(('&', 5int)) }
    else if starts(s, seq!['&', 'a', 'p', 'o', 's', ';']) { Some(('\'', 6int)) }
    else if starts(s, seq!['&', 'q', 'u', 'o', 't', ';']) { Some(('"', 6int)) }
    else if starts(s, seq!['&', '#', 'x']) {
        let e = first_amp(s, ';', 0);
        if e < s.len() { match u32_of(s.subrange(3, e), 16) { Some(v) => match char_of(v) { Some(ch) => Some((ch, e + 1)), None => None }, None => None } } else { None }
    }
    else if starts(s, seq!['&', '#']) {
        let e = first_amp(s, ';', 0);
        if e < s.len() { match u32_of(s.subrange(2, e), 10) { Some(v) => match char_of(v) { Some(ch) => Some((ch, e + 1)), None => None }, None => None } } else { None }
    }
    else { None }
}
// the decoded text, or None if some '&' does not start a well-formed entity
pub open spec fn unesc(s: Seq<char>) -> Option<Seq<char>>
    decreases s.len()
{
    let p = first_amp(s, '&', 0);
    if !(0 <= p && p < s.len()) { Some(s) }
    else {
        match entity(tail(s, p)) {
            Some((ch, n)) => if 1 <= n <= s.len() - p { match unesc(tail(s, p + n)) { Some(u) => Some(s.subrange(0, p).push(ch) + u), None => None } } else { None },
            None => None,
        }
    }
}

// ---- leaves: the str API, read over the char view (index constants in the code only ever skip ASCII prefixes)
#[verifier::external_body]
pub fn vx_contains_char(s: &str, c: char) -> (r: bool) ensures r == (first_amp(s@, c, 0) < s@.len()) { unimplemented!() }
#[verifier::external_body]
pub fn vx_find(s: &str, c: char) -> (r: Option<usize>)
    ensures match r { Some(p) => p == first_amp(s@, c, 0) && p < s@.len() && p < usize::MAX, None => first_amp(s@, c, 0) >= s@.len() }
{ unimplemented!() }
#[verifier::external_body]
pub fn vx_slice<'a>(s: &'a str, a: usize, b: usize) -> (r: &'a str) requires a <= b <= s@.len() ensures r@ == s@.subrange(a as int, b as int) { unimplemented!() }
#[verifier::external_body]
pub fn vx_from<'a>(s: &'a str, a: usize) -> (r: &'a str) requires a <= s@.len() ensures r@ == s@.subrange(a as int, s@.len() as int) { unimplemented!() }
#[verifier::external_body]
pub fn vx_to<'a>(s: &'a str, b: usize) -> (r: &'a str) requires b <= s@.len() ensures r@ == s@.subrange(0, b as int) { unimplemented!() }
#[verifier::external_body]
pub fn vx_str_starts_with(s: &str, lit: &str, chars: &[char]) -> (r: bool) ensures r == starts(s@, chars@) { unimplemented!() }
#[verifier::external_body]
pub fn vx_string_new() -> (r: String) ensures r@ == Seq::<char>::empty() { String::new() }
#[verifier::external_body]
pub fn vx_push_str(t: &mut String, s: &str) ensures final(t)@ == old(t)@ + s@ { t.push_str(s) }
#[verifier::external_body]
pub fn vx_push(t: &mut String, c: char) ensures final(t)@ == old(t)@.push(c) { t.push(c) }
#[verifier::external_body]
pub fn vx_u32_radix(s: &str, radix: u32) -> (r: Result<u32, ()>) ensures (match r { Ok(v) => Some(v), Err(_) => None }) == u32_of(s@, radix) { unimplemented!() }
#[verifier::external_body]
pub fn vx_char_from_u32(v: u32) -> (r: Option<char>) ensures r == char_of(v) { char::from_u32(v) }

pub open spec fn esc_char(c: char) -> Seq<char> {
    if c == '<' { seq!['&', 'l', 't', ';'] } else if c == '>' { seq!['&', 'g', 't', ';'] } else if c == '&' { seq!['&', 'a', 'm', 'p', ';'] }
    else if c == '"' { seq!['&', 'q', 'u', 'o', 't', ';'] } else if c == '\'' { seq!['&', 'a', 'p', 'o', 's', ';'] } else { seq![c] }
}
pub open spec fn is_special(c: char) -> bool { c == '<' || c == '>' || c == '&' || c == '"' || c == '\'' }
pub open spec fn esc(s: Seq<char>) -> Seq<char>
    decreases s.len()
{ if s.len() == 0 { Seq::empty() } else { esc(s.drop_last()) + esc_char(s.last()) } }

pub proof fn lemma_esc_plain(s: Seq<char>)
    requires forall|i: int| 0 <= i < s.len() ==> !is_special(#[trigger] s[i])
    ensures esc(s) == s
    decreases s.len()
{
    if s.len() > 0 {
        lemma_esc_plain(s.drop_last());
        assert(s.drop_last() + seq![s.last()] =~= s);
    }
}


pub proof fn lemma_esc_cons(c: char, s: Seq<char>)
    ensures esc(seq![c] + s) == esc_char(c) + esc(s)
    decreases s.len()
{
    let t = seq![c] + s;
    if s.len() == 0 {
        assert(t =~= seq![c]);
        assert(t.drop_last() =~= Seq::<char>::empty());
        assert(esc(Seq::<char>::empty()) =~= Seq::<char>::empty());
        assert(t.last() == c);
        assert(esc(t) =~= esc_char(c));
        assert(esc_char(c) + esc(s) =~= esc_char(c));
    } else {
        lemma_esc_cons(c, s.drop_last());
        assert(t.drop_last() =~= seq![c] + s.drop_last());
        assert(t.last() == s.last());
        assert((esc_char(c) + esc(s.drop_last())) + esc_char(s.last()) =~= esc_char(c) + (esc(s.drop_last()) + esc_char(s.last())));
    }
}

// a character that is not '&' in front of a text does not disturb decoding
pub proof fn lemma_unesc_shift(c: char, r: Seq<char>)
    requires c != '&'
    ensures unesc(seq![c] + r) == (match unesc(r) { Some(u) => Some(seq![c] + u), None => None })
{
    let t = seq![c] + r;
    lemma_first(r, '&', 0);
    lemma_first(t, '&', 0);
    let pr = first_amp(r, '&', 0);
    let pt = first_amp(t, '&', 0);
    // pt == pr + 1
    assert(first_amp(t, '&', 0) == first_amp(t, '&', 1));
    lemma_first_shift(c, r, 0);
    assert(pt == pr + 1);
    if pr >= r.len() {
        assert(unesc(r) == Some(r));
    } else {
        assert(tail(t, pt) =~= tail(r, pr));
        assert(t.subrange(0, pt) =~= seq![c] + r.subrange(0, pr));
        match entity(tail(r, pr)) {
            Some((ch, n)) => {
                if 1 <= n <= r.len() - pr {
                    assert(tail(t, pt + n) =~= tail(r, pr + n));
                    match unesc(tail(r, pr + n)) {
                        Some(u) => { assert(t.subrange(0, pt).push(ch) + u =~= seq![c] + (r.subrange(0, pr).push(ch) + u)); }
                        None => {}
                    }
                }
            }
            None => {}
        }
    }
}
pub proof fn lemma_first_shift(c: char, r: Seq<char>, from: int)
    requires 0 <= from <= r.len()
    ensures first_amp(seq![c] + r, '&', from + 1) == first_amp(r, '&', from) + 1
    decreases r.len() - from
{
    let t = seq![c] + r;
    if from < r.len() {
        assert(t[from + 1] == r[from]);
        if r[from] != '&' { lemma_first_shift(c, r, from + 1); }
    }
}

// an entity produced by esc_char in front of a text decodes to its character
pub proof fn lemma_unesc_entity(c: char, r: Seq<char>)
    requires is_special(c)
    ensures unesc(esc_char(c) + r) == (match unesc(r) { Some(u) => Some(seq![c] + u), None => None })
{
    let e = esc_char(c);
    let t = e + r;
    assert(t[0] == '&');
    assert(first_amp(t, '&', 0) == 0);
    assert(tail(t, 0) =~= t);
    assert(t.subrange(0, e.len() as int) =~= e);
    assert(t[1] == e[1] && t[2] == e[2] && t[3] == e[3]);
    if e.len() > 4 { assert(t[4] == e[4]); }
    // which alternative of entity() fires: compare the literal prefixes position by position
    assert(starts(t, seq!['&', 'l', 't', ';']) == (c == '<')) by { if c != '<' { assert(t.subrange(0, 4)[1] == t[1]); } }
    assert(starts(t, seq!['&', 'g', 't', ';']) == (c == '>')) by { if c != '>' { assert(t.subrange(0, 4)[1] == t[1]); } }
    assert(starts(t, seq!['&', 'a', 'm', 'p', ';']) == (c == '&')) by { if c != '&' && t.len() >= 5 { assert(t.subrange(0, 5)[1] == t[1]); assert(t.subrange(0, 5)[2] == t[2]); } }
    assert(starts(t, seq!['&', 'a', 'p', 'o', 's', ';']) == (c == '\'')) by { if c != '\'' && t.len() >= 6 { assert(t.subrange(0, 6)[1] == t[1]); assert(t.subrange(0, 6)[2] == t[2]); } }
    assert(starts(t, seq!['&', 'q', 'u', 'o', 't', ';']) == (c == '"')) by { if c != '"' && t.len() >= 6 { assert(t.subrange(0, 6)[1] == t[1]); } }
    assert(entity(t) == Some((c, e.len() as int)));
    assert(tail(t, e.len() as int) =~= r);
    assert(t.subrange(0, 0) =~= Seq::<char>::empty());
    match unesc(r) { Some(u) => { assert(Seq::<char>::empty().push(c) + u =~= seq![c] + u); } None => {} }
}

// C01, the pure core: decoding what escape_text wrote gives the text back
pub proof fn lemma_unesc_esc(s: Seq<char>)
    ensures unesc(esc(s)) == Some(s)
    decreases s.len()
{
    if s.len() == 0 {
        assert(esc(s) =~= Seq::<char>::empty());
        assert(first_amp(esc(s), '&', 0) >= esc(s).len());
    } else {
        let c = s[0];
        let r = s.subrange(1, s.len() as int);
        assert(s =~= seq![c] + r);
        lemma_esc_cons(c, r);
        lemma_unesc_esc(r);
        if is_special(c) { lemma_unesc_entity(c, esc(r)); } else { assert(esc_char(c) =~= seq![c]); lemma_unesc_shift(c, esc(r)); }
    }
}

#[verifier::external_body]
pub fn vx_contains_any(s: &str, set: &[char]) -> (r: bool) ensures r == exists|i: int, j: int| 0 <= i < s@.len() && 0 <= j < set@.len() && s@[i] == set@[j] { unimplemented!() }
#[verifier::external_body]
pub fn vx_chars(s: &str) -> (r: Vec<char>) ensures r@ == s@ { s.chars().collect() }
#[verifier::external_body]
pub fn vx_push_lit(t: &mut String, lit: &str, chars: &[char]) ensures final(t)@ == old(t)@ + chars@ { t.push_str(lit) }

