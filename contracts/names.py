"""C18 / units `names_<type>`: the perfect-hash lookups ElementName/AttributeName/EnumItem::from_bytes.

Postcondition (a) of DESIGN 4/C18, taken from the property ("converting any text that is not
exactly the text of an item fails"; "back yields the same item"):
    from_bytes(s) == Ok(item)  ==>  item.idx < N  and  table(item.idx) == s
and the function never panics -- for *every* byte string and for *any* hash triple (hashfunc
is an external callee with contract `true`) and *any* displacement table contents.  The proof
is therefore parametric in the table contents; what it pins down is the index arithmetic, the
final comparison and that the transmuted index is in range.

Rules R9 (unit-specific, mechanical):
  * the nested `static DISPLACEMENTS: [(u16, u16); D] = [...]` is dropped and
    `DISPLACEMENTS[E]` becomes `vx_disp(E)` with `requires E < D` (D read from the declaration);
  * `T::STRING_TABLE[i].as_bytes()` becomes `vx_entry(i)` with `requires i < N` (N read from the
    declaration of STRING_TABLE) and `ensures r@ == table(i)`; slice ==/!= then go through rule R14;
  * `Ok(unsafe { core::mem::transmute::<u16, Self>(i as u16) })` becomes `Ok(vx_from_idx(i as u16))`
    with `requires i < N`; the enum is represented by its discriminant.  Side condition checked
    mechanically: the enum is #[repr(u16)] and its discriminants are exactly 0..N-1.
"""
import os
import re

from vxlib.verusunit import Unit, FnSpec
from vxlib.rustsrc import Source, Lost

TYPES = {
    'element': ('autosar-data-specification/src/elementname.rs', 'ElementName', 'ParseElementNameError'),
    'attribute': ('autosar-data-specification/src/attributename.rs', 'AttributeName', 'ParseAttributeNameError'),
    'enumitem': ('autosar-data-specification/src/enumitem.rs', 'EnumItem', 'ParseEnumItemError'),
}


def table_facts(repo_dir, key):
    """Mechanical side conditions; returns dict(N, D, names)."""
    file, ty, err = TYPES[key]
    src = Source(os.path.join(repo_dir, file))
    t = src.text
    m = re.search(r"const STRING_TABLE: \[&'static str; (\d+)\] = \[", t)
    if not m:
        raise Lost('%s: STRING_TABLE declaration not found' % ty)
    n = int(m.group(1))
    m2 = re.search(r'static DISPLACEMENTS: \[\(u16, u16\); (\d+)\] = \[', t)
    if not m2:
        raise Lost('%s: DISPLACEMENTS declaration not found' % ty)
    d = int(m2.group(1))
    # enum discriminants
    s, o, c = src.find_block(r'pub enum %s\b' % ty)
    head = t[max(0, s - 400):s]
    if '#[repr(u16)]' not in head:
        raise Lost('%s: enum is not #[repr(u16)]' % ty)
    body = t[o + 1:c]
    discs = [int(x) for x in re.findall(r'^\s*\w+\s*=\s*(\d+),', body, re.M)]
    nvariants = len(re.findall(r'^\s*\w+\s*(=\s*\d+)?,', body, re.M))
    facts = dict(N=n, D=d, variants=nvariants, discriminants_ok=(sorted(discs) == list(range(n)) and nvariants == n))
    # number of string literals in the table
    st = src.find_static('STRING_TABLE')
    lits = re.findall(r'"((?:\\.|[^"\\])*)"', t[st['start']:st['end']])
    facts['table_entries'] = len(lits)
    facts['entries_distinct'] = len(set(lits)) == len(lits)
    facts['max_entry_len'] = max(len(x) for x in lits)
    return facts


def make_unit(key, facts):
    file, ty, err = TYPES[key]
    n, d = facts['N'], facts['D']
    spec = r'''
pub struct %(ty)s { pub idx: u16 }
pub struct %(err)s;

pub uninterp spec fn table(i: int) -> Seq<u8>;

#[verifier::external_body]
pub fn hashfunc(data: &[u8]) -> (r: (u32, u32, u32))
{ unimplemented!() }

#[verifier::external_body]
pub fn vx_disp(i: usize) -> (r: (u16, u16))
    requires i < %(d)d
{ unimplemented!() }

#[verifier::external_body]
pub fn vx_entry(i: usize) -> (r: &'static [u8])
    requires i < %(n)d
    ensures r@ == table(i as int)
{ unimplemented!() }

#[verifier::external_body]
pub fn vx_from_idx(i: u16) -> (r: %(ty)s)
    requires i < %(n)d
    ensures r.idx == i
{ unimplemented!() }
''' % dict(ty=ty, err=err, n=n, d=d)
    r9 = [
        (r'#\[rustfmt::skip\]\s*static DISPLACEMENTS: \[\(u16, u16\); \d+\] = \[[^;]*\];', lambda m: '// (R9) static DISPLACEMENTS dropped', 'R9'),
        (r'DISPLACEMENTS\[([^\]]*)\]', lambda m: 'vx_disp(%s)' % m.group(1), 'R9'),
        (r'(?:%s|Self)::STRING_TABLE\[([^\]]+)\]\.as_bytes\(\)' % ty, lambda m: 'vx_entry(%s)' % m.group(1), 'R9'),
        (r'(?:%s|Self)::STRING_TABLE\[([^\]]+)\]\.len\(\)' % ty, lambda m: 'vx_entry(%s).len()' % m.group(1), 'R9'),
        (r'(vx_entry\([^()]*\)) != (\w+)', lambda m: '!vx_eq(%s, %s)' % (m.group(1), m.group(2)), 'R14'),
        (r'(vx_entry\([^()]*\)) == (\w+)', lambda m: 'vx_eq(%s, %s)' % (m.group(1), m.group(2)), 'R14'),
        (r'Ok\(unsafe \{ core::mem::transmute::<u16, Self>\((\w+) as u16\) \}\)', lambda m: 'Ok(vx_from_idx(%s as u16))' % m.group(1), 'R9'),
    ]
    fn = FnSpec('from_bytes', file, impl=r'impl %s \{' % ty, ret='r', body_sub=r9,
                ensures=['r matches Ok(item) ==> item.idx < %d && table(item.idx as int) == input@' % n])
    u = Unit(name='names_' + key, prop='C18', spec=spec, fns=[fn], wrap={r'impl %s \{' % ty: 'impl %s' % ty},
             dropped=['the %d-variant enum %s is represented by its discriminant (struct { idx: u16 }); doc comments and attributes' % (n, ty),
                      'contents of DISPLACEMENTS and STRING_TABLE (the proof is parametric in them; the closed instances are evaluated natively)',
                      'hashfunc body (external, contract `true`: the postcondition holds for any hash)'])
    return u
