"""C18 / unit `lookups`: the specification lookups of autosar-data-specification/src/lib.rs, for *all* arguments.

The functions read seven static tables (ELEMENTS, SUBELEMENTS, ATTRIBUTES, VERSION_INFO, DATATYPES, CHARACTER_DATA,
REF_ITEMS).  In this unit the table *contents* are uninterpreted (t_el, t_sub, ...); what is known about them is the
well-formedness predicate wf_tables() (every stored index is inside the table it points into; group nesting is
well-founded).  wf_tables() is assumed here (axiom_tables) and is discharged on the real statics by the exhaustive
native evaluation `ground speclib tables_wf` (same predicate, written over the real tables) -- a finite, closed fact.
Everything else is proved by Verus for every element type, name, version mask and index list:

  find_sub_element_internal(t, name, v)
      Some((et, idx))  ==>  idx resolves, in the sub-element tree of t, to a listed element d with name(d) == name and
                            v & mask != 0, and et is exactly the type of d
      None             ==>  NO index list resolves to such an element            (so: listed ==> found)
  get_sub_element_spec / get_sub_element_version_mask(idx)  ==  the entry / version mask stored at idx
  find_attribute_spec(name)   Some(spec) ==> spec is the entry of the first listed attribute with that name (its
                              version mask and character-data spec); None ==> no listed attribute has that name
  SubelemDefinitionsIter::next / AttrDefinitionsIter::next  (the listings): every item they yield is an entry of the
                              tables at a position that resolve()/the attribute range contains (listing soundness)
  reference_dest_value(r, t) == Some(d) ==> d is in t's REF_ITEMS range (so verify_reference_dest accepts it) and d is an
                              item of r's DEST enumeration;  verify_reference_dest(d) == (d in the REF_ITEMS range)
and none of them indexes out of bounds, overflows or fails to terminate (recursion: decreases on the group rank).

Lemma lemma_listed_is_found states the property's sentence over these contracts.

Rules (besides the global ones): R16 `.is_empty()`; R18 `for (i, x) in S.iter().enumerate() {` -> index loop;
R20 `*X.last().unwrap()` -> `X[X.len() - 1]`; R21 `X.iter().enumerate().find(|(_, (name, ..))| *name == N)` ->
`vx_find_attr(X, N)` (verified helper: first position whose name matches); R22 `V.contains(&x)` on a slice ->
`vx_contains_item(V, x)` (verified helper); R23 `for a in S { for (b, _) in *T { if a == b { return Some(*a); } } }`
is kept verbatim -- Verus accepts for-loops over slices.
"""
import os
import re

from vxlib.verusunit import Unit, FnSpec
from vxlib.rustsrc import Source, Lost

F = 'autosar-data-specification/src/lib.rs'
S = 'autosar-data-specification/src/specification.rs'
IMPL_ET = r'impl ElementType'

TABLES = ['ELEMENTS', 'SUBELEMENTS', 'ATTRIBUTES', 'VERSION_INFO', 'DATATYPES', 'CHARACTER_DATA', 'REF_ITEMS']


def table_sizes(repo_dir):
    src = open(os.path.join(repo_dir, S), encoding='utf-8').read()
    out = {}
    for name in TABLES:
        m = re.search(r'^pub\(crate\) static %s: \[(.+?); (\d+)\] = \[' % name, src, re.M)
        if not m:
            raise Lost('static %s: declaration not understood' % name)
        out[name] = (m.group(1), int(m.group(2)))
    m = re.search(r'^pub\(crate\) static REFERENCE_TYPE_IDX: u16 = (\d+);', src, re.M)
    if not m:
        raise Lost('REFERENCE_TYPE_IDX not found')
    out['REFERENCE_TYPE_IDX'] = int(m.group(1))
    want = {'ELEMENTS': 'ElementDefinition', 'SUBELEMENTS': 'SubElement', 'ATTRIBUTES': '(AttributeName, u16, bool)', 'VERSION_INFO': 'u32',
            'DATATYPES': 'ElementSpec', 'CHARACTER_DATA': 'CharacterDataSpec', 'REF_ITEMS': 'EnumItem'}
    for k, ty in want.items():
        if out[k][0] != ty:
            raise Lost('static %s has element type %r, expected %r' % (k, out[k][0], ty))
    return out


def check_decls(repo_dir):
    """the re-declared structs have the real field lists"""
    src = Source(os.path.join(repo_dir, F))

    def body(hdr):
        s, o, c = src.find_block(hdr)
        t = re.sub(r'^\s*///.*\n|^\s*#\[cfg\(feature = "docstrings"\)\]\s*\n\s*docstring: Option<u16>,\s*\n', '', src.text[o + 1:c], flags=re.M)
        return re.sub(r'\s+', ' ', t).strip()
    want = {
        r'^enum SubElement': 'Element(u16), Group(u16),',
        r'^struct ElementDefinition': 'name: ElementName, elemtype: u16, multiplicity: ElementMultiplicity, ordered: bool, splittable: u32, restrict_std: StdRestrict,',
        r'^struct ElementSpec': 'sub_elements: (u16, u16), sub_element_ver: u16, attributes: (u16, u16), attributes_ver: u16, character_data: Option<u16>, mode: ContentMode, ref_info: (u16, u16),',
        r'^pub struct ElementType': 'def: u16, typ: u16,',
        r'^pub struct AttributeSpec': "pub spec: &'static CharacterDataSpec, pub required: bool, pub version: u32,",
        r'^pub struct AttrDefinitionsIter': 'type_id: u16, pos: usize,',
        r'^pub struct SubelemDefinitionsIter': 'type_id_stack: Vec<u16>, indices: Vec<usize>,',
    }
    for hdr, w in want.items():
        got = body(hdr)
        if got != w:
            raise Lost('declaration %s changed: %r' % (hdr, got))


TYPES = r'''
// ---- stand-ins for the name enums (opaque: the lookups only compare them) and small enums
#[derive(Clone, Copy, PartialEq, Eq, Structural)]
pub enum ElementName { ShortName, Autosar, VxOther(u16) }
#[derive(Clone, Copy, PartialEq, Eq, Structural)]
pub enum AttributeName { Dest, VxOther(u16) }
#[derive(Clone, Copy, PartialEq, Eq, Structural)]
pub struct EnumItem { pub id: u16 }
#[derive(Clone, Copy, PartialEq, Eq, Structural)]
pub enum ElementMultiplicity { ZeroOrOne, One, Any }
#[derive(Clone, Copy, PartialEq, Eq, Structural)]
pub enum StdRestrict { NotRestricted, ClassicPlatform, AdaptivePlatform }
#[derive(Clone, Copy, PartialEq, Eq, Structural)]
pub enum ContentMode { Sequence, Choice, Bag, Characters, Mixed }
// only the Enum variant is inspected by the lookups
#[derive(Clone, Copy)]
pub enum CharacterDataSpec { Enum { items: &'static [(EnumItem, u32)] }, VxOther(u8) }

pub struct AttributeSpec { pub spec: &'static CharacterDataSpec, pub required: bool, pub version: u32 }

#[derive(Clone, Copy)]
pub struct ElementType { pub def: u16, pub typ: u16 }

#[derive(Clone, Copy)]
pub enum SubElement { Element(u16), Group(u16) }

#[derive(Clone, Copy)]
pub struct ElementDefinition { pub name: ElementName, pub elemtype: u16, pub multiplicity: ElementMultiplicity, pub ordered: bool, pub splittable: u32, pub restrict_std: StdRestrict }

#[derive(Clone, Copy)]
pub struct ElementSpec { pub sub_elements: (u16, u16), pub sub_element_ver: u16, pub attributes: (u16, u16), pub attributes_ver: u16, pub character_data: Option<u16>, pub mode: ContentMode, pub ref_info: (u16, u16) }

#[derive(Clone, Copy)]
pub struct GroupType(pub u16);
%(version_enum)s
pub struct AttrDefinitionsIter { pub type_id: u16, pub pos: usize }
pub struct SubelemDefinitionsIter { pub type_id_stack: Vec<u16>, pub indices: Vec<usize> }

// ---- table contents: uninterpreted; the statics are tied to them (rule R8)
pub uninterp spec fn grank(t: int) -> nat;
pub uninterp spec fn t_el(i: int) -> ElementDefinition;
pub uninterp spec fn t_sub(i: int) -> SubElement;
pub uninterp spec fn t_attr(i: int) -> (AttributeName, u16, bool);
pub uninterp spec fn t_ver(i: int) -> u32;
pub uninterp spec fn t_dt(i: int) -> ElementSpec;
pub uninterp spec fn t_cd(i: int) -> CharacterDataSpec;
pub uninterp spec fn t_ref(i: int) -> EnumItem;

pub open spec fn n_el() -> int { %(ELEMENTS)d }
pub open spec fn n_sub() -> int { %(SUBELEMENTS)d }
pub open spec fn n_attr() -> int { %(ATTRIBUTES)d }
pub open spec fn n_ver() -> int { %(VERSION_INFO)d }
pub open spec fn n_dt() -> int { %(DATATYPES)d }
pub open spec fn n_cd() -> int { %(CHARACTER_DATA)d }
pub open spec fn n_ref() -> int { %(REF_ITEMS)d }

// Well-formedness of the tables.  ASSUMED in this unit; discharged on the real statics by `ground speclib tables_wf`.
pub open spec fn wf_tables() -> bool {
    &&& forall|t: int| 0 <= t < n_dt() ==> {
            let s = #[trigger] t_dt(t);
            &&& s.sub_elements.0 <= s.sub_elements.1 <= n_sub()
            &&& s.sub_element_ver + (s.sub_elements.1 - s.sub_elements.0) <= n_ver()
            &&& s.attributes.0 <= s.attributes.1 <= n_attr()
            &&& s.attributes_ver + (s.attributes.1 - s.attributes.0) <= n_ver()
            &&& s.ref_info.0 <= s.ref_info.1 <= n_ref()
            &&& (s.character_data matches Some(c) ==> c < n_cd())
        }
    &&& forall|i: int| 0 <= i < n_sub() ==> match #[trigger] t_sub(i) { SubElement::Element(d) => d < n_el(), SubElement::Group(g) => g < n_dt() }
    &&& forall|d: int| 0 <= d < n_el() ==> (#[trigger] t_el(d)).elemtype < n_dt()
    &&& forall|i: int| 0 <= i < n_attr() ==> (#[trigger] t_attr(i)).1 < n_cd()
    &&& forall|t: int, i: int| 0 <= t < n_dt() && t_dt(t).sub_elements.0 <= i < t_dt(t).sub_elements.1 ==>
            match #[trigger] t_sub(i) { SubElement::Group(g) => grank(g as int) < #[trigger] grank(t), _ => true }
}

#[verifier::external_body]
pub proof fn axiom_tables() ensures wf_tables() {}

%(STATICS)s

pub open spec fn sub_of(etype: int) -> Seq<SubElement> {
    Seq::new((t_dt(etype).sub_elements.1 - t_dt(etype).sub_elements.0) as nat, |k: int| t_sub(t_dt(etype).sub_elements.0 + k))
}
pub open spec fn attrs_of(etype: int) -> Seq<(AttributeName, u16, bool)> {
    Seq::new((t_dt(etype).attributes.1 - t_dt(etype).attributes.0) as nat, |k: int| t_attr(t_dt(etype).attributes.0 + k))
}
pub open spec fn refs_of(etype: int) -> Seq<EnumItem> {
    Seq::new((t_dt(etype).ref_info.1 - t_dt(etype).ref_info.0) as nat, |k: int| t_ref(t_dt(etype).ref_info.0 + k))
}

// The listing, as a relation: index list p resolves, in the sub-element tree of etype, to element definition d with
// version mask m.  (This is what SubelemDefinitionsIter walks and what find_sub_element must agree with.)
pub open spec fn resolve(etype: int, p: Seq<usize>) -> Option<(u16, u32)>
    decreases p.len()
{
    if p.len() == 0 || !(0 <= etype < n_dt()) { None }
    else {
        let i = p[0] as int;
        let s = sub_of(etype);
        if i >= s.len() { None } else {
            match s[i] {
                SubElement::Element(d) => if p.len() == 1 { Some((d, t_ver(t_dt(etype).sub_element_ver + i))) } else { None },
                SubElement::Group(g) => if p.len() == 1 { None } else { resolve(g as int, p.subrange(1, p.len() as int)) },
            }
        }
    }
}
pub open spec fn hit(etype: int, p: Seq<usize>, name: ElementName, version: u32) -> bool {
    match resolve(etype, p) { Some((d, m)) => t_el(d as int).name == name && version & m != 0, None => false }
}
pub open spec fn idx_ok(etype: int, p: Seq<usize>) -> bool
    decreases p.len()
{
    0 <= etype < n_dt() && (p.len() == 0 || (p[0] < sub_of(etype).len() && (p.len() == 1 || match sub_of(etype)[p[0] as int] {
        SubElement::Group(g) => idx_ok(g as int, p.subrange(1, p.len() as int)),
        SubElement::Element(_) => true,
    })))
}
// like resolve, but the path may end at a group
pub open spec fn resolve_any(etype: int, p: Seq<usize>) -> Option<(SubElement, u32)>
    decreases p.len()
{
    if p.len() == 0 || !(0 <= etype < n_dt()) { None }
    else {
        let i = p[0] as int;
        let s = sub_of(etype);
        if i >= s.len() { None }
        else if p.len() == 1 { Some((s[i], t_ver(t_dt(etype).sub_element_ver + i))) }
        else { match s[i] { SubElement::Element(_) => None, SubElement::Group(g) => resolve_any(g as int, p.subrange(1, p.len() as int)) } }
    }
}
pub proof fn lemma_resolve_any(etype: int, p: Seq<usize>)
    ensures resolve(etype, p) == (match resolve_any(etype, p) { Some((SubElement::Element(d), m)) => Some((d, m)), _ => None }),
            resolve(etype, p).is_some() ==> idx_ok(etype, p)
    decreases p.len()
{
    if p.len() > 1 && 0 <= etype < n_dt() && p[0] < sub_of(etype).len() {
        match sub_of(etype)[p[0] as int] { SubElement::Group(g) => lemma_resolve_any(g as int, p.subrange(1, p.len() as int)), _ => {} }
    }
}

// the innermost group (or the type itself) that contains both index lists: walk down while the lists agree and name a group
pub open spec fn common_group(t: int, a: Seq<usize>, b: Seq<usize>) -> int
    decreases a.len()
{
    if a.len() > 0 && b.len() > 0 && a[0] == b[0] && 0 <= t < n_dt() && a[0] < sub_of(t).len() {
        match sub_of(t)[a[0] as int] {
            SubElement::Element(_) => t,
            SubElement::Group(g) => common_group(g as int, a.subrange(1, a.len() as int), b.subrange(1, b.len() as int)),
        }
    } else { t }
}
// the group (or the type itself) that directly contains the sub-element at index list p
pub open spec fn container_of(t: int, p: Seq<usize>) -> int
    decreases p.len()
{
    if p.len() < 2 || !(0 <= t < n_dt()) || p[0] >= sub_of(t).len() { t }
    else { match sub_of(t)[p[0] as int] { SubElement::Group(g) => container_of(g as int, p.subrange(1, p.len() as int)), SubElement::Element(_) => t } }
}
pub proof fn lemma_container_prefix(t: int, p: Seq<usize>)
    requires p.len() >= 2, resolve_any(t, p) is Some, wf_tables()
    ensures resolve_any(t, p.subrange(0, p.len() - 1)) matches Some((SubElement::Group(g), _)) && g as int == container_of(t, p) && g < n_dt(),
            idx_ok(t, p.subrange(0, p.len() - 1))
    decreases p.len()
{
    let q = p.subrange(0, p.len() - 1);
    let tl = p.subrange(1, p.len() as int);
    assert(q[0] == p[0]);
    assert(sub_of(t)[p[0] as int] == t_sub(t_dt(t).sub_elements.0 + p[0]));
    match sub_of(t)[p[0] as int] {
        SubElement::Group(g) => {
            assert(resolve_any(g as int, tl) is Some);
            if p.len() == 2 {
                assert(q.len() == 1);
                assert(tl.len() == 1);
                assert(container_of(g as int, tl) == g as int);
                assert(container_of(t, p) == g as int);
            } else {
                lemma_container_prefix(g as int, tl);
                assert(tl.subrange(0, tl.len() - 1) =~= q.subrange(1, q.len() as int));
                assert(container_of(t, p) == container_of(g as int, tl));
            }
        }
        SubElement::Element(_) => {}
    }
}

pub open spec fn sn_mask(t: int) -> Option<u32> {
    if sub_of(t).len() > 0 && (sub_of(t)[0] matches SubElement::Element(idx) && t_el(idx as int).name == ElementName::ShortName) { Some(t_ver(t_dt(t).sub_element_ver as int)) } else { None }
}
pub open spec fn refs_contains(t: int, d: EnumItem) -> bool { exists|k: int| 0 <= k < refs_of(t).len() && refs_of(t)[k] == d }
// position k is the first listed attribute of type t with the given name
pub open spec fn attr_at(t: int, k: int, n: AttributeName) -> bool {
    0 <= k < attrs_of(t).len() && attrs_of(t)[k].0 == n && forall|j: int| 0 <= j < k ==> (#[trigger] attrs_of(t)[j]).0 != n
}
pub open spec fn attr_post(t: int, n: AttributeName, r: Option<AttributeSpec>) -> bool {
    match r {
        Some(s) => exists|k: int| attr_at(t, k, n) && s.version == t_ver(t_dt(t).attributes_ver + k) && *s.spec == t_cd(attrs_of(t)[k].1 as int) && s.required == attrs_of(t)[k].2,
        None => forall|k: int| 0 <= k < attrs_of(t).len() ==> (#[trigger] attrs_of(t)[k]).0 != n,
    }
}
pub open spec fn dest_enum_contains(t: int, d: EnumItem) -> bool {
    exists|k: int| attr_at(t, k, AttributeName::Dest) && (t_cd(attrs_of(t)[k].1 as int) matches CharacterDataSpec::Enum { items } && exists|j: int| 0 <= j < items@.len() && items@[j].0 == d)
}

pub proof fn lemma_resolve_any_in_range(etype: int, p: Seq<usize>)
    requires wf_tables()
    ensures resolve_any(etype, p) matches Some((SubElement::Element(d), _)) ==> d < n_el()
    decreases p.len()
{
    if p.len() > 0 && 0 <= etype < n_dt() && p[0] < sub_of(etype).len() {
        if p.len() > 1 { match sub_of(etype)[p[0] as int] { SubElement::Group(g) => lemma_resolve_any_in_range(g as int, p.subrange(1, p.len() as int)), _ => {} } }
    }
}
pub open spec fn REFTYPE() -> u16 { %(REFERENCE_TYPE_IDX)du16 }
pub open spec fn et_of(d: u16) -> ElementType { ElementType { def: d, typ: t_el(d as int).elemtype } }
pub open spec fn et_ok(e: ElementType) -> bool { e.def < n_el() && e.typ < n_dt() }

// what find_sub_element promises (used as its postcondition and in the lemma below)
pub open spec fn find_post(etype: int, name: ElementName, version: u32, r: Option<(ElementType, Vec<usize>)>) -> bool {
    match r {
        Some((et, idx)) => hit(etype, idx@, name, version) && (resolve(etype, idx@) matches Some((d, m)) && et == et_of(d) && et_ok(et)),
        None => forall|p: Seq<usize>| !hit(etype, p, name, version),
    }
}

// The lookup as a function: depth-first, first hit in listing order (this is what makes find_sub_element a *function* of its arguments)
pub open spec fn find_from(etype: int, i: int, name: ElementName, v: u32) -> Option<(u16, Seq<usize>)>
    decreases grank(etype), sub_of(etype).len() - i
    when wf_tables() && 0 <= etype < n_dt() && 0 <= i
    via find_from_decreases
{
    if i >= sub_of(etype).len() { None }
    else {
        match sub_of(etype)[i] {
            SubElement::Element(d) => if t_el(d as int).name == name && v & t_ver(t_dt(etype).sub_element_ver + i) != 0 { Some((d, seq![i as usize])) } else { find_from(etype, i + 1, name, v) },
            SubElement::Group(g) => match find_from(g as int, 0, name, v) { Some((d, p)) => Some((d, seq![i as usize] + p)), None => find_from(etype, i + 1, name, v) },
        }
    }
}
#[via_fn]
proof fn find_from_decreases(etype: int, i: int, name: ElementName, v: u32) {
    if i < sub_of(etype).len() {
        match sub_of(etype)[i] {
            SubElement::Group(g) => { assert(sub_of(etype)[i] == t_sub(t_dt(etype).sub_elements.0 + i)); }
            _ => {}
        }
    }
}
pub open spec fn find_is(etype: int, name: ElementName, v: u32, r: Option<(ElementType, Vec<usize>)>) -> bool {
    match r {
        Some((et, idx)) => find_from(etype, 0, name, v) == Some((et.def, idx@)) && et == et_of(et.def),
        None => find_from(etype, 0, name, v) is None,
    }
}

// C18: "every sub-element that the specification lists for an element type in some version is found by name lookup
// in that version with a type listed for it and a version mask containing that version"
pub proof fn lemma_listed_is_found(etype: int, p: Seq<usize>, v: u32, r: Option<(ElementType, Vec<usize>)>)
    requires
        resolve(etype, p) is Some, v & resolve(etype, p).unwrap().1 != 0,
        find_post(etype, t_el(resolve(etype, p).unwrap().0 as int).name, v, r),
    ensures
        r matches Some((et, idx)) && (resolve(etype, idx@) matches Some((d2, m2)) && t_el(d2 as int).name == t_el(resolve(etype, p).unwrap().0 as int).name
            && v & m2 != 0 && et == et_of(d2) && (resolve_any(etype, idx@) matches Some((_, m3)) && m3 == m2) && idx_ok(etype, idx@))
{
    assert(hit(etype, p, t_el(resolve(etype, p).unwrap().0 as int).name, v));
    match r { Some((et, idx)) => { lemma_resolve_any(etype, idx@); } None => {} }
}

// ---- the listing iterator: representation invariant and the path it stands for
pub open spec fn it_inv(stack: Seq<u16>, indices: Seq<usize>) -> bool {
    &&& stack.len() == indices.len()
    &&& forall|k: int| 0 <= k < stack.len() ==> #[trigger] stack[k] < n_dt()
    &&& forall|k: int| 0 <= k < stack.len() - 1 ==> (#[trigger] indices[k]) < sub_of(stack[k] as int).len() && sub_of(stack[k] as int)[indices[k] as int] == SubElement::Group(stack[k + 1])
    &&& stack.len() > 0 ==> indices[stack.len() - 1] <= sub_of(stack[stack.len() - 1] as int).len()
}
pub proof fn lemma_resolve_prefix(stack: Seq<u16>, indices: Seq<usize>, j: int, q: Seq<usize>)
    requires it_inv(stack, indices), 0 <= j < stack.len(), q.len() >= 1
    ensures resolve(stack[j] as int, indices.subrange(j, stack.len() - 1) + q) == resolve(stack[stack.len() - 1] as int, q)
    decreases stack.len() - j
{
    let depth = stack.len() - 1;
    let p = indices.subrange(j, depth) + q;
    if j == depth {
        assert(p =~= q);
    } else {
        lemma_resolve_prefix(stack, indices, j + 1, q);
        assert(p[0] == indices[j]);
        assert(p.subrange(1, p.len() as int) =~= indices.subrange(j + 1, depth) + q);
    }
}

// ---- termination measure of the listing iterator
pub open spec fn cost(t: int, i: int) -> nat
    decreases grank(t), sub_of(t).len() - i
    when wf_tables() && 0 <= t < n_dt() && 0 <= i
    via cost_decreases
{
    if i >= sub_of(t).len() { 1 }
    else {
        match sub_of(t)[i] {
            SubElement::Element(_) => 1 + cost(t, i + 1),
            SubElement::Group(g) => 1 + cost(g as int, 0) + cost(t, i + 1),
        }
    }
}
#[via_fn]
proof fn cost_decreases(t: int, i: int) {
    if i < sub_of(t).len() {
        match sub_of(t)[i] {
            SubElement::Group(g) => {
                assert(sub_of(t)[i] == t_sub(t_dt(t).sub_elements.0 + i));
            }
            _ => {}
        }
    }
}
pub open spec fn it_measure(stack: Seq<u16>, indices: Seq<usize>) -> nat
    decreases stack.len()
{
    if stack.len() == 0 { 0 }
    else if stack.len() == 1 { cost(stack[0] as int, indices[0] as int) }
    else { cost(stack[0] as int, indices[0] + 1) + it_measure(stack.subrange(1, stack.len() as int), indices.subrange(1, indices.len() as int)) }
}

pub proof fn lemma_measure_push(stack: Seq<u16>, indices: Seq<usize>, g: u16)
    requires wf_tables(), it_inv(stack, indices), stack.len() > 0,
        indices[stack.len() - 1] < sub_of(stack[stack.len() - 1] as int).len(),
        sub_of(stack[stack.len() - 1] as int)[indices[stack.len() - 1] as int] == SubElement::Group(g), g < n_dt(),
    ensures it_measure(stack.push(g), indices.push(0usize)) + 1 == it_measure(stack, indices)
    decreases stack.len()
{
    let s2 = stack.push(g);
    let i2 = indices.push(0usize);
    if stack.len() == 1 {
        assert(s2.subrange(1, 2) =~= seq![g]);
        assert(i2.subrange(1, 2) =~= seq![0usize]);
        assert(it_measure(seq![g], seq![0usize]) == cost(g as int, 0));
    } else {
        let sr = stack.subrange(1, stack.len() as int);
        let ir = indices.subrange(1, indices.len() as int);
        assert(it_inv(sr, ir)) by {
            assert forall|k: int| 0 <= k < sr.len() implies #[trigger] sr[k] < n_dt() by { assert(sr[k] == stack[k + 1]); }
            assert forall|k: int| 0 <= k < sr.len() - 1 implies (#[trigger] ir[k]) < sub_of(sr[k] as int).len() && sub_of(sr[k] as int)[ir[k] as int] == SubElement::Group(sr[k + 1]) by {
                assert(ir[k] == indices[k + 1]); assert(sr[k] == stack[k + 1]); assert(sr[k + 1] == stack[k + 2]);
            }
        }
        lemma_measure_push(sr, ir, g);
        assert(s2.subrange(1, s2.len() as int) =~= sr.push(g));
        assert(i2.subrange(1, i2.len() as int) =~= ir.push(0usize));
    }
}
pub proof fn lemma_measure_advance(stack: Seq<u16>, indices: Seq<usize>)
    requires wf_tables(), it_inv(stack, indices), stack.len() > 0,
        indices[stack.len() - 1] < sub_of(stack[stack.len() - 1] as int).len(),
        sub_of(stack[stack.len() - 1] as int)[indices[stack.len() - 1] as int] is Element,
    ensures it_measure(stack, indices.update(stack.len() - 1, (indices[stack.len() - 1] + 1) as usize)) + 1 == it_measure(stack, indices)
    decreases stack.len()
{
    let last = stack.len() - 1;
    let i2 = indices.update(last, (indices[last] + 1) as usize);
    if stack.len() == 1 {
        assert(i2[0] == indices[0] + 1);
    } else {
        let sr = stack.subrange(1, stack.len() as int);
        let ir = indices.subrange(1, indices.len() as int);
        assert(it_inv(sr, ir)) by {
            assert forall|k: int| 0 <= k < sr.len() implies #[trigger] sr[k] < n_dt() by { assert(sr[k] == stack[k + 1]); }
            assert forall|k: int| 0 <= k < sr.len() - 1 implies (#[trigger] ir[k]) < sub_of(sr[k] as int).len() && sub_of(sr[k] as int)[ir[k] as int] == SubElement::Group(sr[k + 1]) by {
                assert(ir[k] == indices[k + 1]); assert(sr[k] == stack[k + 1]); assert(sr[k + 1] == stack[k + 2]);
            }
        }
        assert(ir[sr.len() - 1] == indices[last]);
        assert(sr[sr.len() - 1] == stack[last]);
        lemma_measure_advance(sr, ir);
        assert(i2.subrange(1, i2.len() as int) =~= ir.update(sr.len() - 1, (ir[sr.len() - 1] + 1) as usize));
        assert(i2[0] == indices[0]);
    }
}
pub proof fn lemma_measure_pop(stack: Seq<u16>, indices: Seq<usize>)
    requires wf_tables(), it_inv(stack, indices), stack.len() > 0,
        indices[stack.len() - 1] >= sub_of(stack[stack.len() - 1] as int).len(),
    ensures ({
        let s2 = stack.drop_last();
        let i1 = indices.drop_last();
        let i2 = if i1.len() > 0 { i1.update(i1.len() - 1, (i1[i1.len() - 1] + 1) as usize) } else { i1 };
        it_measure(s2, i2) + 1 == it_measure(stack, indices)
    })
    decreases stack.len()
{
    let s2 = stack.drop_last();
    let i1 = indices.drop_last();
    if stack.len() == 1 {
    } else {
        let i2 = i1.update(i1.len() - 1, (i1[i1.len() - 1] + 1) as usize);
        let sr = stack.subrange(1, stack.len() as int);
        let ir = indices.subrange(1, indices.len() as int);
        assert(it_inv(sr, ir)) by {
            assert forall|k: int| 0 <= k < sr.len() implies #[trigger] sr[k] < n_dt() by { assert(sr[k] == stack[k + 1]); }
            assert forall|k: int| 0 <= k < sr.len() - 1 implies (#[trigger] ir[k]) < sub_of(sr[k] as int).len() && sub_of(sr[k] as int)[ir[k] as int] == SubElement::Group(sr[k + 1]) by {
                assert(ir[k] == indices[k + 1]); assert(sr[k] == stack[k + 1]); assert(sr[k + 1] == stack[k + 2]);
            }
        }
        lemma_measure_pop(sr, ir);
        if stack.len() == 2 {
            assert(s2.len() == 1 && i2.len() == 1);
            assert(sr.drop_last().len() == 0);
        } else {
            assert(s2.subrange(1, s2.len() as int) =~= sr.drop_last());
            let ir1 = ir.drop_last();
            assert(i2.subrange(1, i2.len() as int) =~= ir1.update(ir1.len() - 1, (ir1[ir1.len() - 1] + 1) as usize));
            assert(i2[0] == indices[0]);
        }
    }
}

pub fn vx_prefix(x: &[usize], n: usize) -> (r: &[usize])
    requires n <= x.len()
    ensures r@ == x@.subrange(0, n as int)
{ vstd::slice::slice_subrange(x, 0, n) }
// first listed attribute with the given name
pub fn vx_find_attr(x: &[(AttributeName, u16, bool)], n: AttributeName) -> (r: Option<(usize, &(AttributeName, u16, bool))>)
    ensures match r {
        Some((i, e)) => i < x.len() && *e == x@[i as int] && x@[i as int].0 == n && forall|k: int| 0 <= k < i ==> (#[trigger] x@[k]).0 != n,
        None => forall|k: int| 0 <= k < x.len() ==> (#[trigger] x@[k]).0 != n,
    }
{
    let mut i: usize = 0;
    while i < x.len()
        invariant i <= x.len(), forall|k: int| 0 <= k < i ==> (#[trigger] x@[k]).0 != n,
        decreases x.len() - i
    {
        if x[i].0 == n { return Some((i, &x[i])); }
        i += 1;
    }
    None
}
pub fn vx_contains_item(x: &[EnumItem], v: EnumItem) -> (r: bool)
    ensures r == exists|k: int| 0 <= k < x.len() && x@[k] == v
{
    let mut i: usize = 0;
    while i < x.len()
        invariant i <= x.len(), forall|k: int| 0 <= k < i ==> x@[k] != v,
        decreases x.len() - i
    {
        if x[i] == v { return true; }
        i += 1;
    }
    false
}
'''

STATIC_T = r'''
#[verifier::external_body]
const fn vx_tab_%(lname)s() -> (r: [%(ty)s; %(n)d]) ensures forall|i: int| 0 <= i < %(n)d ==> #[trigger] r[i] == %(tf)s(i) { [%(init)s; %(n)d] }
exec static %(name)s: [%(ty)s; %(n)d] ensures forall|i: int| 0 <= i < %(n)d ==> #[trigger] %(name)s[i] == %(tf)s(i) { vx_tab_%(lname)s() }
'''

INIT = {
    'ELEMENTS': ('t_el', 'ElementDefinition { name: ElementName::ShortName, elemtype: 0, multiplicity: ElementMultiplicity::Any, ordered: false, splittable: 0, restrict_std: StdRestrict::NotRestricted }'),
    'SUBELEMENTS': ('t_sub', 'SubElement::Element(0)'),
    'ATTRIBUTES': ('t_attr', '(AttributeName::Dest, 0u16, false)'),
    'VERSION_INFO': ('t_ver', '0u32'),
    'DATATYPES': ('t_dt', 'ElementSpec { sub_elements: (0, 0), sub_element_ver: 0, attributes: (0, 0), attributes_ver: 0, character_data: None, mode: ContentMode::Sequence, ref_info: (0, 0) }'),
    'CHARACTER_DATA': ('t_cd', 'CharacterDataSpec::VxOther(0)'),
    'REF_ITEMS': ('t_ref', 'EnumItem { id: 0 }'),
}

def _forslice(m):
    """R23: `for PAT in S {` over a slice (S an identifier or `*identifier`) -> index loop; the counter is named after the
    indentation depth, so nested loops get distinct, stable names"""
    k = len(m.group(1)) // 4
    s = m.group(3)
    sl = '(%s)' % s if s.startswith('*') else s
    return '%slet mut vx_j%d: usize = 0; while vx_j%d < %s.len() { let %s = &%s[vx_j%d]; vx_j%d += 1;' % (m.group(1), k, k, sl, m.group(2), sl, k, k)


def r_forslice():
    return [(r'(?m)^( *)for (\w+|\(\w+, _\)) in (\*?\w+) \{', _forslice, 'R23')]


IMPL_GT = r'impl GroupType'
IMPL_AV = r'impl AutosarVersion'
IMPL_AI = r'impl Iterator for AttrDefinitionsIter'
IMPL_SI = r'impl Iterator for SubelemDefinitionsIter'

R_LOCAL = [
    (r'for \((\w+), (\w+)\) in (\w+)\.iter\(\)\.enumerate\(\) \{',
     lambda m: 'let mut vx_i: usize = 0; while vx_i < %s.len() { let %s = vx_i; let %s = &%s[vx_i]; vx_i += 1;' % (m.group(3), m.group(1), m.group(2), m.group(3)), 'R18'),
    (r'((?:\w+\.)*\w+)\.is_empty\(\)', lambda m: '(%s.len() == 0)' % m.group(1), 'R16'),
    (r'\bdebug_assert_eq!\(([^,;]+), ([^;]+)\);', lambda m: 'vx_debug_assert(%s == %s);' % (m.group(1), m.group(2)), 'R10'),
    (r'\*(\w+)\.last\(\)\.unwrap\(\)', lambda m: '%s[%s.len() - 1]' % (m.group(1), m.group(1)), 'R20'),
    (r'(\w+)\.iter\(\)\.enumerate\(\)\.find\(\|\(_, \(name, \.\.\)\)\| \*name == (\w+)\)', lambda m: 'vx_find_attr(%s, %s)' % (m.group(1), m.group(2)), 'R21'),
    (r'(\w+)\.contains\(&(\w+)\)', lambda m: 'vx_contains_item(%s, %s)' % (m.group(1), m.group(2)), 'R22'),
    (r'static REFERENCE_TYPE_IDX\b', lambda m: m.group(0), 'none'),
]

T = 'self.typ < n_dt()'


def fns(sz):
    ndt = sz['DATATYPES'][1]
    out = [
        FnSpec('compatible', F, impl=IMPL_AV, ret='r', ensures=['r == (version_mask & (*self as u32) != 0)']),
        FnSpec('new', F, impl=IMPL_ET, ret='r', requires=['def < n_el()'], ensures=['r == et_of(def)', 'et_ok(r)'],
               proofs=[dict(at='body_start', text='proof { axiom_tables(); }')]),
        FnSpec('get_sub_elements', F, impl=IMPL_ET, ret='r', requires=['etype < n_dt()'], ensures=['r@ =~= sub_of(etype as int)'],
               proofs=[dict(at='body_start', text='proof { axiom_tables(); }')]),
        FnSpec('get_sub_element_idx', F, impl=IMPL_ET, ret='r', requires=['etype < n_dt()'],
               ensures=['r.0 == t_dt(etype as int).sub_elements.0', 'r.1 == t_dt(etype as int).sub_elements.1']),
        FnSpec('get_sub_element_ver', F, impl=IMPL_ET, ret='r', requires=['etype < n_dt()'], ensures=['r == t_dt(etype as int).sub_element_ver']),
        FnSpec('get_attributes_idx', F, impl=IMPL_ET, ret='r', requires=['etype < n_dt()'],
               ensures=['r.0 == t_dt(etype as int).attributes.0', 'r.1 == t_dt(etype as int).attributes.1']),
        FnSpec('get_attributes_ver', F, impl=IMPL_ET, ret='r', requires=['etype < n_dt()'], ensures=['r == t_dt(etype as int).attributes_ver']),
        FnSpec('get_sub_element_spec', F, impl=IMPL_ET, ret='r', body_sub=R_LOCAL,
               requires=[T, 'idx_ok(self.typ as int, element_indices@)'],
               ensures=['r == (match resolve_any(self.typ as int, element_indices@) { Some((s, m)) => Some((&s, m)), None => None })'],
               loops={0: dict(iter_name='it', invariant=[
                   '0 <= cur_t < n_dt()', 'wf_tables()', 'element_indices.len() > 0',
                   'current_spec@ =~= sub_of(cur_t)', 'current_ver_list_start == t_dt(cur_t).sub_element_ver',
                   'idx_ok(cur_t, element_indices@.subrange(idx as int, element_indices.len() as int))',
                   'resolve_any(self.typ as int, element_indices@) == resolve_any(cur_t, element_indices@.subrange(idx as int, element_indices.len() as int))'])},
               proofs=[dict(at='body_start', text='proof { axiom_tables(); }'),
                       dict(before=r'^\s*for idx in 0\.\.\(element_indices\.len\(\) - 1\) \{', text='let ghost mut cur_t = self.typ as int;\nproof { assert(element_indices@.subrange(0, element_indices.len() as int) =~= element_indices@); }'),
                       dict(after=r'for idx in 0\.\.\(element_indices\.len\(\) - 1\) \{', indent=True, text='''proof {
    let q = element_indices@.subrange(idx as int, element_indices.len() as int);
    assert(q[0] == element_indices@[idx as int]);
    assert(q.subrange(1, q.len() as int) =~= element_indices@.subrange(idx + 1, element_indices.len() as int));
}'''),
                       dict(after=r'current_ver_list_start = ElementType::get_sub_element_ver\(\*groupid\);', text='proof { cur_t = *groupid as int; }'),
                       dict(before=r'^\s*let last_idx = ', text='''proof {
    let q = element_indices@.subrange(element_indices.len() - 1, element_indices.len() as int);
    assert(q.len() == 1 && q[0] == element_indices@[element_indices.len() - 1]);
}''')]),
        FnSpec('get_sub_element_version_mask', F, impl=IMPL_ET, ret='r', requires=[T, 'idx_ok(self.typ as int, element_indices@)'],
               ensures=['r == (match resolve_any(self.typ as int, element_indices@) { Some((s, m)) => Some(m), None => None })']),
        FnSpec('find_sub_element', F, impl=IMPL_ET, ret='r', requires=[T], ensures=['find_post(self.typ as int, target_name, version, r)', 'find_is(self.typ as int, target_name, version, r)'],
               proofs=[dict(at='body_start', text='proof { axiom_tables(); }')]),
        FnSpec('find_sub_element_internal', F, impl=IMPL_ET, ret='r', body_sub=R_LOCAL,
               requires=['etype < n_dt()'], ensures=['find_post(etype as int, target_name, version, r)', 'find_is(etype as int, target_name, version, r)'], decreases='grank(etype as int)',
               loops={0: dict(invariant=['vx_i <= spec.len()', 'spec@ =~= sub_of(etype as int)', 'etype < n_dt()', 'wf_tables()',
                                         'forall|p: Seq<usize>| p.len() > 0 && p[0] < vx_i ==> !hit(etype as int, p, target_name, version)',
                                         'find_from(etype as int, 0, target_name, version) == find_from(etype as int, vx_i as int, target_name, version)'],
                              decreases='spec.len() - vx_i')},
               proofs=[dict(at='body_start', text='proof { axiom_tables(); }'),
                       dict(before=r'^\s*return Some\(\(ElementType::new\(\*definiton_id\), vec!\[cur_pos\]\)\);', text='''proof {
    assert(sub_of(etype as int)[cur_pos as int] == SubElement::Element(*definiton_id));
    assert(find_from(etype as int, cur_pos as int, target_name, version) == Some((*definiton_id, seq![cur_pos])));
    assert(forall|w: Vec<usize>| w@.len() == 1 && w@[0] == cur_pos ==> w@ =~= seq![cur_pos]);
}'''),
                       dict(before=r'^\s*indices\.insert\(0, cur_pos\);', text='let ghost old_idx = indices@;'),
                       dict(after=r'indices\.insert\(0, cur_pos\);', text='proof { assert(indices@.subrange(1, indices@.len() as int) =~= old_idx); assert(indices@ =~= seq![cur_pos] + old_idx); }'),
                       dict(after=r'return Some\(\(ElementType::new\(\*definiton_id\), vec!\[cur_pos\]\)\);\s*\n\s*\}', text='''proof {
    assert forall|p: Seq<usize>| p.len() > 0 && p[0] == cur_pos implies !hit(etype as int, p, target_name, version) by {}
}'''),
                       dict(after=r'return Some\(\(elemtype, indices\)\);\s*\n\s*\}', text='''proof {
    assert forall|p: Seq<usize>| p.len() > 0 && p[0] == cur_pos implies !hit(etype as int, p, target_name, version) by {
        if p.len() > 1 { assert(!hit(*groupid as int, p.subrange(1, p.len() as int), target_name, version)); }
    }
}''')]),
    ]
    out += [
        FnSpec('get_sub_element_multiplicity', F, impl=IMPL_ET, ret='r', requires=[T, 'idx_ok(self.typ as int, element_indices@)'],
               ensures=['r == (match resolve_any(self.typ as int, element_indices@) { Some((SubElement::Element(d), _)) => Some(t_el(d as int).multiplicity), _ => None })'],
               proofs=[dict(at='body_start', text='proof { axiom_tables(); lemma_resolve_any_in_range(self.typ as int, element_indices@); }')]),
        FnSpec('get_sub_element_container_mode', F, impl=IMPL_ET, ret='r',
               requires=[T, 'element_indices@.len() >= 2 ==> resolve_any(self.typ as int, element_indices@) is Some'],
               ensures=['r == t_dt(container_of(self.typ as int, element_indices@)).mode'],
               body_sub=[(r'&element_indices\[\.\.len\]', lambda m: 'vx_prefix(element_indices, len)', 'R37')],
               proofs=[dict(at='body_start', text='proof { axiom_tables(); if element_indices@.len() >= 2 { lemma_container_prefix(self.typ as int, element_indices@); } }')]),
        FnSpec('find_common_group', F, impl=IMPL_ET, ret='r', requires=[T, 'idx_ok(self.typ as int, element_indices@)'],
               ensures=['r.0 as int == common_group(self.typ as int, element_indices@, element_indices2@)', 'r.0 < n_dt()'],
               loops={0: dict(invariant=['wf_tables()', 'result < n_dt()', 'prefix_len <= element_indices.len()', 'prefix_len <= element_indices2.len()',
                                         'idx_ok(result as int, element_indices@.subrange(prefix_len as int, element_indices.len() as int))',
                                         'common_group(self.typ as int, element_indices@, element_indices2@) == common_group(result as int, element_indices@.subrange(prefix_len as int, element_indices.len() as int), element_indices2@.subrange(prefix_len as int, element_indices2.len() as int))'],
                              decreases='element_indices.len() - prefix_len')},
               proofs=[dict(at='body_start', text='proof { axiom_tables(); assert(element_indices@.subrange(0, element_indices.len() as int) =~= element_indices@); assert(element_indices2@.subrange(0, element_indices2.len() as int) =~= element_indices2@); }'),
                       dict(after=r'&& element_indices\[prefix_len\] == element_indices2\[prefix_len\]\s*\{', indent=True, text=r"""proof {
    let qa = element_indices@.subrange(prefix_len as int, element_indices.len() as int);
    let qb = element_indices2@.subrange(prefix_len as int, element_indices2.len() as int);
    assert(qa[0] == element_indices@[prefix_len as int] && qb[0] == element_indices2@[prefix_len as int]);
    assert(qa.subrange(1, qa.len() as int) =~= element_indices@.subrange(prefix_len + 1, element_indices.len() as int));
    assert(qb.subrange(1, qb.len() as int) =~= element_indices2@.subrange(prefix_len + 1, element_indices2.len() as int));
    assert(sub_of(result as int)[qa[0] as int] == t_sub(t_dt(result as int).sub_elements.0 + qa[0]));
}""")]),
        FnSpec('content_mode', F, impl=IMPL_ET, ret='r', label='ElementType.content_mode', sig_sub=[(r'pub const fn', 'pub fn')], requires=[T], ensures=['r == t_dt(self.typ as int).mode']),
        FnSpec('content_mode', F, impl=IMPL_GT, ret='r', label='GroupType.content_mode', sig_sub=[(r'pub const fn', 'pub fn')], requires=['self.0 < n_dt()'], ensures=['r == t_dt(self.0 as int).mode']),
        FnSpec('chardata_spec', F, impl=IMPL_ET, ret='r', sig_sub=[(r'pub const fn', 'pub fn')], requires=[T],
               ensures=['match r { Some(s) => t_dt(self.typ as int).character_data matches Some(c) && *s == t_cd(c as int), None => t_dt(self.typ as int).character_data is None }'],
               proofs=[dict(at='body_start', text='proof { axiom_tables(); }')]),
        FnSpec('is_named', F, impl=IMPL_ET, ret='r', requires=[T], ensures=['r == sn_mask(self.typ as int).is_some()']),
        FnSpec('is_named_in_version', F, impl=IMPL_ET, ret='r', requires=[T],
               body_sub=[(r'self\.short_name_version_mask\(\)\s*\.is_some_and\(\|ver_mask\| version\.compatible\(ver_mask\)\)',
                          lambda m: '(match self.short_name_version_mask() { Some(ver_mask) => version.compatible(ver_mask), None => false })', 'R41')],
               ensures=['r == (sn_mask(self.typ as int) matches Some(m) && m & (version as u32) != 0)']),
        FnSpec('is_ordered', F, impl=IMPL_ET, ret='r', sig_sub=[(r'pub const fn', 'pub fn')], requires=['self.def < n_el()'], ensures=['r == t_el(self.def as int).ordered']),
        FnSpec('splittable', F, impl=IMPL_ET, ret='r', sig_sub=[(r'pub const fn', 'pub fn')], requires=['self.def < n_el()'], ensures=['r == t_el(self.def as int).splittable']),
        FnSpec('splittable_in', F, impl=IMPL_ET, ret='r', sig_sub=[(r'pub const fn', 'pub fn')], requires=['self.def < n_el()'], ensures=['r == (t_el(self.def as int).splittable & (version as u32) != 0)']),
        FnSpec('std_restriction', F, impl=IMPL_ET, ret='r', sig_sub=[(r'pub const fn', 'pub fn')], requires=['self.def < n_el()'], ensures=['r == t_el(self.def as int).restrict_std']),
        FnSpec('short_name_version_mask', F, impl=IMPL_ET, ret='r', sig_sub=[(r'pub\(crate\) fn', 'pub fn')], requires=[T], ensures=['r == sn_mask(self.typ as int)'],
               proofs=[dict(at='body_start', text='proof { axiom_tables(); }')]),
        FnSpec('is_ref', F, impl=IMPL_ET, ret='r', requires=[T], ensures=['r == (t_dt(self.typ as int).character_data == Some(REFTYPE()))']),
        FnSpec('find_attribute_spec', F, impl=IMPL_ET, ret='r', body_sub=R_LOCAL, requires=[T], ensures=['attr_post(self.typ as int, attrname, r)'],
               proofs=[dict(at='body_start', text='proof { axiom_tables(); }'),
                       dict(after=r'let attributes = &ATTRIBUTES\[idx_start\.\.idx_end\];', text='proof { assert(attributes@ =~= attrs_of(self.typ as int)); }'),
                       dict(after=r'let version = VERSION_INFO\[idx_ver_start \+ find_pos\];', text='proof { assert(attr_at(self.typ as int, find_pos as int, attrname)); }')]),
        FnSpec('reference_dest_value', F, impl=IMPL_ET, ret='r', body_sub=r_forslice(), requires=[T, 'other.typ < n_dt()'],
               attrs=['#[verifier::loop_isolation(false)]'],
               ensures=['r matches Some(d) ==> refs_contains(other.typ as int, d) && dest_enum_contains(self.typ as int, d)'],
               loops={0: dict(invariant=['vx_j4 <= ref_by.len()'], decreases='ref_by.len() - vx_j4'),
                      1: dict(invariant=['vx_j5 <= (*items).len()', '1 <= vx_j4 <= ref_by.len()', '*ref_target_value == ref_by@[vx_j4 - 1]'], decreases='(*items).len() - vx_j5')},
               proofs=[dict(at='body_start', text='proof { axiom_tables(); }'),
                       dict(after=r'let ref_by = &REF_ITEMS\[start as usize\.\.end as usize\];', text='proof { assert(ref_by@ =~= refs_of(other.typ as int)); }'),
                       dict(before=r'^\s*return Some\(\*ref_target_value\);', text='''proof {
    assert(refs_of(other.typ as int)[vx_j4 - 1] == *ref_target_value);
    assert((*items)@[vx_j5 - 1].0 == *ref_target_value);
}''')]),
        FnSpec('attribute_spec_iter', F, impl=IMPL_ET, ret='r', ensures=['r.type_id == self.typ', 'r.pos == 0']),
        FnSpec('verify_reference_dest', F, impl=IMPL_ET, ret='r', body_sub=R_LOCAL, requires=[T], ensures=['r == refs_contains(self.typ as int, dest_value)'],
               proofs=[dict(at='body_start', text='proof { axiom_tables(); }'),
                       dict(after=r'let values = &REF_ITEMS\[start as usize\.\.end as usize\];', text='proof { assert(values@ =~= refs_of(self.typ as int)); }')]),
        FnSpec('next', F, impl=IMPL_AI, ret='r', label='AttrDefinitionsIter.next',
               sig_sub=[(r'Option<Self::Item>', "Option<(AttributeName, &'static CharacterDataSpec, bool)>")],
               requires=['old(self).type_id < n_dt()', 'old(self).pos <= usize::MAX - 65536'],
               ensures=['final(self).type_id == old(self).type_id', 'final(self).pos == old(self).pos + 1',
                        'match r { Some((name, spec, req)) => old(self).pos < attrs_of(old(self).type_id as int).len() && name == attrs_of(old(self).type_id as int)[old(self).pos as int].0 '
                        '&& *spec == t_cd(attrs_of(old(self).type_id as int)[old(self).pos as int].1 as int) && req == attrs_of(old(self).type_id as int)[old(self).pos as int].2, '
                        'None => old(self).pos >= attrs_of(old(self).type_id as int).len() }'],
               proofs=[dict(at='body_start', text='proof { axiom_tables(); }')]),
        FnSpec('sub_element_spec_iter', F, impl=IMPL_ET, ret='r', requires=[T],
               ensures=['it_inv(r.type_id_stack@, r.indices@)', 'r.type_id_stack@.len() == 1 && r.type_id_stack@[0] == self.typ'],
               proofs=[dict(at='body_start', text='proof { axiom_tables(); }')]),
        FnSpec('next', F, impl=IMPL_SI, ret='r', label='SubelemDefinitionsIter.next', body_sub=R_LOCAL,
               sig_sub=[(r'Option<Self::Item>', 'Option<(ElementName, ElementType, u32, u32)>')],
               requires=['it_inv(old(self).type_id_stack@, old(self).indices@)'],
               ensures=['it_inv(final(self).type_id_stack@, final(self).indices@)',
                        'final(self).type_id_stack@.len() > 0 ==> old(self).type_id_stack@.len() > 0 && final(self).type_id_stack@[0] == old(self).type_id_stack@[0]',
                        'r matches Some((name, et, mask, named)) ==> old(self).type_id_stack@.len() > 0 && et_ok(et) && et == et_of(et.def) && name == t_el(et.def as int).name '
                        '&& exists|p: Seq<usize>| resolve(old(self).type_id_stack@[0] as int, p) == Some((et.def, mask))',
                        'r matches Some((name, et, mask, named)) ==> named == (match sn_mask(et.typ as int) { Some(m) => m, None => 0u32 })',
                        'r is Some ==> it_measure(final(self).type_id_stack@, final(self).indices@) < it_measure(old(self).type_id_stack@, old(self).indices@)'],
               decreases='it_measure(old(self).type_id_stack@, old(self).indices@)',
               proofs=[dict(at='body_start', text='proof { axiom_tables(); }'),
                       dict(before=r'^\s*Some\(\(name, ElementType::new\(\*idx\), version_mask, is_named\)\)', text='''proof {
    assert(sub_of(current_type as int)[cur_pos as int] == t_sub(start_idx + cur_pos));
    lemma_measure_advance(old(self).type_id_stack@, old(self).indices@);
    assert(self.indices@ =~= old(self).indices@.update(depth as int, (cur_pos + 1) as usize));
    let st = old(self).type_id_stack@; let ix = old(self).indices@;
    lemma_resolve_prefix(st, ix, 0, seq![cur_pos]);
    assert(sub_of(current_type as int)[cur_pos as int] == t_sub(start_idx + cur_pos));
}'''),
                       dict(after=r'self\.indices\.push\(0\);', text='proof { assert(sub_of(current_type as int)[cur_pos as int] == t_sub(start_idx + cur_pos)); lemma_measure_push(old(self).type_id_stack@, old(self).indices@, *groupid); }'),
                       dict(before=r'^\s*self\.next\(\)', nth=1, text='proof { lemma_measure_pop(old(self).type_id_stack@, old(self).indices@); assert(self.type_id_stack@ =~= old(self).type_id_stack@.drop_last()); }')]),
    ]
    return out


def statics(sz):
    out = ''
    for name in TABLES:
        ty, n = sz[name]
        tf, init = INIT[name]
        out += STATIC_T % dict(name=name, lname=name.lower(), ty=ty, n=n, tf=tf, init=init)
    out += '\nexec static REFERENCE_TYPE_IDX: u16 ensures REFERENCE_TYPE_IDX == %du16 { %d }\n' % (sz['REFERENCE_TYPE_IDX'], sz['REFERENCE_TYPE_IDX'])
    return out


def make_unit(repo_dir):
    check_decls(repo_dir)
    sz = table_sizes(repo_dir)
    from contracts import parser_funnel
    spec = TYPES % dict(version_enum=parser_funnel.version_enum(repo_dir), STATICS=statics(sz), REFERENCE_TYPE_IDX=sz['REFERENCE_TYPE_IDX'], **{k: v[1] for k, v in sz.items() if isinstance(v, tuple)})
    u = Unit(name='lookups', prop='C18', spec=spec, fns=fns(sz), wrap={IMPL_AV: 'impl AutosarVersion', IMPL_ET: 'impl ElementType', IMPL_GT: 'impl GroupType', IMPL_AI: 'impl AttrDefinitionsIter', IMPL_SI: 'impl SubelemDefinitionsIter'},
             dropped=['contents of the seven static tables (rule R8): they enter only through wf_tables(), discharged by the native evaluation `ground speclib tables_wf` on the real statics',
                      'ElementName / AttributeName / EnumItem are opaque stand-ins (only compared); CharacterDataSpec keeps the Enum variant only; doc comments, #[must_use], derives, the docstrings feature field'])
    u.sizes = sz
    return u
