// ===================== general (choice-aware) statement of "positions that keep the specification order" =====================
pub open spec fn mode_of(t: int, x: Seq<usize>, y: Seq<usize>) -> ContentMode { t_dt(common_group(t, x, y)).mode }
pub open spec fn rep_forbidden(t: int, x: Seq<usize>) -> bool { resolve(t, x) matches Some((d, _)) && t_el(d as int).multiplicity != ElementMultiplicity::Any }
// x may stand before y
pub open spec fn pair_ok(t: int, x: Seq<usize>, y: Seq<usize>) -> bool {
    &&& (mode_of(t, x, y) == ContentMode::Sequence ==> lex_le(x, y) && (x == y ==> !rep_forbidden(t, x)))
    &&& (mode_of(t, x, y) == ContentMode::Choice ==> x == y && !rep_forbidden(t, x))
}
pub proof fn lemma_common_sym(t: int, a: Seq<usize>, b: Seq<usize>)
    ensures common_group(t, a, b) == common_group(t, b, a)
    decreases a.len()
{
    if a.len() > 0 && b.len() > 0 && a[0] == b[0] && 0 <= t < n_dt() && a[0] < sub_of(t).len() {
        match sub_of(t)[a[0] as int] {
            SubElement::Group(g) => { lemma_common_sym(g as int, a.subrange(1, a.len() as int), b.subrange(1, b.len() as int)); }
            _ => {}
        }
    }
}
// heads: what resolve says about the first index
pub proof fn lemma_head(t: int, x: Seq<usize>)
    requires resolve(t, x) is Some
    ensures x.len() > 0, 0 <= t < n_dt(), x[0] < sub_of(t).len(),
        sub_of(t)[x[0] as int] is Element ==> x.len() == 1,
        sub_of(t)[x[0] as int] matches SubElement::Group(g) ==> x.len() > 1 && resolve(g as int, x.subrange(1, x.len() as int)) == resolve(t, x)
{}
pub proof fn lemma_lex_head(a: Seq<usize>, b: Seq<usize>)
    requires a.len() > 0, b.len() > 0
    ensures a[0] < b[0] ==> lex_lt(a, b), a[0] > b[0] ==> lex_lt(b, a) && !lex_le(a, b),
        a[0] == b[0] ==> lex_cmp(a, b) == lex_cmp(a.subrange(1, a.len() as int), b.subrange(1, b.len() as int)),
        lex_lt(a, b) ==> a[0] <= b[0], lex_le(a, b) ==> a[0] <= b[0]
{}
pub proof fn lemma_seq_split(a: Seq<usize>, b: Seq<usize>)
    requires a.len() > 0, b.len() > 0, a[0] == b[0]
    ensures (a == b) <==> (a.subrange(1, a.len() as int) == b.subrange(1, b.len() as int))
{
    if a.subrange(1, a.len() as int) == b.subrange(1, b.len() as int) {
        assert(a =~= seq![a[0]] + a.subrange(1, a.len() as int));
        assert(b =~= seq![b[0]] + b.subrange(1, b.len() as int));
    }
}
// pair_ok one level down, when both lists enter the same group
pub proof fn lemma_pair_down(t: int, g: u16, x: Seq<usize>, y: Seq<usize>)
    requires resolve(t, x) is Some, resolve(t, y) is Some, x[0] == y[0], sub_of(t)[x[0] as int] == SubElement::Group(g)
    ensures pair_ok(t, x, y) == pair_ok(g as int, x.subrange(1, x.len() as int), y.subrange(1, y.len() as int)),
            mode_of(t, x, y) == mode_of(g as int, x.subrange(1, x.len() as int), y.subrange(1, y.len() as int))
{
    lemma_head(t, x); lemma_head(t, y);
    lemma_lex_head(x, y);
    lemma_seq_split(x, y);
}
// n comes before e in a sequence, e may stand before f  ==>  n may stand before f (and is different from it)
pub proof fn lemma_after_chain(t: int, n: Seq<usize>, e: Seq<usize>, f: Seq<usize>)
    requires wf_tables(), resolve(t, n) is Some, resolve(t, e) is Some, resolve(t, f) is Some,
        mode_of(t, n, e) == ContentMode::Sequence, lex_lt(n, e), pair_ok(t, e, f)
    ensures pair_ok(t, n, f), n != f, !pair_ok(t, f, n) || mode_of(t, f, n) == ContentMode::Bag || mode_of(t, f, n) == ContentMode::Mixed || mode_of(t, f, n) == ContentMode::Characters
    decreases n.len()
{
    lemma_head(t, n); lemma_head(t, e); lemma_head(t, f);
    lemma_lex_head(n, e); lemma_lex_head(e, f); lemma_lex_head(n, f); lemma_lex_head(f, n);
    lemma_common_sym(t, f, n);
    lemma_lex_eq(n, f);
    lemma_lex_flip(n, f);
    if n[0] != e[0] {
        // the common group of n and e is t itself: a sequence, n[0] < e[0]
        if f[0] == e[0] { } else { }
    } else {
        match sub_of(t)[n[0] as int] {
            SubElement::Group(g) => {
                let (n1, e1, f1) = (n.subrange(1, n.len() as int), e.subrange(1, e.len() as int), f.subrange(1, f.len() as int));
                lemma_pair_down(t, g, n, e);
                assert(sub_of(t)[n[0] as int] == t_sub(t_dt(t).sub_elements.0 + n[0]));
                if f[0] == e[0] {
                    lemma_pair_down(t, g, e, f);
                    lemma_pair_down(t, g, n, f);
                    lemma_pair_down(t, g, f, n);
                    lemma_after_chain(g as int, n1, e1, f1);
                    lemma_seq_split(n, f);
                } else { }
            }
            SubElement::Element(_) => { lemma_seq_split(n, e); lemma_lex_eq(n, e); }
        }
    }
}

// mirror image: e comes before n in a sequence, f may stand before e  ==>  f may stand before n
pub proof fn lemma_before_chain(t: int, n: Seq<usize>, e: Seq<usize>, f: Seq<usize>)
    requires wf_tables(), resolve(t, n) is Some, resolve(t, e) is Some, resolve(t, f) is Some,
        mode_of(t, n, e) == ContentMode::Sequence, lex_lt(e, n), pair_ok(t, f, e)
    ensures pair_ok(t, f, n), n != f
    decreases n.len()
{
    lemma_head(t, n); lemma_head(t, e); lemma_head(t, f);
    lemma_lex_head(n, e); lemma_lex_head(e, n); lemma_lex_head(f, e); lemma_lex_head(f, n); lemma_lex_head(n, f);
    lemma_common_sym(t, f, n); lemma_common_sym(t, n, e); lemma_common_sym(t, f, e);
    lemma_lex_eq(n, f); lemma_lex_flip(n, f); lemma_lex_flip(f, n);
    if n[0] != e[0] {
        if f[0] == e[0] { } else { }
    } else {
        match sub_of(t)[n[0] as int] {
            SubElement::Group(g) => {
                let (n1, e1, f1) = (n.subrange(1, n.len() as int), e.subrange(1, e.len() as int), f.subrange(1, f.len() as int));
                lemma_pair_down(t, g, n, e);
                assert(sub_of(t)[n[0] as int] == t_sub(t_dt(t).sub_elements.0 + n[0]));
                if f[0] == e[0] {
                    lemma_pair_down(t, g, f, e);
                    lemma_pair_down(t, g, f, n);
                    lemma_before_chain(g as int, n1, e1, f1);
                    lemma_seq_split(n, f);
                } else { }
            }
            SubElement::Element(_) => { lemma_seq_split(n, e); lemma_lex_eq(e, n); }
        }
    }
}

impl ElementRaw {
    // all children are elements whose index lists resolve, and they stand in specification order pairwise (sequence order, one
    // alternative per choice, single-occurrence elements once)
    pub open spec fn kids_valid(&self, v: u32) -> bool {
        forall|i: int| 0 <= i < self.content@.len() ==> (#[trigger] self.kid(i, v) matches Some(p) && resolve(self.t(), p) is Some)
    }
    pub open spec fn conform(&self, v: u32) -> bool {
        forall|i: int, j: int| 0 <= i < j < self.content@.len() ==> pair_ok(self.t(), (#[trigger] self.kid(i, v)).unwrap(), (#[trigger] self.kid(j, v)).unwrap())
    }
    // inserting n at position p keeps the children conformant (the old pairs are untouched)
    pub open spec fn keeps_conform(&self, n: Seq<usize>, v: u32, p: int) -> bool {
        &&& forall|i: int| 0 <= i < p ==> pair_ok(self.t(), (#[trigger] self.kid(i, v)).unwrap(), n)
        &&& forall|j: int| p <= j < self.content@.len() ==> pair_ok(self.t(), n, (#[trigger] self.kid(j, v)).unwrap())
    }
}

// C07, all content modes: the reported range is exactly the set of positions that keep the children conformant
pub proof fn lemma_range_is_exact_general(s: &ElementRaw, n: Seq<usize>, v: u32, a: usize, b: usize, p: int)
    requires wf_tables(), resolve(s.t(), n) is Some, s.kids_valid(v), s.conform(v), s.range_post(n, v, Ok((a, b))), 0 <= p <= s.content@.len()
    ensures s.keeps_conform(n, v, p) <==> a <= p <= b
{
    let t = s.t();
    let len = s.content@.len() as int;
    lemma_lex_eq(n, n);
    assert forall|i: int| 0 <= i < len implies mode_of(t, (#[trigger] s.kid(i, v)).unwrap(), n) == mode_of(t, n, s.kid(i, v).unwrap()) && s.kmode(n, i, v) == Some(mode_of(t, n, s.kid(i, v).unwrap())) by {
        lemma_common_sym(t, s.kid(i, v).unwrap(), n);
    }
    if a <= p <= b {
        assert forall|i: int| 0 <= i < p implies pair_ok(t, (#[trigger] s.kid(i, v)).unwrap(), n) by {
            let e = s.kid(i, v).unwrap();
            if i >= a {
                assert(!s.conflict(n, i, v)); assert(!s.after(n, i, v));
                if s.kmode(n, i, v) == Some(ContentMode::Sequence) { assert(s.kid(i, v) == Some(n)); }
            } else {
                assert(s.before(n, a - 1, v));
                let ea = s.kid(a - 1, v).unwrap();
                if i < a - 1 { lemma_before_chain(t, n, ea, e); }
                else { lemma_lex_flip(e, n); lemma_lex_eq(e, n); }
            }
        }
        assert forall|j: int| p <= j < len implies pair_ok(t, n, (#[trigger] s.kid(j, v)).unwrap()) by {
            let e = s.kid(j, v).unwrap();
            if j < b {
                assert(!s.conflict(n, j, v)); assert(!s.after(n, j, v));
                if s.kmode(n, j, v) == Some(ContentMode::Sequence) { assert(s.kid(j, v) == Some(n)); }
            } else {
                assert(s.after(n, b as int, v));
                let eb = s.kid(b as int, v).unwrap();
                if j > b { lemma_after_chain(t, n, eb, e); }
                else { lemma_lex_eq(n, e); }
            }
        }
    } else if p < a {
        assert(s.before(n, a - 1, v));
        let e = s.kid(a - 1, v).unwrap();
        lemma_lex_flip(e, n);
        assert(!pair_ok(t, n, e));
    } else {
        assert(s.after(n, b as int, v));
        let e = s.kid(b as int, v).unwrap();
        lemma_lex_flip(n, e);
        assert(!pair_ok(t, e, n));
    }
}
// and a refusal means that no position keeps the children conformant
pub proof fn lemma_refusal_is_exact(s: &ElementRaw, n: Seq<usize>, v: u32, e: AutosarDataError, p: int)
    requires wf_tables(), resolve(s.t(), n) is Some, s.kids_valid(v), s.range_post(n, v, Err(e)), 0 <= p <= s.content@.len()
    ensures !s.keeps_conform(n, v, p)
{
    let t = s.t();
    let i = choose|i: int| 0 <= i < s.content@.len() && #[trigger] s.conflict(n, i, v) && (forall|j: int| 0 <= j < i ==> !#[trigger] s.after(n, j, v));
    let k = s.kid(i, v).unwrap();
    lemma_common_sym(t, k, n);
    lemma_lex_eq(n, n);
    if i < p { assert(!pair_ok(t, k, n)); } else { assert(!pair_ok(t, n, k)); }
}

// what find_from returns resolves, in the same type, to the element it names
pub proof fn lemma_find_resolves(t: int, i: int, name: ElementName, v: u32)
    requires wf_tables(), 0 <= t < n_dt(), 0 <= i
    ensures find_from(t, i, name, v) matches Some((d, p)) ==> (resolve(t, p) matches Some((d2, _)) && d2 == d && p.len() > 0 && p[0] >= i)
    decreases grank(t), sub_of(t).len() - i
{
    if i < sub_of(t).len() {
        assert(sub_of(t)[i] == t_sub(t_dt(t).sub_elements.0 + i));
        match sub_of(t)[i] {
            SubElement::Element(d) => {
                if t_el(d as int).name == name && v & t_ver(t_dt(t).sub_element_ver + i) != 0 {
                    assert(seq![i as usize].len() == 1);
                } else { lemma_find_resolves(t, i + 1, name, v); }
            }
            SubElement::Group(g) => {
                lemma_find_resolves(g as int, 0, name, v);
                match find_from(g as int, 0, name, v) {
                    Some((d, p)) => {
                        let q = seq![i as usize] + p;
                        assert(q[0] == i as usize);
                        assert(q.subrange(1, q.len() as int) =~= p);
                    }
                    None => { lemma_find_resolves(t, i + 1, name, v); }
                }
            }
        }
    }
}

// The representation invariant "children are conformant" is preserved by a creation inside the reported range
// (sequence / choice elements; bag and mixed elements accept any position by definition of calc_post)
pub proof fn lemma_creation_keeps_conform(old_n: &ElementRaw, new_n: &ElementRaw, name: ElementName, e: Element, v: u32, a: usize, b: usize, p: int)
    requires wf_tables(), 0 <= old_n.t() < n_dt(),
        t_dt(old_n.t()).mode == ContentMode::Sequence || t_dt(old_n.t()).mode == ContentMode::Choice,
        old_n.kids_valid(v), old_n.conform(v), old_n.calc_post(name, v, Ok((a, b))), a <= p <= b,
        new_n.elemtype == old_n.elemtype, name_of(e) == name, new_n.content@ == old_n.content@.insert(p, ElementContent::Element(e)),
    ensures new_n.kids_valid(v), new_n.conform(v)
{
    let t = old_n.t();
    lemma_find_resolves(t, 0, name, v);
    let n = find_from(t, 0, name, v).unwrap().1;
    assert(old_n.range_post(n, v, Ok((a, b))));
    assert(p <= old_n.content@.len());
    lemma_range_is_exact_general(old_n, n, v, a, b, p);
    let oc = old_n.content@; let nc = new_n.content@;
    assert forall|k: int| 0 <= k < nc.len() implies #[trigger] new_n.kid(k, v) == (if k < p { old_n.kid(k, v) } else if k == p { Some(n) } else { old_n.kid(k - 1, v) }) by {
        if k < p { assert(nc[k] == oc[k]); } else if k == p { assert(nc[k] == ElementContent::Element(e)); } else { assert(nc[k] == oc[k - 1]); }
    }
    assert forall|i: int, j: int| 0 <= i < j < nc.len() implies pair_ok(t, (#[trigger] new_n.kid(i, v)).unwrap(), (#[trigger] new_n.kid(j, v)).unwrap()) by {
        let oi = if i < p { i } else { i - 1 }; let oj = if j < p { j } else { j - 1 };
        if i == p { assert(pair_ok(t, n, old_n.kid(oj, v).unwrap())); }
        else if j == p { assert(pair_ok(t, old_n.kid(oi, v).unwrap(), n)); }
        else { assert(pair_ok(t, old_n.kid(oi, v).unwrap(), old_n.kid(oj, v).unwrap())); }
    }
}

