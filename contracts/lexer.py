"""C02 / unit `lexer`: the tokenizer of autosar-data/src/lexer.rs, for buffers of every length.

Top-level contract (from the property statement):
  * `next` never panics (every index/slice in bounds, no overflow), terminates, preserves the
    representation invariant, and every `Ok((l, _))` / `Err(LexerError{line: l})` satisfies
    1 <= l <= 1 + (number of '\n' in the buffer);
  * progress: a call that returns a non-EOF token strictly decreases `measure`, so a caller
    gets EndOfFile or an error after at most 2*len+1 calls.
"""
import re

from vxlib.verusunit import Unit, FnSpec

F = 'autosar-data/src/lexer.rs'
IMPL_A = r"impl<'a>\s+ArxmlLexer<'a>"
IMPL_B = r"impl\s+ArxmlLexer<'_>"

# Types the functions mention.  ArxmlEvent / ArxmlLexer / ArxmlLexerError are the real
# declarations minus attributes and doc comments (checked field-by-field by check_decls);
# PathBuf and AutosarDataError are opaque stand-ins (only LexerError is constructed here).
TYPES = r'''
pub struct PathBuf { pub opaque: u8 }
impl Clone for PathBuf {
    fn clone(&self) -> (r: Self) ensures r == *self { PathBuf { opaque: self.opaque } }
}

pub enum ArxmlLexerError {
    IncompleteData,
    InvalidElement,
    InvalidProcessingInstruction,
    InvalidXmlHeader,
    InvalidComment,
}

pub enum ArxmlParserError { AdditionalDataError, InvalidArxmlFileHeader, VxOther(u64) }

pub enum AutosarDataError {
    LexerError { filename: PathBuf, line: usize, source: ArxmlLexerError },
    ParserError { filename: PathBuf, line: usize, source: ArxmlParserError },
}

pub enum ArxmlEvent<'a> {
    ArxmlHeader(Option<bool>),
    BeginElement(&'a [u8], &'a [u8]),
    EndElement(&'a [u8]),
    Characters(&'a [u8]),
    Comment(&'a [u8]),
    EndOfFile,
}

pub struct ArxmlLexer<'a> {
    pub buffer: &'a [u8],
    pub bufpos: usize,
    pub line: usize,
    pub deferred_end: Option<(usize, usize)>,
    pub sourcefile: PathBuf,
}

pub open spec fn nl(s: Seq<u8>) -> nat { count(s, 10u8) }

pub open spec fn err_line(e: AutosarDataError) -> usize {
    match e { AutosarDataError::LexerError { line, .. } => line, AutosarDataError::ParserError { line, .. } => line }
}

// vx::SplitWs -- stands for `slice::split(u8::is_ascii_whitespace)` (rule R12): yields the
// maximal whitespace-free pieces, including empty ones, exactly once each; the first call on a
// fresh splitter always yields a piece.
pub struct SplitWs<'a> { pub s: &'a [u8], pub pos: usize, pub done: bool }

impl<'a> SplitWs<'a> {
    pub open spec fn wf(&self) -> bool { self.pos <= self.s.len() }

    pub fn new(s: &'a [u8]) -> (r: Self)
        ensures r.wf(), r.s == s, r.pos == 0, !r.done
    { SplitWs { s, pos: 0, done: false } }

    pub fn next(&mut self) -> (r: Option<&'a [u8]>)
        requires old(self).wf()
        ensures
            final(self).wf(), final(self).s == old(self).s,
            old(self).done ==> r.is_none() && final(self).done,
            !old(self).done ==> r.is_some(),
            r matches Some(p) ==> p.len() <= old(self).s.len(),
            r.is_some() ==> final(self).s.len() - final(self).pos + (if final(self).done { 0int } else { 1int })
                         <  old(self).s.len() - old(self).pos + (if old(self).done { 0int } else { 1int }),
            match r {
                Some(p) => exists|a: int, b: int| 0 <= a <= b <= old(self).s.len() && p@ == old(self).s@.subrange(a, b)
                            && forall|k: int| 0 <= k < p.len() ==> !is_ws(#[trigger] p@[k]),
                None => true,
            },
    {
        if self.done { return None; }
        let start = self.pos;
        let mut i = self.pos;
        while i < self.s.len() && !self.s[i].is_ascii_whitespace()
            invariant start <= i <= self.s.len(), self.pos == start, forall|k: int| start <= k < i ==> !is_ws(#[trigger] self.s@[k]),
            decreases self.s.len() - i
        { i += 1; }
        if i < self.s.len() { self.pos = i + 1; } else { self.pos = i; self.done = true; }
        let piece = &self.s[start..i];
        proof { assert(piece@ == self.s@.subrange(start as int, i as int)); }
        Some(piece)
    }
}

impl<'a> ArxmlLexer<'a> {
    pub open spec fn inv(&self) -> bool {
        &&& self.buffer.len() <= isize::MAX
        &&& self.bufpos <= self.buffer.len()
        &&& 1 <= self.line
        &&& self.line - 1 <= nl(self.buffer@.subrange(0, self.bufpos as int))
        &&& self.line - 1 <= nl(self.buffer@)
        &&& match self.deferred_end { Some((a, b)) => a <= b <= self.buffer.len(), None => true }
    }
    pub open spec fn measure(&self) -> int {
        2 * (self.buffer.len() - self.bufpos) + if self.deferred_end.is_some() { 1int } else { 0int }
    }
    // everything except the cursor is unchanged
    pub open spec fn same_buf(&self, o: &Self) -> bool { self.buffer == o.buffer }
}

pub proof fn lemma_nl_mono(s: Seq<u8>, a: int, b: int)
    requires 0 <= a <= b <= s.len()
    ensures nl(s.subrange(0, a)) <= nl(s.subrange(0, b)), nl(s.subrange(0, b)) <= nl(s), nl(s) <= s.len()
{
    lemma_count_split(s, 0, a, b, 10u8);
    lemma_count_sub_le(s, 0, b, 10u8);
    lemma_count_bound(s, 10u8);
}

// nl(s[0..p]) + nl(s[a..b]) <= nl(s[0..q]) whenever p <= a <= b <= q
pub proof fn lemma_nl_advance(s: Seq<u8>, p: int, a: int, b: int, q: int)
    requires 0 <= p <= a <= b <= q <= s.len()
    ensures nl(s.subrange(0, p)) + nl(s.subrange(a, b)) <= nl(s.subrange(0, q)), nl(s.subrange(0, q)) <= q, nl(s.subrange(0, q)) <= nl(s)
{
    lemma_count_sub_le(s, 0, q, 10u8);
    lemma_count_split(s, 0, p, q, 10u8);
    lemma_count_split(s, p, a, q, 10u8);
    lemma_count_split(s, a, b, q, 10u8);
    lemma_count_bound(s.subrange(0, q), 10u8);
}
'''

LINE_OK = 'final(self).inv() && final(self).same_buf(old(self))'

NEW = FnSpec('new', F, impl=IMPL_A, ret='r',
             sig_sub=[(r'pub\(crate\) fn', 'pub fn')],
             requires=['buffer.len() <= isize::MAX'],
             ensures=['r.inv()', 'r.buffer == buffer', 'r.line == 1', 'r.deferred_end.is_none()'],
             proofs=[dict(before=r'^\s*Self \{', text='proof { lemma_count_bound(buffer@.subrange(0, bufpos as int), 10u8); }')])

READ_CHARACTERS = FnSpec(
    'read_characters', F, impl=IMPL_A, ret='r',
    requires=['old(self).inv()', 'old(self).bufpos < old(self).buffer.len()', "old(self).buffer@[old(self).bufpos as int] != 60u8"],
    ensures=[LINE_OK, 'final(self).bufpos > old(self).bufpos', 'final(self).deferred_end == old(self).deferred_end',
             'r.0 matches ArxmlEvent::Characters(t) && t@ == old(self).buffer@.subrange(old(self).bufpos as int, final(self).bufpos as int)',
             'final(self).bufpos == final(self).buffer.len() || final(self).buffer@[final(self).bufpos as int] == 60u8',
             'forall|k: int| old(self).bufpos <= k < final(self).bufpos ==> #[trigger] final(self).buffer@[k] != 60u8',
             'r.1 == forall|k: int| old(self).bufpos <= k < final(self).bufpos ==> is_ws(#[trigger] final(self).buffer@[k])'],
    loops={0: dict(
        invariant=['self.buffer == old(self).buffer', 'self.bufpos == old(self).bufpos', 'self.deferred_end == old(self).deferred_end',
                   'self.buffer.len() <= isize::MAX',
                   'self.bufpos <= endpos <= self.buffer.len()', '1 <= self.line',
                   'self.line - 1 <= nl(self.buffer@.subrange(0, endpos as int))', 'self.line - 1 <= nl(self.buffer@)',
                   'endpos == self.bufpos ==> endpos < self.buffer.len() && self.buffer@[endpos as int] != 60u8',
                   'forall|k: int| self.bufpos <= k < endpos ==> #[trigger] self.buffer@[k] != 60u8',
                   'all_whitespace == forall|k: int| self.bufpos <= k < endpos ==> is_ws(#[trigger] self.buffer@[k])',
                   'match self.deferred_end { Some((a, b)) => a <= b <= self.buffer.len(), None => true }'],
        decreases='self.buffer.len() - endpos')},
    proofs=[dict(after=r'while endpos < self\.buffer\.len\(\).*\{', indent=True, text='''proof {
    assert(self.buffer@.subrange(0, endpos + 1) =~= self.buffer@.subrange(0, endpos as int).push(self.buffer@[endpos as int]));
    lemma_count_push(self.buffer@.subrange(0, endpos as int), self.buffer@[endpos as int], 10u8);
    lemma_count_bound(self.buffer@.subrange(0, endpos + 1), 10u8);
    lemma_count_sub_le(self.buffer@, 0, endpos + 1, 10u8);
}''')])

START_PRE = ['old(self).inv()', 'old(self).bufpos < old(self).buffer.len()', 'old(self).bufpos + 1 < endpos < old(self).buffer.len()',
             'old(self).buffer@[old(self).bufpos as int] == 60u8']

READ_ELEMENT_START = FnSpec(
    'read_element_start', F, impl=IMPL_A, ret='r',
    requires=START_PRE + ['old(self).deferred_end.is_none()'],
    ensures=[LINE_OK, 'final(self).bufpos == endpos + 1',
             'r is BeginElement',
             'old(self).buffer@[endpos - 1] != 47u8 ==> final(self).deferred_end.is_none()',
             ],
    proofs=[dict(before=r'^\s*self\.line \+= count_lines\(text\);', text='''proof {
    let ghost te = if self.buffer@[endpos - 1] == 47u8 { endpos - 1 } else { endpos as int };
    assert(text@ == self.buffer@.subrange(self.bufpos + 1, te));
    lemma_nl_advance(self.buffer@, self.bufpos as int, self.bufpos + 1, te, endpos + 1);
}''')])

READ_ELEMENT_END = FnSpec(
    'read_element_end', F, impl=IMPL_A, ret='r',
    requires=START_PRE,
    ensures=[LINE_OK, 'final(self).bufpos == endpos + 1', 'final(self).deferred_end == old(self).deferred_end', 'final(self).line == old(self).line',
             'r matches ArxmlEvent::EndElement(t) && t@ == old(self).buffer@.subrange(old(self).bufpos + 2, endpos as int)'],
    proofs=[dict(before=r'^\s*ArxmlEvent::EndElement\(text\)', text='proof { lemma_nl_advance(self.buffer@, old(self).bufpos as int, endpos as int, endpos as int, endpos + 1); }')])

# R12: iteration over `split(u8::is_ascii_whitespace)`
R12 = [
    (r'let mut (\w+) = (\w+)\.split\(u8::is_ascii_whitespace\);', lambda m: 'let mut %s = SplitWs::new(%s);' % (m.group(1), m.group(2)), 'R12'),
    (r'for (\w+) in splitter \{', lambda m: 'loop { let %s = match splitter.next() { Some(vx_p) => vx_p, None => break };' % m.group(1), 'R12'),
]

READ_XML_HEADER = FnSpec(
    'read_xml_header', F, impl=IMPL_A, ret='r', body_sub=R12,
    requires=START_PRE + ['old(self).buffer@[old(self).bufpos + 1] == 63u8'],
    attrs=['#[verifier::loop_isolation(false)]'],
    ensures=[LINE_OK, 'final(self).bufpos >= old(self).bufpos', '!(r matches Some(Err(_))) ==> final(self).bufpos > old(self).bufpos', 'final(self).deferred_end == old(self).deferred_end',
             'r matches Some(Err(e)) ==> 1 <= err_line(e) <= 1 + nl(final(self).buffer@)',
             'r matches Some(Ok(ev)) ==> ev is ArxmlHeader'],
    loops={0: dict(invariant=['splitter.wf()', 'splitter.s == text'],
                   decreases='splitter.s.len() - splitter.pos + (if splitter.done { 0int } else { 1int })')},
    proofs=[dict(before=r'^\s*self\.line \+= count_lines\(text\);', text='''proof {
    assert(text@ == self.buffer@.subrange(old(self).bufpos + 2, endpos - 1));
    lemma_nl_advance(self.buffer@, old(self).bufpos as int, old(self).bufpos + 2, endpos - 1, endpos + 1);
}'''),
            dict(before=r'^\s*if self\.buffer\[endpos - 1\] != b.\?. \{|^\s*if endpos < self\.bufpos \+ 3 \|\|', text='proof { lemma_nl_mono(self.buffer@, self.bufpos as int, self.bufpos as int); }'),
            dict(before=r'^\s*let mut splitter = ', text='proof { lemma_nl_mono(self.buffer@, endpos + 1, endpos + 1); lemma_nl_advance(self.buffer@, old(self).bufpos as int, endpos as int, endpos as int, endpos + 1); }'),
            ])

READ_COMMENT = FnSpec(
    'read_comment', F, impl=IMPL_A, ret='r',
    requires=['old(self).inv()', 'old(self).bufpos < old(self).buffer.len()', 'old(self).bufpos + 1 < endpos < old(self).buffer.len()'],
    ensures=[LINE_OK, 'final(self).bufpos == endpos + 1', 'final(self).deferred_end == old(self).deferred_end',
             'r matches Err(e) ==> 1 <= err_line(e) <= 1 + nl(final(self).buffer@)',
             'r matches Ok(ev) ==> ev matches ArxmlEvent::Comment(c) && c@ == old(self).buffer@.subrange(old(self).bufpos + 4, endpos - 2)'],
    proofs=[dict(after=r'self\.bufpos = endpos \+ 1;', text='''proof {
    assert(text@ == self.buffer@.subrange(startpos as int, endpos as int));
    lemma_nl_advance(self.buffer@, startpos as int, startpos as int, endpos as int, endpos + 1);
    lemma_nl_mono(self.buffer@, startpos as int, endpos + 1);
}''')])

# R6: `break VALUE;` inside the tail `loop` of `next` -> `return VALUE;` (the loop is the value
# of the else-branch, which is the value of the function; checked syntactically below).
R6 = [(r'break (Ok\(\(self\.line, ArxmlEvent::EndOfFile\)\));', lambda m: 'return %s;' % m.group(1), 'R6')]

NEXT = FnSpec(
    'next', F, impl=IMPL_B, ret='r', body_sub=R6,
    sig_sub=[(r'pub\(crate\) fn', 'pub fn'), (r'Result<\(usize, ArxmlEvent\), AutosarDataError>', "Result<(usize, ArxmlEvent<'a>), AutosarDataError>")],
    requires=['old(self).inv()'],
    ensures=[LINE_OK,
             'r matches Ok((l, _)) ==> 1 <= l <= 1 + nl(final(self).buffer@)',
             'r matches Err(e) ==> 1 <= err_line(e) <= 1 + nl(final(self).buffer@)',
             'r matches Ok((_, ev)) ==> (ev is EndOfFile || final(self).measure() < old(self).measure())',
             'r matches Ok((_, ev)) ==> (ev is EndOfFile ==> final(self).bufpos == final(self).buffer.len() && final(self).deferred_end.is_none())',
             'final(self).measure() <= old(self).measure()'],
    loops={0: dict(invariant=['self.inv()', 'self.buffer == old(self).buffer', 'self.deferred_end.is_none()',
                              'self.measure() <= old(self).measure()', 'old(self).deferred_end.is_none()'],
                   decreases='self.buffer.len() - self.bufpos'),
           1: dict(invariant=['self.bufpos + 2 <= comment_endpos <= self.buffer.len()', 'self.buffer == old(self).buffer', 'self.inv()',
                              'self.bufpos < self.buffer.len()', 'self.deferred_end.is_none()', 'self.measure() <= old(self).measure()'],
                   decreases='self.buffer.len() - comment_endpos')},
    proofs=[dict(before=r'^\s*if let Some\(\(startpos, endpos\)\) = self\.deferred_end', text='proof { lemma_nl_mono(self.buffer@, self.bufpos as int, self.bufpos as int); }'),
            dict(after=r'^\s*loop\s*(decreases[^{]*)?\{', indent=True, text='proof { lemma_nl_mono(self.buffer@, self.bufpos as int, self.bufpos as int); }'),
            ])

COUNT_LINES = FnSpec('count_lines', F, ret='r', ensures=['r == nl(text@)'])

UNIT = Unit(
    name='lexer', prop='C02', spec=TYPES,
    fns=[NEW, READ_CHARACTERS, READ_ELEMENT_START, READ_ELEMENT_END, READ_XML_HEADER, READ_COMMENT, NEXT, COUNT_LINES],
    wrap={IMPL_A: "impl<'a> ArxmlLexer<'a>", IMPL_B: "impl<'a> ArxmlLexer<'a>"},
    dropped=['derive/doc/#[error] attributes of ArxmlLexerError, ArxmlEvent; `pub(crate)` visibility -> `pub`',
             'PathBuf is an opaque stand-in (only cloned into error values); AutosarDataError reduced to the LexerError variant',
             "`impl ArxmlLexer<'_>` is emitted as `impl<'a> ArxmlLexer<'a>`, and the events returned by `next` carry the buffer's lifetime 'a instead of the lifetime of the `&mut self` borrow (lifetimes have no run-time meaning; needed so that specifications may mention the lexer while an event is alive)",
             'fn error (3 lines) is included verbatim'],
)
UNIT.fns.insert(7, FnSpec('error', F, impl=IMPL_B, ret='r', ensures=['err_line(r) == self.line']))


def check_decls(repo_dir):
    """Mechanical side condition: the re-declared types have the fields/variants of the real ones."""
    import os
    from vxlib.rustsrc import Source, Lost
    src = Source(os.path.join(repo_dir, F))
    s, o, c = src.find_block(r'struct ArxmlLexer<')
    real = re.sub(r'\s+', ' ', src.text[o + 1:c]).strip()
    want = "buffer: &'a [u8], bufpos: usize, line: usize, deferred_end: Option<(usize, usize)>, sourcefile: PathBuf,"
    if real != want:
        raise Lost('struct ArxmlLexer changed: %r' % real)
    s, o, c = src.find_block(r'enum ArxmlEvent<')
    real = re.sub(r'\s+', ' ', src.text[o + 1:c]).strip()
    want = "ArxmlHeader(Option<bool>), BeginElement(&'a [u8], &'a [u8]), EndElement(&'a [u8]), Characters(&'a [u8]), Comment(&'a [u8]), EndOfFile,"
    if real != want:
        raise Lost('enum ArxmlEvent changed: %r' % real)
    s, o, c = src.find_block(r'enum ArxmlLexerError')
    body = re.sub(r'///.*|#\[error\((?:[^()]|\([^()]*\))*\)\]', '', src.text[o + 1:c])
    real = re.sub(r'\s+', ' ', body).strip()
    want = 'IncompleteData, InvalidElement, InvalidProcessingInstruction, InvalidXmlHeader, InvalidComment,'
    if real != want:
        raise Lost('enum ArxmlLexerError changed: %r' % real)
    lib = Source(os.path.join(repo_dir, 'autosar-data/src/lib.rs'))
    if not re.search(r'LexerError\s*\{[^}]*filename:\s*PathBuf,[^}]*line:\s*usize,[^}]*source:\s*ArxmlLexerError,\s*\}', lib.text, re.S):
        raise Lost('AutosarDataError::LexerError changed')
    # R6 side condition: in `next`, after the tail loop only closing braces follow
    s, o, c = src.impl_block(IMPL_B)
    f = src.find_fn('next', within=(o, c))
    loops = src.loops_in(f['open'], f['end'])
    tail = src.text[loops[0]['end'] + 1:f['end'] + 1]
    if loops[0]['kind'] != 'loop' or re.sub(r'[\s}]', '', tail) != '':
        raise Lost('next: the `loop` is no longer the tail expression (rule R6 does not apply)')
