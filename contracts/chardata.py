"""C17 + C20 / unit `chardata`: the value-level validity functions of autosar-data/src/chardata.rs, for every value, every
spec (enumerations of any length, any max_length, any pattern validator) and every declared version:

    CharacterData::check_value                    r == valid(value, spec, version)
    CharacterData::check_version_compatibility    exactness of the value-level compatibility check (C17)
    CharacterData::parse                          Some(d) ==> valid(d, spec, version); String/Pattern: accepted text is kept verbatim
    AutosarVersion::compatible                    (autosar-data-specification/src/lib.rs)

valid() is the property's notion of "the value is valid for the spec in that version": the kind matches the spec, a
string is within max_length and accepted by the pattern validator, an enum item is listed with a mask containing the
version (the first entry for the item -- the tables list each item once).

Leaves (contract = an uninterpreted function of the arguments; listed in the evidence): the pattern validator behind
`check_fn` (its language is C19), EnumItem::from_str (C18), str::parse::<u64>/<f64> (std), byte length / bytes of a
string.  `fn(&[u8]) -> bool` is not a type Verus accepts: the field is re-declared as an opaque handle `CheckFn`, and
calling it is the leaf vx_call_check.

Rules: R27 `items.iter().find(|(x, _)| *x == V)` -> vx_find_item(items, V) (verified helper: first matching entry);
R28 `S.len()` / `S.as_bytes()` on String/&str -> vx_strlen / vx_bytes; `check_fn(B)` -> vx_call_check(check_fn, B);
`EnumItem::from_str(input)` -> vx_enum_from_str(input); `input.parse()` -> vx_parse_u64 / vx_parse_f64 by arm;
`u32 & &u32` -> explicit deref.
"""
import os
import re

from vxlib.verusunit import Unit, FnSpec
from vxlib.rustsrc import Source, Lost
from contracts import parser_funnel

F = 'autosar-data/src/chardata.rs'
F_SPEC = 'autosar-data-specification/src/lib.rs'
IMPL_CD = r'impl CharacterData'
IMPL_V = r'impl AutosarVersion'

SPEC = r'''
#[derive(Clone, Copy, PartialEq, Eq, Structural)]
pub struct EnumItem { pub id: u16 }
%(version_enum)s
pub enum CharacterData { Enum(EnumItem), String(String), UnsignedInteger(u64), Float(f64) }
// stands for `fn(&[u8]) -> bool` (function pointer types are not supported by Verus): opaque handle, called through vx_call_check
pub struct CheckFn { pub id: u64 }
pub enum CharacterDataSpec {
    Enum { items: &'static [(EnumItem, u32)] },
    Pattern { check_fn: CheckFn, regex: &'static str, max_length: Option<usize> },
    String { preserve_whitespace: bool, max_length: Option<usize> },
    UnsignedInteger,
    Float,
}

// ---- leaves
pub uninterp spec fn bytes_of(s: Seq<char>) -> Seq<u8>;                 // UTF-8 encoding
pub uninterp spec fn pat_ok(f: CheckFn, b: Seq<u8>) -> bool;            // verdict of the pattern validator (C19)
pub uninterp spec fn enum_of_text(s: Seq<char>) -> Option<EnumItem>;    // EnumItem::from_str (C18)
pub uninterp spec fn u64_of_text(s: Seq<char>) -> Option<u64>;          // str::parse::<u64>
pub uninterp spec fn f64_of_text(s: Seq<char>) -> Option<f64>;          // str::parse::<f64>

#[verifier::external_body]
pub fn vx_call_check(f: &CheckFn, b: &[u8]) -> (r: bool) ensures r == pat_ok(*f, b@) { unimplemented!() }
#[verifier::external_body]
pub fn vx_bytes(s: &String) -> (r: &[u8]) ensures r@ == bytes_of(s@) { s.as_bytes() }
#[verifier::external_body]
pub fn vx_bytes_str(s: &str) -> (r: &[u8]) ensures r@ == bytes_of(s@) { s.as_bytes() }
#[verifier::external_body]
pub fn vx_strlen(s: &String) -> (r: usize) ensures r == bytes_of(s@).len() { s.len() }
#[verifier::external_body]
pub fn vx_strlen_str(s: &str) -> (r: usize) ensures r == bytes_of(s@).len() { s.len() }
#[verifier::external_body]
pub fn vx_enum_from_str(s: &str) -> (r: Result<EnumItem, ()>) ensures (match r { Ok(e) => Some(e), Err(_) => None }) == enum_of_text(s@) { unimplemented!() }
#[verifier::external_body]
pub fn vx_parse_u64(s: &str) -> (r: Result<u64, ()>) ensures (match r { Ok(e) => Some(e), Err(_) => None }) == u64_of_text(s@) { unimplemented!() }
#[verifier::external_body]
pub fn vx_parse_f64(s: &str) -> (r: Result<f64, ()>) ensures (match r { Ok(e) => Some(e), Err(_) => None }) == f64_of_text(s@) { unimplemented!() }

// position i is the first entry of the enumeration for item v
pub open spec fn is_first(items: Seq<(EnumItem, u32)>, i: int, v: EnumItem) -> bool {
    0 <= i < items.len() && items[i].0 == v && forall|k: int| 0 <= k < i ==> (#[trigger] items[k]).0 != v
}
pub open spec fn listed(items: Seq<(EnumItem, u32)>, v: EnumItem) -> bool { exists|i: int| is_first(items, i, v) }
pub open spec fn mask_of(items: Seq<(EnumItem, u32)>, v: EnumItem) -> u32 { let i = choose|i: int| is_first(items, i, v); items[i].1 }
pub proof fn lemma_first_unique(items: Seq<(EnumItem, u32)>, i: int, j: int, v: EnumItem)
    requires is_first(items, i, v), is_first(items, j, v)
    ensures i == j
{}

pub fn vx_find_item<'a>(x: &'a [(EnumItem, u32)], v: EnumItem) -> (r: Option<&'a (EnumItem, u32)>)
    ensures match r {
        Some(e) => listed(x@, v) && e.0 == v && e.1 == mask_of(x@, v),
        None => !listed(x@, v),
    }
{
    let mut i: usize = 0;
    while i < x.len()
        invariant i <= x.len(), forall|k: int| 0 <= k < i ==> (#[trigger] x@[k]).0 != v,
        decreases x.len() - i
    {
        if x[i].0 == v {
            proof {
                assert(is_first(x@, i as int, v));
                let j = choose|j: int| is_first(x@, j, v);
                lemma_first_unique(x@, i as int, j, v);
            }
            return Some(&x[i]);
        }
        i += 1;
    }
    proof { assert forall|j: int| !is_first(x@, j, v) by {} }
    None
}

pub open spec fn maxlen(m: Option<usize>) -> int { match m { Some(n) => n as int, None => usize::MAX as int } }

// "the value is valid for the spec in version `ver`" (ver: the version's bit)
pub open spec fn valid(value: CharacterData, spec: CharacterDataSpec, ver: u32) -> bool {
    match spec {
        CharacterDataSpec::Enum { items } => value matches CharacterData::Enum(a) && listed(items@, a) && mask_of(items@, a) & ver != 0,
        CharacterDataSpec::Pattern { check_fn, max_length, .. } => value matches CharacterData::String(s) && bytes_of(s@).len() <= maxlen(max_length) && pat_ok(check_fn, bytes_of(s@)),
        CharacterDataSpec::String { max_length, .. } => value matches CharacterData::String(s) && bytes_of(s@).len() <= maxlen(max_length),
        CharacterDataSpec::UnsignedInteger => value is UnsignedInteger,
        CharacterDataSpec::Float => value is Float,
    }
}

// C17, value level: what the compatibility check must return
pub open spec fn compat_post(value: CharacterData, spec: CharacterDataSpec, target: u32, r: (bool, u32)) -> bool {
    match spec {
        CharacterDataSpec::Enum { items } => {
            &&& r.0 == valid(value, spec, target)                       // no incompatibility <=> valid when relabelled with the target version
            &&& (r.0 ==> r.1 & target != 0)
            &&& (value matches CharacterData::Enum(a) ==> {
                    &&& (r.0 <==> r.1 & target != 0)                    // the mask contains the target exactly in that case
                    &&& (listed(items@, a) ==> r.1 == mask_of(items@, a))
                    &&& (!listed(items@, a) ==> r.1 == 0)
                })
        }
        _ => r == (true, u32::MAX),
    }
}
// a value that is valid for the spec in the target version is never reported incompatible (first clause of unit compatwalk's leaf)
pub proof fn lemma_valid_implies_compatible(value: CharacterData, spec: CharacterDataSpec, target: u32, r: (bool, u32))
    requires compat_post(value, spec, target, r), valid(value, spec, target)
    ensures r.0
{}
// the clause unit compatwalk states on its leaf declaration: when an enumeration value is held wherever one is expected, the returned mask
// contains the target exactly when the value is compatible
pub proof fn lemma_compat_iff(value: CharacterData, spec: CharacterDataSpec, target: u32, r: (bool, u32))
    requires compat_post(value, spec, target, r), target != 0, spec is Enum ==> value is Enum
    ensures r.0 <==> r.1 & target != 0
{ assert(target != 0 ==> 0xffff_ffffu32 & target != 0) by(bit_vector); }
'''

BV = '''proof { assert forall|a: u32, b: u32| #[trigger] (a & b) == b & a by { assert(a & b == b & a) by(bit_vector); } assert forall|a: u32| #[trigger] (0u32 & a) == 0 by { assert(0u32 & a == 0) by(bit_vector); } }'''

R_CD = [
    (r'items\.iter\(\)\.find\(\|\((\w+), _\)\| \*\1 == (\*?\w+)\)', lambda m: 'vx_find_item(items, %s)' % m.group(2), 'R27'),
    (r'\bstringval\.len\(\)', lambda m: 'vx_strlen(stringval)', 'R28'),
    (r'\binput\.len\(\)', lambda m: 'vx_strlen_str(input)', 'R28'),
    (r'check_fn\(stringval\.as_bytes\(\)\)', lambda m: 'vx_call_check(check_fn, vx_bytes(stringval))', 'R28'),
    (r'check_fn\(input\.as_bytes\(\)\)', lambda m: 'vx_call_check(check_fn, vx_bytes_str(input))', 'R28'),
    (r'EnumItem::from_str\(input\)', lambda m: 'vx_enum_from_str(input)', 'R28'),
    (r'input\.parse\(\)(?=\s*\{\s*return Some\(CharacterData::UnsignedInteger)', lambda m: 'vx_parse_u64(input)', 'R28'),
    (r'input\.parse\(\)(?=\s*\{\s*return Some\(CharacterData::Float)', lambda m: 'vx_parse_f64(input)', 'R28'),
    (r'version as u32 & version_mask\b', lambda m: 'version as u32 & *version_mask', 'R28'),
]


def check_decls(repo_dir):
    lib = Source(os.path.join(repo_dir, F_SPEC))
    s, o, c = lib.find_block(r'pub enum CharacterDataSpec')
    body = re.sub(r'\s+', ' ', re.sub(r'^\s*//.*\n', '', lib.text[o + 1:c], flags=re.M)).strip()
    want = "Enum { items: &'static [(EnumItem, u32)], }, Pattern { check_fn: fn(&[u8]) -> bool, regex: &'static str, max_length: Option<usize>, }, String { preserve_whitespace: bool, max_length: Option<usize>, }, UnsignedInteger, Float,"
    if body != want:
        raise Lost('enum CharacterDataSpec changed: %r' % body)
    from contracts import cmp
    cmp.check_decls(repo_dir)


def make_unit(repo_dir):
    check_decls(repo_dir)
    spec = SPEC % dict(version_enum=parser_funnel.version_enum(repo_dir))
    sig = [(r'pub\(crate\) fn', 'pub fn')]
    fns = [
        FnSpec('compatible', F_SPEC, impl=IMPL_V, ret='r', ensures=['r == (version_mask & (*self as u32) != 0)']),
        FnSpec('check_value', F, impl=IMPL_CD, ret='r', sig_sub=sig, body_sub=R_CD,
               ensures=['r == valid(*value, *spec, file_version as u32)']),
        FnSpec('check_version_compatibility', F, impl=IMPL_CD, ret='r', sig_sub=sig, body_sub=R_CD,
               ensures=['compat_post(*self, *data_spec, target_version as u32, r)'],
               proofs=[dict(at='body_start', text=BV)]),
        FnSpec('parse', F, impl=IMPL_CD, ret='r', sig_sub=sig, body_sub=R_CD,
               ensures=['r matches Some(d) ==> valid(d, *character_data_spec, version as u32)',
                        '(character_data_spec is String || character_data_spec is Pattern) ==> (r matches Some(d) ==> (d matches CharacterData::String(s) && s@ == input@))',
                        '(*character_data_spec matches CharacterDataSpec::String { max_length, .. } && bytes_of(input@).len() <= maxlen(max_length)) ==> r is Some',
                        '(*character_data_spec matches CharacterDataSpec::Pattern { check_fn, max_length, .. } && bytes_of(input@).len() <= maxlen(max_length) && pat_ok(check_fn, bytes_of(input@))) ==> r is Some',
                        '(*character_data_spec matches CharacterDataSpec::Enum { items } && (enum_of_text(input@) matches Some(e) && listed(items@, e) && mask_of(items@, e) & (version as u32) != 0)) ==> r is Some'],
               proofs=[dict(at='body_start', text=BV)]),
    ]
    u = Unit(name='chardata', prop='C20', spec=spec, fns=fns, wrap={IMPL_CD: 'impl CharacterData', IMPL_V: 'impl AutosarVersion'},
             dropped=['`check_fn: fn(&[u8]) -> bool` is re-declared as an opaque handle CheckFn (Verus has no function pointer types); EnumItem is an opaque stand-in; AutosarVersion is the real enum text',
                      'leaves with uninterpreted contracts: pattern validator call, EnumItem::from_str, str::parse::<u64/f64>, String/str byte length and bytes'])
    return u
