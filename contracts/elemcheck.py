"""C08 / unit `elemcheck`: the three element-structure checks parse_element runs for every start tag (parser.rs):

    find_element_in_spec_checked   "an element that is unknown in its context or not available in the file's version"
    check_element_conflict         "two adjacent alternatives of an exclusive choice"
    check_multiplicity             "a repeated single-occurrence element"

Contracts, from the property statement ("... is never accepted by strict loading"), for every element type, name, index list and
any table contents satisfying wf_tables() / wf_modes():

    find_element_in_spec_checked(name, t)
        strict  && Ok((et, idx)) ==> idx resolves in t's sub-element tree to a listed element called `name` whose version mask
                                     contains the file version, and et is exactly its type     (== find_post of unit lookups)
        lenient && Ok((et, idx)) ==> the same for *some* version (mask != 0); a finding was recorded iff the file version is
                                     not in the mask
    check_element_conflict(name, t, prev, new)
        strict  && Ok  ==> !(prev non-empty && prev != new && mode(common_group(t, prev, new)) == Choice)
        and the `panic!("accepted a sub-element inside a character-only element")` is unreachable
    check_multiplicity(name, t, idx, element)
        strict  && Ok  ==> !(container mode of idx is Sequence|Choice && multiplicity(idx) != Any && element already has a child `name`)
    all three: the mode flag, line, file version are unchanged (same_mode); lenient mode never fails in check_element_conflict /
    check_multiplicity.

Callees: the specification lookups (find_sub_element, get_sub_element_version_mask, find_common_group, content_mode,
get_sub_element_container_mode, get_sub_element_multiplicity) are *leaves carrying exactly the contracts that unit lookups proves
on their real text* (vxlib.verusunit.leaf_decl: signature from the real source on every run); the funnel (error, optional_error,
check_version) is verified here again from its real text.  `element.content.iter().any(..)` -- "the element already has a child
with this name" -- is the uninterpreted predicate has_child_named (ElementRaw is opaque: the element graph is out of reach).

Rules R38: error struct literals -> opaque value (R36); `let P = E.ok_or_else(|| { self.error(X) })?;` -> match with early return;
`a == b` on index lists -> vx_idx_eq; the `.iter().any(..)` child test -> vx_has_child_named; `.is_empty()` (R16);
`&elem_idx` (a &Vec<usize>) passed as a slice -> `.as_slice()`.
"""
import copy
import re

from vxlib.verusunit import Unit, FnSpec
from vxlib.rustsrc import Lost
from contracts import parser_funnel, lookups

F = 'autosar-data/src/parser.rs'
IMPL_P = r"impl<'a>\s+ArxmlParser<'a>"

TYPES = r'''
pub struct PathBuf { pub opaque: u8 }
impl Clone for PathBuf {
    fn clone(&self) -> (r: Self) ensures r == *self { PathBuf { opaque: self.opaque } }
}
pub enum ArxmlLexerError { IncompleteData }
pub enum ArxmlParserError { AdditionalDataError, InvalidArxmlFileHeader, VxOther(u64) }
pub enum AutosarDataError {
    LexerError { filename: PathBuf, line: usize, source: ArxmlLexerError },
    ParserError { filename: PathBuf, line: usize, source: ArxmlParserError },
}
pub struct WeakElement { pub opaque: u8 }
pub struct ElementRaw { pub opaque: u8 }

%(version_enum)s

pub struct ArxmlParser<'a> {
    pub filename: PathBuf,
    pub line: usize,
    pub buffer: &'a [u8],
    pub fileversion: AutosarVersion,
    pub current_element: ElementName,
    pub strict: bool,
    pub version_compatibility: u32,
    pub identifiables: Vec<(String, WeakElement)>,
    pub references: Vec<(String, WeakElement)>,
    pub warnings: Vec<AutosarDataError>,
    pub standalone: Option<bool>,
}
impl<'a> ArxmlParser<'a> {
    pub open spec fn same_mode(&self, o: &Self) -> bool {
        self.strict == o.strict && self.line == o.line && self.filename == o.filename && self.buffer == o.buffer
        && self.fileversion == o.fileversion && self.current_element == o.current_element && self.standalone == o.standalone
        && self.identifiables == o.identifiables && self.references == o.references
    }
}
pub open spec fn err_line(e: AutosarDataError) -> usize {
    match e { AutosarDataError::LexerError { line, .. } => line, AutosarDataError::ParserError { line, .. } => line }
}
pub open spec fn parser_err(p: &ArxmlParser, err: ArxmlParserError) -> AutosarDataError {
    AutosarDataError::ParserError { filename: p.filename, line: p.line, source: err }
}

// "the element already has a child element with this name" (ElementRaw.content behind locks: out of reach)
pub uninterp spec fn has_child_named(e: ElementRaw, n: ElementName) -> bool;
#[verifier::external_body]
pub fn vx_has_child_named(e: &ElementRaw, n: ElementName) -> (r: bool) ensures r == has_child_named(*e, n) { unimplemented!() }
pub fn vx_idx_eq(a: &[usize], b: &Vec<usize>) -> (r: bool) ensures r == (a@ == b@)
{
    if a.len() != b.len() { return false; }
    let mut i: usize = 0;
    while i < a.len()
        invariant i <= a.len(), a.len() == b.len(), forall|k: int| 0 <= k < i ==> a@[k] == b@[k],
        decreases a.len() - i
    {
        if a[i] != b[i] { return false; }
        i += 1;
    }
    proof { assert(a@ =~= b@); }
    true
}

// Table fact used by the panic!/unreachable! sites: a character-only type lists no sub-elements and is never a group.
// ASSUMED in this unit; discharged on the real statics by `ground lib tables_modes`.
pub open spec fn wf_modes() -> bool {
    &&& forall|t: int| 0 <= t < n_dt() && (#[trigger] t_dt(t)).mode == ContentMode::Characters ==> t_dt(t).sub_elements.0 == t_dt(t).sub_elements.1
    &&& forall|i: int| 0 <= i < n_sub() ==> (#[trigger] t_sub(i) matches SubElement::Group(g) ==> t_dt(g as int).mode != ContentMode::Characters)
}
#[verifier::external_body]
pub proof fn axiom_modes() ensures wf_modes() {}

pub proof fn lemma_common_group_mode(t: int, a: Seq<usize>, b: Seq<usize>)
    requires wf_tables(), wf_modes(), idx_ok(t, a), a.len() > 0 || t_dt(t).mode != ContentMode::Characters
    ensures t_dt(common_group(t, a, b)).mode != ContentMode::Characters, 0 <= common_group(t, a, b) < n_dt()
    decreases a.len()
{
    if a.len() > 0 && b.len() > 0 && a[0] == b[0] && a[0] < sub_of(t).len() {
        assert(sub_of(t)[a[0] as int] == t_sub(t_dt(t).sub_elements.0 + a[0]));
        match sub_of(t)[a[0] as int] {
            SubElement::Group(g) => {
                let ta = a.subrange(1, a.len() as int);
                assert(idx_ok(g as int, ta)) by { if a.len() == 1 { assert(ta.len() == 0); } }
                lemma_common_group_mode(g as int, ta, b.subrange(1, b.len() as int));
            }
            SubElement::Element(_) => {}
        }
    }
    if a.len() > 0 { assert(sub_of(t).len() > 0); }
}
pub proof fn lemma_hit_idx(t: int, p: Seq<usize>, name: ElementName, v: u32)
    requires hit(t, p, name, v)
    ensures idx_ok(t, p), resolve_any(t, p) matches Some((SubElement::Element(d), m)) && resolve(t, p) == Some((d, m))
{ lemma_resolve_any(t, p); }
'''

MULT = r'''
// "a single-occurrence element inside a sequence or choice"
pub open spec fn mult_limited(t: int, p: Seq<usize>) -> bool {
    (t_dt(container_of(t, p)).mode == ContentMode::Sequence || t_dt(container_of(t, p)).mode == ContentMode::Choice)
    && (resolve(t, p) matches Some((d, _)) && t_el(d as int).multiplicity != ElementMultiplicity::Any)
}
'''

R38 = [
    (r'ArxmlParserError::\w+ \{[^{}]*\}', lambda m: 'ArxmlParserError::VxOther(0)', 'R36'),
    (r'let (\([^()]*\)|\w+) =\s*((?:[^;{}]|\n)*?)\.ok_or_else\(\|\| \{\s*self\.error\((ArxmlParserError::VxOther\(0\))\)\s*\}\)\?;',
     lambda m: 'let %s = match %s { Some(vx_v) => vx_v, None => { return Err(self.error(%s)); } };' % (m.group(1), m.group(2).strip(), m.group(3)), 'R38'),
    (r'\((\w+) == (\w+)\)', lambda m: 'vx_idx_eq(%s, %s)' % (m.group(1), m.group(2)), 'R38'),
    (r'element\.content\.iter\(\)\.any\(\|ec\| \{\s*ec\.unwrap_element\(\)\s*\.is_some_and\(\|subelem\| subelem\.element_name\(\) == name\)\s*\}\)',
     lambda m: 'vx_has_child_named(element, name)', 'R38'),
    (r'((?:\w+\.)*\w+)\.is_empty\(\)', lambda m: '(%s.len() == 0)' % m.group(1), 'R16'),
    (r'get_sub_element_version_mask\(&(\w+)\)', lambda m: 'get_sub_element_version_mask(%s.as_slice())' % m.group(1), 'R38'),
    # `new_elem_indices` is the `&Vec<usize>` parameter, `elem_indices` the slice: only the vector needs the conversion, in whatever position
    (r'find_common_group\((\w+), (\w+)\)', lambda m: 'find_common_group(%s, %s)' % tuple((a + '.as_slice()') if a == 'new_elem_indices' else a for a in (m.group(1), m.group(2))), 'R38'),
]

LEAVES = ['find_sub_element', 'get_sub_element_version_mask', 'find_common_group', 'ElementType.content_mode', 'GroupType.content_mode',
          'get_sub_element_container_mode', 'get_sub_element_multiplicity']

V = 'old(self).fileversion as u32'


def make_unit(repo_dir):
    parser_funnel.check_decls(repo_dir)
    lookups.check_decls(repo_dir)
    sz = lookups.table_sizes(repo_dir)
    lspec = lookups.TYPES % dict(version_enum='', STATICS='', REFERENCE_TYPE_IDX=sz['REFERENCE_TYPE_IDX'], **{k: v[1] for k, v in sz.items() if isinstance(v, tuple)})
    spec = lspec + TYPES % dict(version_enum=parser_funnel.version_enum(repo_dir))
    lf = {f.label: f for f in lookups.fns(sz)}
    ff = {f.name: copy.copy(f) for f in parser_funnel.fns() if f.name in ('error', 'optional_error', 'check_version')}
    ff['error'].label = 'ArxmlParser.error'
    T = 'elemtype.typ < n_dt()'
    fns = [ff['error'], ff['optional_error'], ff['check_version'],
           FnSpec('find_element_in_spec_checked', F, impl=IMPL_P, ret='r', body_sub=R38, requires=[T],
                  ensures=['final(self).same_mode(old(self))',
                           'old(self).strict ==> (r matches Ok(p) ==> find_post(elemtype.typ as int, name, %s, Some(p)) && find_is(elemtype.typ as int, name, %s, Some(p))) && final(self).warnings@ == old(self).warnings@' % (V, V),
                           '!old(self).strict ==> (r matches Ok(p) ==> find_post(elemtype.typ as int, name, u32::MAX, Some(p)) && (hit(elemtype.typ as int, p.1@, name, %s) <==> final(self).warnings@ == old(self).warnings@))' % V],
                  proofs=[dict(at='body_start', text='proof { axiom_tables(); }\nlet ghost t = elemtype.typ as int; let ghost fv = self.fileversion as u32;'),
                          dict(before=r'^\s*let version_mask = ', text='proof { lemma_hit_idx(t, elem_idx@, name, u32::MAX); assert(!hit(t, elem_idx@, name, fv)); }'),
                          dict(after=r'let version_mask = elemtype\.get_sub_element_version_mask\(elem_idx\.as_slice\(\)\)\.unwrap\(\);',
                               text='proof { assert(fv & version_mask == 0); }'),
                          dict(before=r'^\s*Ok\(\(sub_elem_type, new_elem_indices\)\)', text='''proof {
    if !old(self).strict && hit(t, new_elem_indices@, name, fv) {
        let m = resolve(t, new_elem_indices@).unwrap().1;
        assert(fv & m != 0);
        assert(fv & m != 0 ==> u32::MAX & m != 0) by(bit_vector);
    }
    if self.warnings@ != old(self).warnings@ { assert(self.warnings@.len() == old(self).warnings@.len() + 1); }
}''')]),
           FnSpec('check_element_conflict', F, impl=IMPL_P, ret='r', body_sub=R38, requires=[T, 'idx_ok(elemtype.typ as int, elem_indices@)'],
                  ensures=['final(self).same_mode(old(self))',
                           'old(self).strict && r is Ok ==> !(elem_indices@.len() > 0 && elem_indices@ != new_elem_indices@ && t_dt(common_group(elemtype.typ as int, elem_indices@, new_elem_indices@)).mode == ContentMode::Choice)',
                           'old(self).strict ==> final(self).warnings@ == old(self).warnings@',
                           '!old(self).strict ==> r is Ok'],
                  proofs=[dict(at='body_start', text='proof { axiom_tables(); axiom_modes(); if elem_indices@.len() > 0 { lemma_common_group_mode(elemtype.typ as int, elem_indices@, new_elem_indices@); } }')]),
           FnSpec('check_multiplicity', F, impl=IMPL_P, ret='r', body_sub=R38, requires=[T, 'resolve(elemtype.typ as int, elem_idx@) is Some'],
                  ensures=['final(self).same_mode(old(self))',
                           'old(self).strict && r is Ok ==> !(has_child_named(*element, name) && mult_limited(elemtype.typ as int, elem_idx@))',
                           'old(self).strict ==> final(self).warnings@ == old(self).warnings@',
                           '!old(self).strict ==> r is Ok'],
                  proofs=[dict(at='body_start', text='proof { axiom_tables(); lemma_resolve_any(elemtype.typ as int, elem_idx@); }')])]
    spec += MULT
    u = Unit(name='elemcheck', prop='C08', spec=spec, fns=fns,
             wrap={IMPL_P: "impl<'a> ArxmlParser<'a>", lookups.IMPL_ET: 'impl ElementType', lookups.IMPL_GT: 'impl GroupType'},
             dropped=['error payloads: every `ArxmlParserError::Variant { .. }` literal is the opaque ArxmlParserError::VxOther(0) (rule R36); ArxmlParser has its real field list, element-graph types are opaque',
                      'specification lookups are leaves with the contracts proved in unit lookups; table contents uninterpreted (wf_tables, wf_modes discharged by native ground checks)',
                      'ElementRaw is opaque: `element.content.iter().any(..)` is the uninterpreted predicate has_child_named'])
    for name in LEAVES:
        if name not in lf:
            raise Lost('unit lookups has no contract for %s' % name)
        u.leaves.append((lf[name], 'lookups'))
    return u
