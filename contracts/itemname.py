"""C14 / unit `itemname`: element.rs::decompose_item_name for names of every length.

    Some((base, idx))  ==>  base is the name up to the start p of its maximal suffix of ASCII digits, and idx is the value std
                            parses from that suffix;   None ==> std cannot parse the suffix (it is empty or does not fit u64)
and the function never panics: p is a char boundary because every byte from p on is an ASCII digit (this is the precondition of
the two string-slicing leaves).  In the `cmp` unit decompose_item_name is a leaf ("a function of the name's text"); this unit
shows which function.

Rules: R31 `name.as_bytes()` -> vx_bytes_str; `name[pos..].parse()` -> vx_parse_u64_from(name, pos); `name[0..pos].to_owned()` ->
vx_prefix_owned(name, pos) (leaves: str slicing at a char boundary, str::parse::<u64>, to_owned).
"""
from vxlib.verusunit import Unit, FnSpec

F = 'autosar-data/src/element.rs'

SPEC = r'''
pub uninterp spec fn bytes_of(s: Seq<char>) -> Seq<u8>;
pub uninterp spec fn u64_of_bytes(b: Seq<u8>) -> Option<u64>;   // str::parse::<u64>().ok()
#[verifier::external_body]
pub fn vx_bytes_str(s: &str) -> (r: &[u8]) ensures r@ == bytes_of(s@) { s.as_bytes() }
// name[pos..].parse::<u64>(): pos must be a char boundary -- it is, because every byte from pos on is an ASCII digit
#[verifier::external_body]
pub fn vx_parse_u64_from(name: &str, pos: usize) -> (r: Result<u64, ()>)
    requires pos <= bytes_of(name@).len(), forall|k: int| pos <= k < bytes_of(name@).len() ==> is_digit(#[trigger] bytes_of(name@)[k])
    ensures (match r { Ok(v) => Some(v), Err(_) => None }) == u64_of_bytes(bytes_of(name@).subrange(pos as int, bytes_of(name@).len() as int))
{ unimplemented!() }
#[verifier::external_body]
pub fn vx_prefix_owned(name: &str, pos: usize) -> (r: String)
    requires pos <= bytes_of(name@).len(), forall|k: int| pos <= k < bytes_of(name@).len() ==> is_digit(#[trigger] bytes_of(name@)[k])
    ensures bytes_of(r@) == bytes_of(name@).subrange(0, pos as int)
{ unimplemented!() }

// p is the start of the maximal suffix of ASCII digits of b
pub open spec fn digit_suffix_start(b: Seq<u8>, p: int) -> bool {
    0 <= p <= b.len() && (forall|k: int| p <= k < b.len() ==> is_digit(#[trigger] b[k])) && (p > 0 ==> !is_digit(b[p - 1]))
}
'''

R31 = [
    (r'\bname\.as_bytes\(\)', lambda m: 'vx_bytes_str(name)', 'R31'),
    (r'\bname\[pos\.\.\]\.parse\(\)', lambda m: 'vx_parse_u64_from(name, pos)', 'R31'),
    (r'\bname\[0\.\.pos\]\.to_owned\(\)', lambda m: 'vx_prefix_owned(name, pos)', 'R31'),
]

UNIT = Unit(
    name='itemname', prop='C14', spec=SPEC,
    fns=[FnSpec('decompose_item_name', F, ret='r', body_sub=R31,
                ensures=['''match r {
            Some((base, idx)) => exists|p: int| digit_suffix_start(bytes_of(name@), p) && bytes_of(base@) == bytes_of(name@).subrange(0, p)
                                  && u64_of_bytes(bytes_of(name@).subrange(p, bytes_of(name@).len() as int)) == Some(idx),
            None => exists|p: int| digit_suffix_start(bytes_of(name@), p) && u64_of_bytes(bytes_of(name@).subrange(p, bytes_of(name@).len() as int)) is None,
        }'''],
                loops={0: dict(invariant=['pos <= bytestr.len()', 'bytestr@ == bytes_of(name@)', 'forall|k: int| pos <= k < bytestr.len() ==> is_digit(#[trigger] bytestr@[k])'],
                               decreases='pos')},
                proofs=[dict(before=r'^\s*if let Ok\(index\) = ', text='proof { assert(digit_suffix_start(bytes_of(name@), pos as int)); }')])],
    dropped=['doc comments; leaves: str slicing at a char boundary, str::parse::<u64>, to_owned'])
