"""C02 / unit `trim`: parser.rs::trim_byte_string, for all byte slices.

Postcondition (from the property: loading never panics; trimming removes only
surrounding ASCII whitespace): the result is input[a..b] where everything before a and
from b on is whitespace, and if non-empty it neither starts nor ends with whitespace.
Panic freedom (index in bounds, no underflow) is implicit in Verus's exec-mode checks.
"""
from vxlib.verusunit import Unit, FnSpec

SPEC = r'''
pub open spec fn trimmed(s: Seq<u8>, r: Seq<u8>, a: int, b: int) -> bool {
    0 <= a <= b <= s.len() && r == s.subrange(a, b)
        && (forall|k: int| 0 <= k < a ==> is_ws(#[trigger] s[k]))
        && (forall|k: int| b <= k < s.len() ==> is_ws(#[trigger] s[k]))
        && (a < b ==> !is_ws(s[a]) && !is_ws(s[b - 1]))
}
'''

UNIT = Unit(
    name='trim', prop='C02', spec=SPEC,
    fns=[FnSpec(
        'trim_byte_string', 'autosar-data/src/parser.rs', ret='r',
        ensures=['exists|a: int, b: int| trimmed(input@, r@, a, b)'],
        loops={0: dict(
            invariant=['len <= input.len()',
                       'forall|k: int| len <= k < input.len() ==> is_ws(#[trigger] input@[k])'],
            decreases='len')},
        proofs=[
            dict(after=r'let start = .*;', text='''proof {
    if len > 0 { assert(!is_ws(input@[len - 1])); }
    assert(trimmed(input@, input@.subrange(start as int, len as int), start as int, len as int));
}'''),
            dict(after=r'\}\s*else\s*\{', indent=True, text='''proof { assert(input@ =~= input@.subrange(0, 0)); assert(trimmed(input@, input@, 0, 0)); }'''),
        ],
    )],
    dropped=['nothing: the function is free-standing and copied verbatim (rule R2 applied to `.iter().position(|c| !c.is_ascii_whitespace())`)'],
)
