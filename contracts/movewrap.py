"""C07 / unit `movewrap`: Element::move_element_here and Element::move_element_here_at (element.rs), the public entry points of a move.

A move relinks the sub-tree as it is -- unlike a copy nothing is filtered by version -- so "all elements, attributes and values are
permitted in the file's version" after a successful move rests on the documented restriction 2: "The origin document of the element
must have exactly the same AutosarVersion as the destination."  The contract says that the wrappers enforce it:

    r is Ok  ==>  min_version(self) == min_version(move_element), both known
    and the node-level move is reached only with that common version

An Element is an opaque handle; model() / min_version() (locks, parent walk, file set) are leaves that report uninterpreted functions
of the handle; `self.0.write().move_element_here(..)` is the node-level function behind the write guard (leaf: moved(..) uninterpreted;
its position test is under contract in unit insertrange).  Rule R53: `self.0.write().F(self.downgrade(), ARGS)` -> `self.vx_locked_F(ARGS)`;
error payloads opaque (R39).
"""
import os
import re

from vxlib.verusunit import Unit, FnSpec
from vxlib.rustsrc import Lost
from contracts import parser_funnel

F = 'autosar-data/src/element.rs'
IMPL_E = r'impl Element'

SPEC = r'''
%(version_enum)s
pub enum AutosarDataError { VxOther(u64) }
#[derive(Clone, Copy)]
pub struct Element { pub opaque: u64 }
pub struct AutosarModel { pub opaque: u64 }

pub uninterp spec fn model_of(e: Element) -> Option<AutosarModel>;
pub uninterp spec fn minv_of(e: Element) -> Option<AutosarVersion>;
// what the node-level move returns, as a function of everything it is given
pub uninterp spec fn moved(dst: Element, src: Element, position: Option<usize>, version: AutosarVersion) -> Result<Element, AutosarDataError>;

impl Element {
    #[verifier::external_body]
    pub fn model(&self) -> (r: Result<AutosarModel, AutosarDataError>)
        ensures (match r { Ok(m) => model_of(*self) == Some(m), Err(_) => model_of(*self) is None })
    { unimplemented!() }
    #[verifier::external_body]
    pub fn min_version(&self) -> (r: Result<AutosarVersion, AutosarDataError>)
        ensures (match r { Ok(v) => minv_of(*self) == Some(v), Err(_) => minv_of(*self) is None })
    { unimplemented!() }
    // `self.0.write().move_element_here(self.downgrade(), move_element, &model, &model_src, version)`
    #[verifier::external_body]
    pub fn vx_locked_move_element_here(&self, move_element: &Element, model: &AutosarModel, model_src: &AutosarModel, version: AutosarVersion) -> (r: Result<Element, AutosarDataError>)
        requires minv_of(*self) == Some(version), minv_of(*move_element) == Some(version)
        ensures r == moved(*self, *move_element, None, version)
    { unimplemented!() }
    #[verifier::external_body]
    pub fn vx_locked_move_element_here_at(&self, move_element: &Element, position: usize, model: &AutosarModel, model_src: &AutosarModel, version: AutosarVersion) -> (r: Result<Element, AutosarDataError>)
        requires minv_of(*self) == Some(version), minv_of(*move_element) == Some(version)
        ensures r == moved(*self, *move_element, Some(position), version)
    { unimplemented!() }
}
'''

R53 = [
    # an ordering comparison of the two versions (none in the pinned text): derive(PartialOrd) on the fieldless enum orders by discriminant
    (r'\b(version|version_src) (<=|>=|<|>) (version|version_src)\b', lambda m: '(%s as u32) %s (%s as u32)' % (m.group(1), m.group(2), m.group(3)), 'R53'),
    (r'AutosarDataError::\w+ \{[^{}]*\}', lambda m: 'AutosarDataError::VxOther(0)', 'R39'),
    (r'self\.0\s*\.write\(\)\s*\.move_element_here\(self\.downgrade\(\), move_element, &model, &model_src, version\)', lambda m: 'self.vx_locked_move_element_here(move_element, &model, &model_src, version)', 'R53'),
    (r'self\.0\s*\.write\(\)\s*\.move_element_here_at\(self\.downgrade\(\), move_element, position, &model, &model_src, version\)', lambda m: 'self.vx_locked_move_element_here_at(move_element, position, &model, &model_src, version)', 'R53'),
]


def make_unit(repo_dir):
    # `version != version_src`: the real enum derives PartialEq / Eq (checked below); structural equality in the unit
    ve = parser_funnel.version_enum(repo_dir).replace('#[derive(Clone, Copy)]', '#[derive(Clone, Copy, PartialEq, Eq, Structural)]', 1)
    real = open(os.path.join(repo_dir, 'autosar-data-specification/src/autosarversion.rs')).read()
    if not re.search(r'#\[derive\([^)]*\bPartialEq\b[^)]*\)\]\s*(?:(?:#\[[^\]]*\]|///[^\n]*)\s*)*pub enum AutosarVersion', real):
        raise Lost('enum AutosarVersion no longer derives PartialEq')
    spec = SPEC % dict(version_enum=ve)
    same = 'r is Ok ==> (minv_of(*self) matches Some(v) && minv_of(*move_element) == Some(v))'
    fns = [FnSpec('move_element_here', F, impl=IMPL_E, ret='r', body_sub=R53,
                  ensures=[same,
                           # the refusals: an element outside a model, or without a version, or of another version is not moved
                           'model_of(*self) is None || model_of(*move_element) is None || minv_of(*self) is None || minv_of(*move_element) is None || minv_of(*self) != minv_of(*move_element) ==> r is Err',
                           'r is Ok ==> (minv_of(*self) matches Some(v) && r == moved(*self, *move_element, None, v))']),
           FnSpec('move_element_here_at', F, impl=IMPL_E, ret='r', body_sub=R53,
                  ensures=[same,
                           'model_of(*self) is None || model_of(*move_element) is None || minv_of(*self) is None || minv_of(*move_element) is None || minv_of(*self) != minv_of(*move_element) ==> r is Err',
                           'r is Ok ==> (minv_of(*self) matches Some(v) && r == moved(*self, *move_element, Some(position), v))'])]
    u = Unit(name='movewrap', prop='C07', spec=spec, fns=fns, wrap={IMPL_E: 'impl Element'},
             dropped=['an Element is an opaque handle: model() and min_version() (locks, parent walk, file set) are leaves reporting uninterpreted functions of the handle; the node-level move behind the write guard is a leaf (`moved`), reachable only with the common version of both sides'])
    return u
